//! Builds the "counterfactual twin" of bacon's optimize module: the module's current source text from the
//! repository under test with the one statement named by the C17 known finding corrected
//! (`denom * (above + below)` -> `denom * (above - below)` in jac_finite_differences).  The harness runs both
//! on every curve_fit case, so a failure of the real code can be attributed to that call site (the twin
//! passes) or not (the twin fails too, or the statement is no longer there).
use std::{env, fs, path::PathBuf};

fn main() {
    let src = "/repo/src/optimize/mod.rs";
    println!("cargo:rerun-if-changed={src}");
    println!("cargo:rerun-if-changed=build.rs");
    let text = fs::read_to_string(src).expect("read optimize/mod.rs");
    let twin = text
        .replace("use crate::polynomial::Polynomial;", "use bacon_sci::polynomial;\nuse bacon_sci::polynomial::Polynomial;")
        .replace("denom * (above + below)", "denom * (above - below)");
    let out = PathBuf::from(env::var("OUT_DIR").unwrap()).join("optimize_twin.rs");
    fs::write(out, twin).unwrap();
}
