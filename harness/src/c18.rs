//! C18: orthogonal polynomial constructors - record degree and coefficients for every
//! family x n x zero tolerance x {real, complex}. No expected values are computed here.
use crate::util::*;
use bacon_sci::polynomial::Polynomial;
use bacon_sci::special;
use serde_json::json;


fn asc<N: nalgebra::ComplexField + num_traits::FromPrimitive + Copy>(p: &Polynomial<N>) -> Vec<N>
where
    N::RealField: num_traits::FromPrimitive + Copy,
{
    let mut c = p.get_coefficients();
    c.reverse();
    c
}

pub fn run(args: &[String]) {
    let cases = read_ndjson(&args[0]);
    let mut out = Out::create(&args[1]);
    for case in cases {
        let fam = case["fam"].as_str().unwrap().to_string();
        let n = ji(&case["n"]) as u32;
        let tol = jf(&case["tol"]);
        let cx = case["cx"].as_bool().unwrap();
        let mut o = case.clone();
        if !cx {
            let f = fam.clone();
            let r = guarded(move || match f.as_str() {
                "legendre" => special::legendre::<f64>(n, tol),
                "hermite" => special::hermite::<f64>(n, tol),
                "laguerre" => special::laguerre::<f64>(n, tol),
                "chebyshev" => special::chebyshev::<f64>(n, tol),
                _ => special::chebyshev_second::<f64>(n, tol),
            });
            match r {
                Ok(Ok(p)) => {
                    o["st"] = json!("ok");
                    o["order"] = json!(p.order());
                    let c: Vec<C64> = asc(&p).iter().map(|x| C64::new(*x, 0.0)).collect();
                    o["coef"] = cvj(&c);
                    o["ptol"] = fj(p.get_tolerance());
                }
                Ok(Err(_)) => o["st"] = json!("err"),
                Err(_) => o["st"] = json!("panic"),
            }
        } else {
            let f = fam.clone();
            let r = guarded(move || match f.as_str() {
                "legendre" => special::legendre::<C64>(n, tol),
                "hermite" => special::hermite::<C64>(n, tol),
                "laguerre" => special::laguerre::<C64>(n, tol),
                "chebyshev" => special::chebyshev::<C64>(n, tol),
                _ => special::chebyshev_second::<C64>(n, tol),
            });
            match r {
                Ok(Ok(p)) => {
                    o["st"] = json!("ok");
                    o["order"] = json!(p.order());
                    o["coef"] = cvj(&asc(&p));
                    o["ptol"] = fj(p.get_tolerance());
                }
                Ok(Err(_)) => o["st"] = json!("err"),
                Err(_) => o["st"] = json!("panic"),
            }
        }
        if o["st"] != "ok" {
            o["order"] = json!(-1);
            o["coef"] = json!([]);
            o["ptol"] = fj(0.0);
        }
        out.put(o);
    }
    out.finish();
}
