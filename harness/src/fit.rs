//! Polynomial root finding / orthogonal-polynomial zeros (C14) and least-squares fitting (C17): observations only.
use crate::util::*;
use bacon_sci::optimize::linear_fit;
use bacon_sci::polynomial::Polynomial;
use bacon_sci::special;
use nalgebra::SVector;
use serde_json::{json, Value};
use std::cell::RefCell;

/// bacon's optimize module with the jac_finite_differences sign corrected (see build.rs)
#[allow(dead_code, unused_imports, clippy::all)]
mod optimize_twin {
    include!(concat!(env!("OUT_DIR"), "/optimize_twin.rs"));
}

pub fn run_polyroots(args: &[String]) {
    let cases = read_ndjson(&args[0]);
    let mut out = Out::create(&args[1]);
    for case in cases {
        let mut o = case.clone();
        let kind = case["kind"].as_str().unwrap().to_string();
        let tol = jf(&case["tol"]);
        let nmax = ji(&case["n_max"]) as usize;
        let c2 = case.clone();
        let r = guarded(move || -> Result<Vec<C64>, String> {
            if kind == "roots" {
                let coefs = jcv(&c2["coefs"]);
                if c2["cx"].as_bool().unwrap() {
                    let desc: Vec<C64> = coefs.iter().rev().copied().collect();
                    Polynomial::<C64>::from_slice(&desc).roots(tol, nmax).map(|v| v.into_iter().collect())
                } else {
                    let desc: Vec<f64> = coefs.iter().rev().map(|c| c.re).collect();
                    Polynomial::<f64>::from_slice(&desc).roots(tol, nmax).map(|v| v.into_iter().collect())
                }
            } else {
                let n = ji(&c2["n"]) as u32;
                let ptol = jf(&c2["ptol"]);
                let z: Result<Vec<f64>, String> = match c2["fam"].as_str().unwrap() {
                    "legendre" => special::legendre_zeros::<f64>(n, tol, ptol, nmax),
                    "hermite" => special::hermite_zeros::<f64>(n, tol, ptol, nmax),
                    "laguerre" => special::laguerre_zeros::<f64>(n, tol, ptol, nmax),
                    f => panic!("unknown family {f}"),
                };
                z.map(|v| v.into_iter().map(|x| C64::new(x, 0.0)).collect())
            }
        });
        o["roots"] = json!([]);
        match r {
            Ok(Ok(v)) => {
                o["st"] = json!("ok");
                o["roots"] = cvj(&v);
            }
            Ok(Err(_)) => o["st"] = json!("err"),
            Err(_) => o["st"] = json!("panic"),
        }
        out.put(o);
    }
    out.finish();
}

/// model catalogue: value and gradient with respect to the parameters
fn model(kind: &str, x: f64, p: &[f64]) -> f64 {
    match kind {
        "poly" => p.iter().rev().fold(0.0, |acc, c| acc * x + c), // p0 + p1 x + ...
        "trig" => {
            // p0 + p1 sin x + p2 cos x + p3 sin 2x
            let basis = [1.0, x.sin(), x.cos(), (2.0 * x).sin()];
            p.iter().zip(basis.iter()).map(|(a, b)| a * b).sum()
        }
        "exp" => p[0] * (p[1] * x).exp(),
        "gauss" => p[0] * (-(x - p[1]) * (x - p[1]) / (p[2] * p[2])).exp(),
        "logistic" => p[0] / (1.0 + (-p[1] * (x - p[2])).exp()),
        k => panic!("unknown model {k}"),
    }
}

fn grad(kind: &str, x: f64, p: &[f64]) -> Vec<f64> {
    match kind {
        "poly" => (0..p.len()).map(|k| x.powi(k as i32)).collect(),
        "trig" => [1.0, x.sin(), x.cos(), (2.0 * x).sin()][..p.len()].to_vec(),
        "exp" => vec![(p[1] * x).exp(), p[0] * x * (p[1] * x).exp()],
        "gauss" => {
            let e = (-(x - p[1]) * (x - p[1]) / (p[2] * p[2])).exp();
            vec![e, p[0] * e * 2.0 * (x - p[1]) / (p[2] * p[2]), p[0] * e * 2.0 * (x - p[1]) * (x - p[1]) / (p[2] * p[2] * p[2])]
        }
        "logistic" => {
            let e = (-p[1] * (x - p[2])).exp();
            let d = 1.0 + e;
            vec![1.0 / d, p[0] * (x - p[2]) * e / (d * d), -p[0] * p[1] * e / (d * d)]
        }
        k => panic!("unknown model {k}"),
    }
}

// control-flow trace of a Levenberg-Marquardt run: the closure calls grouped into blocks of n = xs.len() consecutive
// calls of one kind (model "f" / Jacobian "j"); a block keeps the parameter vector of its first call, whether all its
// calls had that same vector, and the model values
struct LmBlock {
    kind: u8,
    params: Vec<f64>,
    same: bool,
    values: Vec<f64>,
    count: usize,
}
thread_local! {
    static LM_ON: RefCell<usize> = const { RefCell::new(0) };          // 0 = off, else block length n
    static LM_LOG: RefCell<Vec<LmBlock>> = const { RefCell::new(Vec::new()) };
}
fn lm_log(kind: u8, p: &[f64], y: f64) {
    let n = LM_ON.with(|o| *o.borrow());
    if n == 0 {
        return;
    }
    LM_LOG.with(|l| {
        let mut l = l.borrow_mut();
        let fresh = match l.last() {
            Some(b) => b.kind != kind || b.count >= n,
            None => true,
        };
        if fresh {
            if l.len() >= 800 {
                return;
            }
            l.push(LmBlock { kind, params: p.to_vec(), same: true, values: vec![], count: 0 });
        }
        let b = l.last_mut().unwrap();
        if b.params.iter().zip(p.iter()).any(|(a, c)| a.to_bits() != c.to_bits()) {
            b.same = false;
        }
        b.count += 1;
        if kind == 0 {
            b.values.push(y);
        }
    });
}

macro_rules! fit_impl {
    ($name:ident, $m:path) => {
        fn $name<const V: usize>(case: &Value, calls: &RefCell<usize>, budget: usize) -> Result<Vec<f64>, String> {
            use $m as opt;
            let kind = case["model"].as_str().unwrap().to_string();
            let xs = jfv(&case["xs"]);
            let ys = jfv(&case["ys"]);
            let init = jfv(&case["init"]);
            let params = opt::CurveFitParams::<f64> {
                damping: jf(&case["damping"]),
                tolerance: jf(&case["tol"]),
                h: jf(&case["h"]),
                damping_mult: jf(&case["mult"]),
            };
            let k2 = kind.clone();
            let f = |x: f64, p: &SVector<f64, V>| {
                *calls.borrow_mut() += 1;
                if *calls.borrow() > budget {
                    panic!("budget");
                }
                let y = model(&kind, x, p.as_slice());
                lm_log(0, p.as_slice(), y);
                y
            };
            let r = if case["variant"] == "jac" {
                let j = |x: f64, p: &SVector<f64, V>| {
                    lm_log(1, p.as_slice(), 0.0);
                    SVector::<f64, V>::from_column_slice(&grad(&k2, x, p.as_slice()))
                };
                opt::curve_fit_jac::<f64, _, _, V>(f, &xs, &ys, &init, j, &params)
            } else {
                opt::curve_fit::<f64, _, V>(f, &xs, &ys, &init, &params)
            };
            r.map(|v| v.as_slice().to_vec())
        }
    };
}
fit_impl!(fit_v, bacon_sci::optimize);
fit_impl!(fit_twin_v, optimize_twin);

/// one Levenberg-Marquardt run: (status, parameters, model calls)
fn lm_run(case: &Value, twin: bool) -> (&'static str, Vec<f64>, usize) {
    let calls = RefCell::new(0usize);
    let budget = ji(&case["budget"]) as usize;
    let v = ji(&case["v"]);
    let r = std::panic::catch_unwind(std::panic::AssertUnwindSafe(|| match (v, twin) {
        (1, false) => fit_v::<1>(case, &calls, budget),
        (2, false) => fit_v::<2>(case, &calls, budget),
        (3, false) => fit_v::<3>(case, &calls, budget),
        (4, false) => fit_v::<4>(case, &calls, budget),
        (1, true) => fit_twin_v::<1>(case, &calls, budget),
        (2, true) => fit_twin_v::<2>(case, &calls, budget),
        (3, true) => fit_twin_v::<3>(case, &calls, budget),
        (4, true) => fit_twin_v::<4>(case, &calls, budget),
        _ => panic!("unsupported parameter count"),
    }));
    let n = *calls.borrow();
    match r {
        Ok(Ok(p)) => ("ok", p, n),
        Ok(Err(_)) => ("err", vec![], n),
        Err(_) => (if n > budget { "budget" } else { "panic" }, vec![], n),
    }
}

pub fn run_fit(args: &[String]) {
    let cases = read_ndjson(&args[0]);
    let mut out = Out::create(&args[1]);
    for case in cases {
        let mut o = case.clone();
        o["params"] = json!([]);
        o["calls"] = json!(0);
        if case["variant"] == "linear" {
            let cx = case["cx"].as_bool().unwrap_or(false);
            let c2 = case.clone();
            let r = guarded(move || -> Result<Vec<C64>, String> {
                if cx {
                    let xs = jcv(&c2["xs"]);
                    let ys = jcv(&c2["ys"]);
                    linear_fit(&xs, &ys).map(|p| vec![p.get_coefficient(1), p.get_coefficient(0)])
                } else {
                    let xs = jfv(&c2["xs"]);
                    let ys = jfv(&c2["ys"]);
                    linear_fit(&xs, &ys).map(|p| vec![C64::new(p.get_coefficient(1), 0.0), C64::new(p.get_coefficient(0), 0.0)])
                }
            });
            o["lin"] = json!([]);
            match r {
                Ok(Ok(v)) => {
                    o["st"] = json!("ok");
                    o["lin"] = cvj(&v);
                }
                Ok(Err(_)) => o["st"] = json!("err"),
                Err(_) => o["st"] = json!("panic"),
            }
            out.put(o);
            continue;
        }
        // control-flow trace of the analytic-Jacobian variant (blocks of n closure calls)
        let trace = case["variant"] == "jac" && case["xs"].as_array().map(|a| a.len()).unwrap_or(0) > 0;
        LM_LOG.with(|l| l.borrow_mut().clear());
        LM_ON.with(|o| *o.borrow_mut() = if trace { case["xs"].as_array().unwrap().len() } else { 0 });
        let (st, p, n) = lm_run(&case, false);
        LM_ON.with(|o| *o.borrow_mut() = 0);
        o["blocks"] = LM_LOG.with(|l| {
            Value::Array(
                l.borrow()
                    .iter()
                    .map(|b| json!({"k": if b.kind == 0 { "f" } else { "j" }, "p": fvj(&b.params), "same": b.same, "n": b.count, "v": fvj(&b.values)}))
                    .collect(),
            )
        });
        o["st"] = json!(st);
        o["params"] = fvj(&p);
        o["calls"] = json!(n);
        // the same case through the twin (only curve_fit uses the finite-difference Jacobian)
        if case["variant"] == "fd" {
            let (st, p, n) = lm_run(&case, true);
            o["twin_st"] = json!(st);
            o["twin_params"] = fvj(&p);
            o["twin_calls"] = json!(n);
        } else {
            o["twin_st"] = o["st"].clone();
            o["twin_params"] = o["params"].clone();
            o["twin_calls"] = o["calls"].clone();
        }
        out.put(o);
    }
    out.finish();
}
