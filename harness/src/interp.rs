//! Lagrange / Hermite interpolation (C15), cubic splines (C16), finite differences (C19): observations only.
use crate::util::*;
use bacon_sci::differentiate::{derivative, second_derivative};
use bacon_sci::interp::{hermite, lagrange, spline_clamped, spline_free};
use bacon_sci::polynomial::Polynomial;
use serde_json::{json, Value};

fn asc<N: Scalar>(p: &Polynomial<N>) -> Vec<C64> {
    let mut c: Vec<C64> = p.get_coefficients().iter().map(|x| x.to_c()).collect();
    c.reverse();
    c
}

fn interp_case<N: Scalar>(case: &Value) -> Value {
    let xs: Vec<N> = jcv(&case["xs"]).iter().map(|c| N::of_c(*c)).collect();
    let ys: Vec<N> = jcv(&case["ys"]).iter().map(|c| N::of_c(*c)).collect();
    let ds: Vec<N> = jcv(&case["ds"]).iter().map(|c| N::of_c(*c)).collect();
    let tol = jf(&case["tol"]);
    let r = if case["kind"] == "lagrange" { lagrange(&xs, &ys, tol) } else { hermite(&xs, &ys, &ds, tol) };
    match r {
        Ok(p) => {
            let at: Vec<Value> = xs
                .iter()
                .map(|x| {
                    let (v, d) = p.evaluate_derivative(*x);
                    json!({"v": cj(p.evaluate(*x).to_c()), "v2": cj(v.to_c()), "d": cj(d.to_c())})
                })
                .collect();
            json!({"st": "ok", "coefs": cvj(&asc(&p)), "order": p.order(), "at": at})
        }
        Err(_) => json!({"st": "err", "coefs": [], "order": 0, "at": []}),
    }
}

pub fn run_interp(args: &[String]) {
    let cases = read_ndjson(&args[0]);
    let mut out = Out::create(&args[1]);
    for case in cases {
        let cx = case["cx"].as_bool().unwrap();
        let c2 = case.clone();
        let r = guarded(move || if cx { interp_case::<C64>(&c2) } else { interp_case::<f64>(&c2) });
        let mut o = case.clone();
        o["obs"] = match r {
            Ok(v) => v,
            Err(m) => json!({"st": "panic", "msg": m, "coefs": [], "order": 0, "at": []}),
        };
        out.put(o);
    }
    out.finish();
}

fn spline_case<N: Scalar>(case: &Value) -> Value {
    let xs = jfv(&case["xs"]);
    let ys: Vec<N> = jcv(&case["ys"]).iter().map(|c| N::of_c(*c)).collect();
    let tol = jf(&case["tol"]);
    let r = if case["kind"] == "free" {
        spline_free(&xs, &ys, tol)
    } else {
        spline_clamped(&xs, &ys, (N::of_c(jc(&case["f0"])), N::of_c(jc(&case["fn"]))), tol)
    };
    match r {
        Err(_) => json!({"st": "err", "pts": []}),
        Ok(s) => {
            // probe points: supplied by the case (knots approached from both sides, interior points, outside)
            let mut pts = vec![];
            for q in jfv(&case["probe"]) {
                let v = s.evaluate(q);
                let d = s.evaluate_derivative(q);
                // (okv / okd: the two entry points, evaluate and evaluate_derivative, each on its own)
                let (okv, okd) = (v.is_ok(), d.is_ok());
                pts.push(match (v, d) {
                    (Ok(v), Ok((v2, d))) => json!({"x": fj(q), "ok": true, "okv": true, "okd": true, "v": cj(v.to_c()), "v2": cj(v2.to_c()), "d": cj(d.to_c())}),
                    _ => json!({"x": fj(q), "ok": false, "okv": okv, "okd": okd, "v": cj(C64::new(0.0, 0.0)), "v2": cj(C64::new(0.0, 0.0)), "d": cj(C64::new(0.0, 0.0))}),
                });
            }
            json!({"st": "ok", "pts": pts})
        }
    }
}

pub fn run_spline(args: &[String]) {
    let cases = read_ndjson(&args[0]);
    let mut out = Out::create(&args[1]);
    for case in cases {
        let cx = case["cx"].as_bool().unwrap();
        let c2 = case.clone();
        let r = guarded(move || if cx { spline_case::<C64>(&c2) } else { spline_case::<f64>(&c2) });
        let mut o = case.clone();
        o["obs"] = match r {
            Ok(v) => v,
            Err(m) => json!({"st": "panic", "msg": m, "pts": []}),
        };
        out.put(o);
    }
    out.finish();
}

/// function catalogue for finite differences: polynomial (complex coefficients, ascending) or
/// transcendental a*sin(w x + p) / a*exp(c x) / a*cos(w x + p) (+ i * the same with other parameters when complex)
fn fd_fn(case: &Value) -> Box<dyn Fn(f64) -> C64> {
    match case["f"]["k"].as_str().unwrap() {
        "poly" => {
            let c = jcv(&case["f"]["c"]);
            Box::new(move |x: f64| {
                let mut acc = C64::new(0.0, 0.0);
                for v in c.iter().rev() {
                    acc = acc * x + *v;
                }
                acc
            })
        }
        "sin" => {
            let p = jfv(&case["f"]["p"]);
            Box::new(move |x: f64| C64::new(p[0] * (p[1] * x + p[2]).sin(), 0.0))
        }
        "exp" => {
            let p = jfv(&case["f"]["p"]);
            Box::new(move |x: f64| C64::new(p[0] * (p[1] * x).exp(), 0.0))
        }
        "cis" => {
            let p = jfv(&case["f"]["p"]);
            Box::new(move |x: f64| C64::new(p[0] * (p[1] * x + p[2]).cos(), p[0] * (p[1] * x + p[2]).sin()))
        }
        k => panic!("unknown fd function {k}"),
    }
}

pub fn run_fd(args: &[String]) {
    let cases = read_ndjson(&args[0]);
    let mut out = Out::create(&args[1]);
    for case in cases {
        let cx = case["cx"].as_bool().unwrap();
        let x = jf(&case["x"]);
        let h = jf(&case["h"]);
        let c2 = case.clone();
        let r = guarded(move || {
            let f = fd_fn(&c2);
            if cx {
                (derivative::<C64>(|t| f(t), x, h), second_derivative::<C64>(|t| f(t), x, h))
            } else {
                (
                    C64::new(derivative::<f64>(|t| f(t).re, x, h), 0.0),
                    C64::new(second_derivative::<f64>(|t| f(t).re, x, h), 0.0),
                )
            }
        });
        let mut o = case.clone();
        match r {
            Ok((d1, d2)) => {
                o["st"] = json!("ok");
                o["d1"] = cj(d1);
                o["d2"] = cj(d2);
            }
            Err(_) => {
                o["st"] = json!("panic");
                o["d1"] = cj(C64::new(0.0, 0.0));
                o["d2"] = cj(C64::new(0.0, 0.0));
            }
        }
        out.put(o);
    }
    out.finish();
}
