//! IVP solvers: run cases through the real builders/iterators and record what is observable:
//! every item / error / None of the iterator, derivative-call counts, the cfg(bacon_verif)
//! step() snapshots, and (for builder cases) the outcome of every builder call.
//! Right-hand sides are evaluated here only because the solver needs *some* function to call;
//! the same families are written independently in TLA+ (IvpMethods.tla), which is the oracle.
use crate::util::*;
use bacon_sci::ivp::adams::{Adams3, Adams5};
use bacon_sci::ivp::bdf::{BDF2, BDF6};
use bacon_sci::ivp::rk::{RungeKutta23, RungeKutta45};
use bacon_sci::ivp::{Euler, IVPError, IVPSolver, UserError};
use bacon_sci::{BVector, Dimension};
use nalgebra::{Const, Dyn, U1};
use serde_json::{json, Value};
use std::cell::RefCell;
use std::fmt;
use std::rc::Rc;

#[derive(Debug)]
struct Injected(i64);
impl fmt::Display for Injected {
    fn fmt(&self, f: &mut fmt::Formatter) -> fmt::Result {
        write!(f, "injected failure {}", self.0)
    }
}
impl std::error::Error for Injected {}

#[derive(Debug)]
struct Budget;
impl fmt::Display for Budget {
    fn fmt(&self, f: &mut fmt::Formatter) -> fmt::Result {
        write!(f, "derivative call budget exhausted")
    }
}
impl std::error::Error for Budget {}

/// one block of a block-diagonal right-hand side
#[derive(Clone, Debug)]
enum Block {
    Zero,
    Lin(f64, f64),          // y' = lam*y + b
    Rot(f64, f64),          // (u,v)' = [[a,-w],[w,a]] (u,v)
    Tv(f64, f64),           // y' = (a + b*t) * y
    Logistic(f64, f64),     // y' = r*y*(1 - y/k)
    Recip(f64),             // y' = -c*y*y
    Forcing(f64, f64, f64), // y' = alpha*cos(omega*t + phi)
    Relax(f64, f64),        // y' = -k*(y - c)
    Poly(Vec<f64>),         // y' = c0 + c1*t + c2*t^2 + ...   (state independent)
    CLin(C64, C64),         // complex: y' = lam*y + c
}

#[derive(Clone, Debug)]
enum Rhs {
    Blocks(Vec<Block>),
    // f_i = sum_j A_ij y_j + beta_i y_i y_{i+1} + gamma_i t y_i + delta_i sin(omega_i t) + eps_i t^2
    //       + eta_i exp(kappa_i (t - tc_i))      (a forcing that switches on sharply; eta = 0 when absent)
    Generic { a: Vec<Vec<f64>>, beta: Vec<f64>, gamma: Vec<f64>, delta: Vec<f64>, omega: Vec<f64>, eps: Vec<f64>, eta: Vec<f64>, kappa: Vec<f64>, tc: Vec<f64> },
}

fn parse_rhs(v: &Value) -> Rhs {
    if v["fam"] == "generic" {
        return Rhs::Generic {
            a: v["a"].as_array().unwrap().iter().map(jfv).collect(),
            beta: jfv(&v["beta"]),
            gamma: jfv(&v["gamma"]),
            delta: jfv(&v["delta"]),
            omega: jfv(&v["omega"]),
            eps: jfv(&v["eps"]),
            eta: if v["eta"].is_array() { jfv(&v["eta"]) } else { vec![0.0; v["eps"].as_array().unwrap().len()] },
            kappa: if v["kappa"].is_array() { jfv(&v["kappa"]) } else { vec![0.0; v["eps"].as_array().unwrap().len()] },
            tc: if v["tc"].is_array() { jfv(&v["tc"]) } else { vec![0.0; v["eps"].as_array().unwrap().len()] },
        };
    }
    let mut blocks = vec![];
    for b in v["blocks"].as_array().unwrap() {
        let p = &b["p"];
        let g = |i: usize| jf(&p[i]);
        blocks.push(match b["k"].as_str().unwrap() {
            "zero" => Block::Zero,
            "lin" => Block::Lin(g(0), g(1)),
            "rot" => Block::Rot(g(0), g(1)),
            "tv" => Block::Tv(g(0), g(1)),
            "logistic" => Block::Logistic(g(0), g(1)),
            "recip" => Block::Recip(g(0)),
            "forcing" => Block::Forcing(g(0), g(1), g(2)),
            "relax" => Block::Relax(g(0), g(1)),
            "poly" => Block::Poly(jfv(p)),
            "clin" => Block::CLin(C64::new(g(0), g(1)), C64::new(g(2), g(3))),
            k => panic!("unknown block {k}"),
        });
    }
    Rhs::Blocks(blocks)
}

/// evaluate on complex numbers (real problems have zero imaginary parts throughout)
fn eval_rhs(rhs: &Rhs, t: f64, y: &[C64]) -> Vec<C64> {
    match rhs {
        Rhs::Blocks(bs) => {
            let mut out = Vec::with_capacity(y.len());
            let mut i = 0;
            for b in bs {
                match b {
                    Block::Zero => out.push(C64::new(0.0, 0.0)),
                    Block::Lin(lam, c) => out.push(y[i] * *lam + *c),
                    Block::Rot(a, w) => {
                        out.push(y[i] * *a - y[i + 1] * *w);
                        out.push(y[i] * *w + y[i + 1] * *a);
                        i += 1;
                    }
                    Block::Tv(a, b) => out.push(y[i] * (*a + *b * t)),
                    Block::Logistic(r, k) => out.push(y[i] * *r * (C64::new(1.0, 0.0) - y[i] / *k)),
                    Block::Recip(c) => out.push(-(y[i] * y[i]) * *c),
                    Block::Forcing(al, om, ph) => out.push(C64::new(al * (om * t + ph).cos(), 0.0)),
                    Block::Relax(k, c) => out.push(-(y[i] - *c) * *k),
                    Block::Poly(cs) => {
                        let mut acc = 0.0;
                        for c in cs.iter().rev() {
                            acc = acc * t + c;
                        }
                        out.push(C64::new(acc, 0.0));
                    }
                    Block::CLin(lam, c) => out.push(*lam * y[i] + *c),
                }
                i += 1;
            }
            out
        }
        Rhs::Generic { a, beta, gamma, delta, omega, eps, eta, kappa, tc } => {
            let d = y.len();
            (0..d)
                .map(|i| {
                    let mut acc = C64::new(0.0, 0.0);
                    for j in 0..d {
                        acc += y[j] * a[i][j];
                    }
                    acc += y[i] * y[(i + 1) % d] * beta[i];
                    acc += y[i] * (gamma[i] * t);
                    acc += C64::new(delta[i] * (omega[i] * t).sin() + eps[i] * t * t, 0.0);
                    if eta[i] != 0.0 {
                        acc += C64::new(eta[i] * (kappa[i] * (t - tc[i])).exp(), 0.0);
                    }
                    acc
                })
                .collect()
        }
    }
}

struct Shared {
    rhs: Rhs,
    calls: i64,
    fail_at: i64,
    budget: i64,
    log_evals: bool,
    // step() snapshots and derivative-evaluation times in the order they happened (log_evals only)
    trace: Vec<Value>,
    id: i64,
}

fn snap_event(id: i64, s: &bacon_sci::verif_hooks::Snapshot) -> Value {
    json!({"ev": "snap", "c": id, "time": fj(s.time), "dt": fj(s.dt), "ym": s.yield_memory,
        "vlen": s.values_len, "vfirst": fj(s.values_first), "vlast": fj(s.values_last), "dlen": s.derivs_len, "order": s.order})
}

type Item = Result<(f64, Vec<C64>), IVPError>;
type BoxIter = Box<dyn Iterator<Item = Item>>;

fn deriv_impl<N: Scalar, D: Dimension>(sh: &Rc<RefCell<Shared>>, dim: D, t: f64, y: &[N]) -> Result<BVector<N, D>, UserError>
where
    nalgebra::DefaultAllocator: nalgebra::allocator::Allocator<N, D>,
{
    let mut s = sh.borrow_mut();
    s.calls += 1;
    if s.fail_at > 0 && s.calls == s.fail_at {
        return Err(Box::new(Injected(s.fail_at)));
    }
    if s.calls > s.budget {
        return Err(Box::new(Budget));
    }
    let yc: Vec<C64> = y.iter().map(|v| v.to_c()).collect();
    let f = eval_rhs(&s.rhs, t, &yc);
    if s.log_evals {
        // the snapshots taken so far come first: an evaluation belongs to the latest step() call
        for sn in bacon_sci::verif_hooks::drain() {
            let e = snap_event(s.id, &sn);
            s.trace.push(e);
        }
        let id = s.id;
        s.trace.push(json!({"ev": "eval", "c": id, "t": fj(t)}));
    }
    let fv: Vec<N> = f.iter().map(|c| N::of_c(*c)).collect();
    Ok(BVector::from_column_slice_generic(dim, U1, &fv))
}

struct Cfg {
    t0: f64,
    t1: f64,
    dtmin: f64,
    dtmax: f64,
    tol: f64,
    y0: Vec<C64>,
    collect: bool,
    // call with_minimum_dt before with_maximum_dt (either order must give the same solver)
    min_first: bool,
}

/// what the builder reported before an iterator existed
enum Built {
    Iter(BoxIter),
    Err(String),
}

fn errname(e: &IVPError) -> String {
    match e {
        IVPError::UserError(_) => "UserError".to_string(),
        other => format!("{:?}", other),
    }
}

macro_rules! build_adaptive {
    ($ty:ident, $n:ty, $dimv:expr, $dyn:expr, $d:expr, $cfg:expr, $sh:expr) => {{
        let sh = $sh.clone();
        let dimv = $dimv;
        let y0: Vec<$n> = $cfg.y0.iter().map(|c| <$n as Scalar>::of_c(*c)).collect();
        let b = if $dyn { $ty::new_dyn($d) } else { $ty::new() };
        let b = if $cfg.min_first {
            b.and_then(|b| b.with_minimum_dt($cfg.dtmin)).and_then(|b| b.with_maximum_dt($cfg.dtmax))
        } else {
            b.and_then(|b| b.with_maximum_dt($cfg.dtmax)).and_then(|b| b.with_minimum_dt($cfg.dtmin))
        };
        let r = b
            .and_then(|b| b.with_tolerance($cfg.tol))
            .and_then(|b| b.with_initial_time($cfg.t0))
            .and_then(|b| b.with_ending_time($cfg.t1))
            .and_then(|b| b.with_initial_conditions_slice(&y0))
            .map(|b| b.with_derivative(move |t: f64, y: &[$n], _: &mut ()| deriv_impl::<$n, _>(&sh, dimv, t, y)))
            .and_then(|b| b.solve(()));
        match r {
            Ok(it) => {
                if $cfg.collect {
                    // exercise IVPIterator::collect_vec: either the whole path or the error
                    let items: Vec<Item> = match it.collect_vec() {
                        Ok(path) => path
                            .into_iter()
                            .map(|(t, y)| Ok((t, y.iter().map(|v| v.to_c()).collect::<Vec<C64>>())))
                            .collect(),
                        Err(e) => vec![Err(e)],
                    };
                    Built::Iter(Box::new(items.into_iter()))
                } else {
                    Built::Iter(Box::new(it.map(|item| {
                        item.map(|(t, y)| (t, y.iter().map(|v| v.to_c()).collect::<Vec<C64>>()))
                    })))
                }
            }
            Err(e) => Built::Err(errname(&e)),
        }
    }};
}

macro_rules! build_euler {
    ($n:ty, $dimv:expr, $dyn:expr, $d:expr, $cfg:expr, $sh:expr) => {{
        let sh = $sh.clone();
        let dimv = $dimv;
        let y0: Vec<$n> = $cfg.y0.iter().map(|c| <$n as Scalar>::of_c(*c)).collect();
        let b = if $dyn { Euler::new_dyn($d) } else { Euler::new() };
        let r = b
            .and_then(|b| b.with_maximum_dt($cfg.dtmax))
            .and_then(|b| b.with_initial_time($cfg.t0))
            .and_then(|b| b.with_ending_time($cfg.t1))
            .and_then(|b| b.with_initial_conditions_slice(&y0))
            .map(|b| b.with_derivative(move |t: f64, y: &[$n], _: &mut ()| deriv_impl::<$n, _>(&sh, dimv, t, y)))
            .and_then(|b| b.solve(()));
        match r {
            Ok(it) => {
                if $cfg.collect {
                    // exercise IVPIterator::collect_vec: either the whole path or the error
                    let items: Vec<Item> = match it.collect_vec() {
                        Ok(path) => path
                            .into_iter()
                            .map(|(t, y)| Ok((t, y.iter().map(|v| v.to_c()).collect::<Vec<C64>>())))
                            .collect(),
                        Err(e) => vec![Err(e)],
                    };
                    Built::Iter(Box::new(items.into_iter()))
                } else {
                    Built::Iter(Box::new(it.map(|item| {
                        item.map(|(t, y)| (t, y.iter().map(|v| v.to_c()).collect::<Vec<C64>>()))
                    })))
                }
            }
            Err(e) => Built::Err(errname(&e)),
        }
    }};
}

macro_rules! by_solver {
    ($solver:expr, $n:ty, $dimv:expr, $dyn:expr, $d:expr, $cfg:expr, $sh:expr) => {
        match $solver {
            "euler" => build_euler!($n, $dimv, $dyn, $d, $cfg, $sh),
            "rk45" => build_adaptive!(RungeKutta45, $n, $dimv, $dyn, $d, $cfg, $sh),
            "rk23" => build_adaptive!(RungeKutta23, $n, $dimv, $dyn, $d, $cfg, $sh),
            "adams5" => build_adaptive!(Adams5, $n, $dimv, $dyn, $d, $cfg, $sh),
            "adams3" => build_adaptive!(Adams3, $n, $dimv, $dyn, $d, $cfg, $sh),
            "bdf6" => build_adaptive!(BDF6, $n, $dimv, $dyn, $d, $cfg, $sh),
            "bdf2" => build_adaptive!(BDF2, $n, $dimv, $dyn, $d, $cfg, $sh),
            s => panic!("unknown solver {s}"),
        }
    };
}

fn build(solver: &str, cx: bool, dynamic: bool, d: usize, cfg: &Cfg, sh: &Rc<RefCell<Shared>>) -> Built {
    match (cx, dynamic, d) {
        (false, true, _) => by_solver!(solver, f64, Dyn(d), true, d, cfg, sh),
        (true, true, _) => by_solver!(solver, C64, Dyn(d), true, d, cfg, sh),
        (false, false, 1) => by_solver!(solver, f64, Const::<1>, false, d, cfg, sh),
        (false, false, 2) => by_solver!(solver, f64, Const::<2>, false, d, cfg, sh),
        (false, false, 3) => by_solver!(solver, f64, Const::<3>, false, d, cfg, sh),
        (false, false, 4) => by_solver!(solver, f64, Const::<4>, false, d, cfg, sh),
        (true, false, 1) => by_solver!(solver, C64, Const::<1>, false, d, cfg, sh),
        (true, false, 2) => by_solver!(solver, C64, Const::<2>, false, d, cfg, sh),
        _ => panic!("unsupported dimension/field combination"),
    }
}

/// Run path cases. Case fields: id, solver, dim, dyn, cx, t0, t1, dtmin, dtmax, tol, y0, rhs,
/// fail_at (0 = never), budget, extra_next, max_items, snaps (bool), evals (bool)
pub fn run(args: &[String]) {
    let cases = read_ndjson(&args[0]);
    let mut out = Out::create(&args[1]);
    for case in cases {
        run_case(&case, &mut out);
    }
    out.finish();
}

fn run_case(case: &Value, out: &mut Out) {
    let id = ji(&case["id"]);
    let solver = case["solver"].as_str().unwrap().to_string();
    let d = ji(&case["dim"]) as usize;
    let dynamic = case["dyn"].as_bool().unwrap_or(false);
    let cx = case["cx"].as_bool().unwrap_or(false);
    let cfg = Cfg {
        t0: jf(&case["t0"]),
        t1: jf(&case["t1"]),
        dtmin: jf(&case["dtmin"]),
        dtmax: jf(&case["dtmax"]),
        tol: jf(&case["tol"]),
        y0: jcv(&case["y0"]),
        collect: case["collect"].as_bool().unwrap_or(false),
        min_first: case["min_first"].as_bool().unwrap_or(false),
    };
    let want_snaps = case["snaps"].as_bool().unwrap_or(false);
    let extra_next = case["extra_next"].as_i64().unwrap_or(2);
    let max_items = case["max_items"].as_i64().unwrap_or(100000);
    let sh = Rc::new(RefCell::new(Shared {
        rhs: parse_rhs(&case["rhs"]),
        calls: 0,
        fail_at: case["fail_at"].as_i64().unwrap_or(0),
        budget: case["budget"].as_i64().unwrap_or(5_000_000),
        log_evals: case["evals"].as_bool().unwrap_or(false),
        trace: vec![],
        id,
    }));
    let mut reset = case.clone();
    reset["ev"] = json!("reset");
    reset["c"] = json!(id);
    out.put(reset);

    bacon_sci::verif_hooks::record(want_snaps);
    let sh2 = sh.clone();
    let outcome = std::panic::catch_unwind(std::panic::AssertUnwindSafe(|| {
        let mut events: Vec<Value> = vec![];
        let built = build(&solver, cx, dynamic, d, &cfg, &sh2);
        let mut it = match built {
            Built::Err(kind) => {
                events.push(json!({"ev": "builderr", "c": id, "kind": kind}));
                return events;
            }
            Built::Iter(it) => it,
        };
        let mut nitems: i64 = 0;
        let mut nones = 0;
        loop {
            let item = it.next();
            {
                let mut s = sh2.borrow_mut();
                events.append(&mut s.trace);
            }
            for s in bacon_sci::verif_hooks::drain() {
                events.push(snap_event(id, &s));
            }
            let calls = sh2.borrow().calls;
            match item {
                Some(Ok((t, y))) => {
                    nitems += 1;
                    events.push(json!({"ev": "item", "c": id, "t": fj(t), "y": cvj(&y), "calls": calls}));
                    if nitems >= max_items {
                        events.push(json!({"ev": "trunc", "c": id, "calls": calls}));
                        break;
                    }
                }
                Some(Err(e)) => {
                    let (kind, inj) = match &e {
                        IVPError::UserError(b) => {
                            if let Some(i) = b.downcast_ref::<Injected>() {
                                ("UserError".to_string(), i.0)
                            } else if b.downcast_ref::<Budget>().is_some() {
                                ("Budget".to_string(), 0)
                            } else {
                                ("UserError".to_string(), -1)
                            }
                        }
                        other => (format!("{:?}", other), 0),
                    };
                    events.push(json!({"ev": "err", "c": id, "kind": kind, "inj": inj, "calls": calls}));
                }
                None => {
                    nones += 1;
                    events.push(json!({"ev": "none", "c": id, "calls": calls}));
                    if nones > extra_next {
                        break;
                    }
                }
            }
        }
        events
    }));
    bacon_sci::verif_hooks::record(false);
    match outcome {
        Ok(events) => {
            for e in events {
                out.put(e);
            }
        }
        Err(_) => out.put(json!({"ev": "panic", "c": id})),
    }
    let calls = sh.borrow().calls;
    out.put(json!({"ev": "end", "c": id, "calls": calls}));
}

/* ------------------------------------------------------------------------------------------
 * Builder call sequences (C06): each case is a constructor choice plus a list of calls with
 * concrete arguments chosen by the TLA+ model; after every call we record Ok / the error
 * variant and the stored parameters (through the cfg-guarded accessor).
 * ---------------------------------------------------------------------------------------- */
fn params_json(p: [Option<f64>; 5]) -> Value {
    Value::Array(p.iter().map(|o| match o { Some(x) => json!({"set": true, "v": fj(*x)}), None => json!({"set": false, "v": fj(0.0)}) }).collect())
}

macro_rules! builder_seq {
    ($ty:ident, $n:ty, $dimv:expr, $ctor:expr, $size:expr, $calls:expr, $events:expr, $id:expr) => {{
        let dimv = $dimv;
        let b = if $ctor == "new_dyn" { $ty::new_dyn($size) } else { $ty::new() };
        let mut cur = match b {
            Ok(b) => {
                $events.push(json!({"ev": "bcall", "c": $id, "call": $ctor, "ok": true, "kind": "", "params": params_json(b.verif_params())}));
                Some(b)
            }
            Err(e) => {
                $events.push(json!({"ev": "bcall", "c": $id, "call": $ctor, "ok": false, "kind": errname(&e), "params": params_json([None; 5])}));
                None
            }
        };
        for call in $calls {
            let b = match cur.take() {
                Some(b) => b,
                None => break,
            };
            let name = call["call"].as_str().unwrap();
            if name == "solve" {
                match b.solve(()) {
                    Ok(mut it) => {
                        // a built solver must be usable: take one item
                        let first = it.next();
                        let usable = matches!(first, Some(Ok(_)));
                        $events.push(json!({"ev": "bcall", "c": $id, "call": "solve", "ok": true, "kind": "", "usable": usable, "params": params_json([None; 5])}));
                    }
                    Err(e) => $events.push(json!({"ev": "bcall", "c": $id, "call": "solve", "ok": false, "kind": errname(&e), "params": params_json([None; 5])})),
                }
                break;
            }
            let r = match name {
                "tol" => b.with_tolerance(jf(&call["v"])),
                "max" => b.with_maximum_dt(jf(&call["v"])),
                "min" => b.with_minimum_dt(jf(&call["v"])),
                "t0" => b.with_initial_time(jf(&call["v"])),
                "t1" => b.with_ending_time(jf(&call["v"])),
                "ic" => {
                    let n = nalgebra::Dim::value(&dimv);
                    let y0: Vec<$n> = (0..n).map(|_| <$n as Scalar>::of_c(C64::new(1.0, 0.0))).collect();
                    b.with_initial_conditions_slice(&y0)
                }
                "f" => Ok(b.with_derivative(move |_t: f64, y: &[$n], _: &mut ()| {
                    Ok(BVector::from_column_slice_generic(dimv, U1, y))
                })),
                other => panic!("unknown builder call {other}"),
            };
            match r {
                Ok(b) => {
                    $events.push(json!({"ev": "bcall", "c": $id, "call": name, "ok": true, "kind": "", "params": params_json(b.verif_params())}));
                    cur = Some(b);
                }
                Err(e) => {
                    $events.push(json!({"ev": "bcall", "c": $id, "call": name, "ok": false, "kind": errname(&e), "params": params_json([None; 5])}));
                }
            }
        }
    }};
}

macro_rules! builder_by_solver {
    ($solver:expr, $n:ty, $dimv:expr, $ctor:expr, $size:expr, $calls:expr, $events:expr, $id:expr) => {
        match $solver {
            "euler" => builder_seq!(Euler, $n, $dimv, $ctor, $size, $calls, $events, $id),
            "rk45" => builder_seq!(RungeKutta45, $n, $dimv, $ctor, $size, $calls, $events, $id),
            "rk23" => builder_seq!(RungeKutta23, $n, $dimv, $ctor, $size, $calls, $events, $id),
            "adams5" => builder_seq!(Adams5, $n, $dimv, $ctor, $size, $calls, $events, $id),
            "adams3" => builder_seq!(Adams3, $n, $dimv, $ctor, $size, $calls, $events, $id),
            "bdf6" => builder_seq!(BDF6, $n, $dimv, $ctor, $size, $calls, $events, $id),
            "bdf2" => builder_seq!(BDF2, $n, $dimv, $ctor, $size, $calls, $events, $id),
            s => panic!("unknown solver {s}"),
        }
    };
}

/// Case: id, solver, static (bool: type-level dimension is Const<2> vs Dyn), ctor ("new"/"new_dyn"), size, calls: [{call, v}]
pub fn run_builders(args: &[String]) {
    let cases = read_ndjson(&args[0]);
    let mut out = Out::create(&args[1]);
    for case in cases {
        let id = ji(&case["id"]);
        let solver = case["solver"].as_str().unwrap().to_string();
        let is_static = case["static"].as_bool().unwrap();
        let ctor = case["ctor"].as_str().unwrap().to_string();
        let size = ji(&case["size"]) as usize;
        let calls: Vec<Value> = case["calls"].as_array().unwrap().clone();
        let mut reset = case.clone();
        reset["ev"] = json!("reset");
        reset["c"] = json!(id);
        out.put(reset);
        let r = std::panic::catch_unwind(std::panic::AssertUnwindSafe(|| {
            let mut events: Vec<Value> = vec![];
            if is_static {
                builder_by_solver!(solver.as_str(), f64, Const::<2>, ctor.as_str(), size, calls.iter(), events, id);
            } else {
                builder_by_solver!(solver.as_str(), f64, Dyn(size), ctor.as_str(), size, calls.iter(), events, id);
            }
            events
        }));
        match r {
            Ok(events) => {
                for e in events {
                    out.put(e);
                }
            }
            Err(_) => out.put(json!({"ev": "panic", "c": id})),
        }
        out.put(json!({"ev": "end", "c": id, "calls": 0}));
    }
    out.finish();
}
