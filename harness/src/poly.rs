//! Polynomial: arithmetic through every operator form (C11), dft/idft (C11), division (C12),
//! coefficient-editing histories and evaluation/calculus (C13). Observations only.
use crate::util::*;
use bacon_sci::polynomial::Polynomial;
use serde_json::{json, Value};

fn mk<N: Scalar>(asc: &[C64], tol: f64) -> Polynomial<N> {
    let desc: Vec<N> = asc.iter().rev().map(|c| N::of_c(*c)).collect();
    let mut p = Polynomial::from_slice(&desc);
    p.set_tolerance(tol).unwrap();
    p
}

fn asc<N: Scalar>(p: &Polynomial<N>) -> Vec<C64> {
    let mut c: Vec<C64> = p.get_coefficients().iter().map(|x| x.to_c()).collect();
    c.reverse();
    c
}

fn res<N: Scalar>(op: &str, form: &str, p: &Polynomial<N>) -> Value {
    json!({"op": op, "form": form, "res": cvj(&asc(p)), "order": p.order()})
}

fn ops_case<N: Scalar>(case: &Value) -> Vec<Value> {
    let a: Polynomial<N> = mk(&jcv(&case["a"]), jf(&case["ta"]));
    let b: Polynomial<N> = mk(&jcv(&case["b"]), jf(&case["tb"]));
    let s: N = N::of_c(jc(&case["s"]));
    let mut out = vec![];
    // binary, four ownership combinations
    out.push(res("add", "vv", &(a.clone() + b.clone())));
    out.push(res("add", "vr", &(a.clone() + &b)));
    out.push(res("add", "rv", &(&a + b.clone())));
    out.push(res("add", "rr", &(&a + &b)));
    out.push(res("sub", "vv", &(a.clone() - b.clone())));
    out.push(res("sub", "vr", &(a.clone() - &b)));
    out.push(res("sub", "rv", &(&a - b.clone())));
    out.push(res("sub", "rr", &(&a - &b)));
    out.push(res("mul", "vv", &(a.clone() * b.clone())));
    out.push(res("mul", "vr", &(a.clone() * &b)));
    out.push(res("mul", "rv", &(&a * b.clone())));
    out.push(res("mul", "rr", &(&a * &b)));
    out.push(res("mulrev", "rr", &(&b * &a)));
    // assigning forms
    let mut t = a.clone();
    t += b.clone();
    out.push(res("add", "av", &t));
    let mut t = a.clone();
    t += &b;
    out.push(res("add", "ar", &t));
    let mut t = a.clone();
    t -= b.clone();
    out.push(res("sub", "av", &t));
    let mut t = a.clone();
    t -= &b;
    out.push(res("sub", "ar", &t));
    let mut t = a.clone();
    t *= b.clone();
    out.push(res("mul", "av", &t));
    let mut t = a.clone();
    t *= &b;
    out.push(res("mul", "ar", &t));
    // negation
    out.push(res("neg", "v", &(-a.clone())));
    out.push(res("neg", "r", &(-&a)));
    // scalar forms
    out.push(res("adds", "v", &(a.clone() + s)));
    out.push(res("adds", "r", &(&a + s)));
    let mut t = a.clone();
    t += s;
    out.push(res("adds", "a", &t));
    out.push(res("subs", "v", &(a.clone() - s)));
    out.push(res("subs", "r", &(&a - s)));
    let mut t = a.clone();
    t -= s;
    out.push(res("subs", "a", &t));
    out.push(res("muls", "v", &(a.clone() * s)));
    out.push(res("muls", "r", &(&a * s)));
    let mut t = a.clone();
    t *= s;
    out.push(res("muls", "a", &t));
    if s.to_c().norm() > 0.0 {
        out.push(res("divs", "v", &(a.clone() / s)));
        out.push(res("divs", "r", &(&a / s)));
        let mut t = a.clone();
        t /= s;
        out.push(res("divs", "a", &t));
    }
    out
}

fn evals_case<N: Scalar>(case: &Value) -> Value {
    // values of a, b and a*b at the sample points (pointwise agreement)
    let a: Polynomial<N> = mk(&jcv(&case["a"]), jf(&case["ta"]));
    let b: Polynomial<N> = mk(&jcv(&case["b"]), jf(&case["tb"]));
    let ab = &a * &b;
    let xs = jcv(&case["xs"]);
    let mut rows = vec![];
    for x in xs {
        let xn = N::of_c(x);
        rows.push(json!({"x": cj(xn.to_c()), "a": cj(a.evaluate(xn).to_c()), "b": cj(b.evaluate(xn).to_c()), "ab": cj(ab.evaluate(xn).to_c())}));
    }
    Value::Array(rows)
}

/// group results that are bit-identical (same op, same coefficients) - pure compression of the
/// observation, nothing is compared against an expectation here
fn group(results: Vec<Value>) -> Vec<Value> {
    let mut out: Vec<Value> = vec![];
    for r in results {
        let mut found = false;
        for g in out.iter_mut() {
            if g["op"] == r["op"] && g["res"] == r["res"] && g["order"] == r["order"] {
                let f = format!("{}+{}", g["form"].as_str().unwrap(), r["form"].as_str().unwrap());
                g["form"] = json!(f);
                found = true;
                break;
            }
        }
        if !found {
            out.push(r);
        }
    }
    out
}

pub fn run_ops(args: &[String]) {
    let cases = read_ndjson(&args[0]);
    let mut out = Out::create(&args[1]);
    for case in cases {
        let cx = case["cx"].as_bool().unwrap();
        let c2 = case.clone();
        let r = guarded(move || if cx { (ops_case::<C64>(&c2), evals_case::<C64>(&c2)) } else { (ops_case::<f64>(&c2), evals_case::<f64>(&c2)) });
        let mut o = case.clone();
        match r {
            Ok((results, evals)) => {
                o["st"] = json!("ok");
                o["results"] = Value::Array(group(results));
                o["evals"] = evals;
            }
            Err(m) => {
                o["st"] = json!("panic");
                o["msg"] = json!(m);
                o["results"] = json!([]);
                o["evals"] = json!([]);
            }
        }
        out.put(o);
    }
    out.finish();
}

fn dft_case<N: Scalar>(case: &Value) -> (Vec<C64>, Vec<C64>, usize) {
    let a: Polynomial<N> = mk(&jcv(&case["a"]), jf(&case["ta"]));
    let size = ji(&case["size"]) as usize;
    let pts = a.dft(size);
    let back: Polynomial<N> = Polynomial::<N>::idft(&pts, jf(&case["ta"]));
    (pts, asc(&back), back.order())
}

pub fn run_dft(args: &[String]) {
    let cases = read_ndjson(&args[0]);
    let mut out = Out::create(&args[1]);
    for case in cases {
        let cx = case["cx"].as_bool().unwrap();
        let c2 = case.clone();
        let r = guarded(move || if cx { dft_case::<C64>(&c2) } else { dft_case::<f64>(&c2) });
        let mut o = case.clone();
        match r {
            Ok((pts, back, order)) => {
                o["st"] = json!("ok");
                o["pts"] = cvj(&pts);
                o["back"] = cvj(&back);
                o["order"] = json!(order);
            }
            Err(m) => {
                o["st"] = json!("panic");
                o["msg"] = json!(m);
                o["pts"] = json!([]);
                o["back"] = json!([]);
                o["order"] = json!(0);
            }
        }
        out.put(o);
    }
    out.finish();
}

fn div_case<N: Scalar>(case: &Value) -> Result<(Vec<C64>, Vec<C64>), String> {
    let a: Polynomial<N> = mk(&jcv(&case["a"]), jf(&case["ta"]));
    let d: Polynomial<N> = mk(&jcv(&case["d"]), jf(&case["ta"]));
    a.divide(&d).map(|(q, r)| (asc(&q), asc(&r)))
}

pub fn run_div(args: &[String]) {
    let cases = read_ndjson(&args[0]);
    let mut out = Out::create(&args[1]);
    // a division that does not come back within the deadline is recorded as "hang"; its thread cannot be stopped, so
    // after three of them the remaining cases of this process that can enter the loop are recorded as "skipped" instead
    // of being run
    let mut hangs = 0;
    for case in cases {
        let cx = case["cx"].as_bool().unwrap();
        let c2 = case.clone();
        let mut o = case.clone();
        o["q"] = json!([]);
        o["r"] = json!([]);
        if hangs >= 3 && case["d"].as_array().map_or(0, |d| d.len()) >= 2 {   // (a constant divisor never enters the loop)
            o["st"] = json!("skipped");
            out.put(o);
            continue;
        }
        let r = with_deadline(5, move || guarded(move || if cx { div_case::<C64>(&c2) } else { div_case::<f64>(&c2) }));
        match r {
            Some(Ok(Ok((q, r)))) => {
                o["st"] = json!("ok");
                o["q"] = cvj(&q);
                o["r"] = cvj(&r);
            }
            Some(Ok(Err(_))) => o["st"] = json!("err"),
            Some(Err(m)) => {
                o["st"] = json!("panic");
                o["msg"] = json!(m);
            }
            None => {
                hangs += 1;
                o["st"] = json!("hang");
            }
        }
        out.put(o);
    }
    out.finish();
}

fn snapshot<N: Scalar>(p: &Polynomial<N>, probe: usize) -> Value {
    let coefs = asc(p);
    let probes: Vec<C64> = (0..probe).map(|j| p.get_coefficient(j).to_c()).collect();
    json!({"coefs": cvj(&coefs), "order": p.order(), "probes": cvj(&probes)})
}

fn hist_case<N: Scalar>(case: &Value) -> Vec<Value> {
    let tol = jf(&case["ta"]);
    let mut p: Polynomial<N> = mk(&jcv(&case["init"]), tol);
    let probe = ji(&case["probe"]) as usize;
    let mut steps = vec![snapshot(&p, probe)];
    for op in case["ops"].as_array().unwrap() {
        let name = op["op"].as_str().unwrap();
        let r = std::panic::catch_unwind(std::panic::AssertUnwindSafe(|| match name {
            "set" => p.set_coefficient(ji(&op["k"]) as u32, N::of_c(jc(&op["c"]))),
            "purge" => p.purge_coefficient(ji(&op["k"]) as usize),
            "purge_leading" => p.purge_leading(),
            "add" => {
                let q: Polynomial<N> = mk(&jcv(&op["p"]), tol);
                p += &q;
            }
            "muls" => p *= N::of_c(jc(&op["c"])),
            other => panic!("unknown op {other}"),
        }));
        match r {
            Ok(()) => {
                let mut s = snapshot(&p, probe);
                s["st"] = json!("ok");
                steps.push(s);
            }
            Err(_) => {
                steps.push(json!({"st": "panic", "coefs": [], "order": 0, "probes": []}));
                break;
            }
        }
    }
    steps
}

pub fn run_hist(args: &[String]) {
    let cases = read_ndjson(&args[0]);
    let mut out = Out::create(&args[1]);
    for case in cases {
        let cx = case["cx"].as_bool().unwrap();
        let steps = if cx { hist_case::<C64>(&case) } else { hist_case::<f64>(&case) };
        let mut o = case.clone();
        o["steps"] = Value::Array(steps);
        out.put(o);
    }
    out.finish();
}

fn fn_case<N: Scalar>(case: &Value) -> Value {
    let a_asc = jcv(&case["a"]);
    let a: Polynomial<N> = mk(&a_asc, jf(&case["ta"]));
    let xs = jcv(&case["xs"]);
    let deriv = a.derivative();
    let cst = N::of_c(jc(&case["cst"]));
    let anti = a.antiderivative(cst);
    let mut pts = vec![];
    for x in &xs {
        let xn = N::of_c(*x);
        let (v, d) = a.evaluate_derivative(xn);
        pts.push(json!({"x": cj(xn.to_c()), "val": cj(a.evaluate(xn).to_c()), "val2": cj(v.to_c()), "der": cj(d.to_c()),
            "der2": cj(deriv.evaluate(xn).to_c()), "anti": cj(anti.evaluate(xn).to_c())}));
    }
    let lo = N::of_c(jc(&case["lo"]));
    let mid = N::of_c(jc(&case["mid"]));
    let hi = N::of_c(jc(&case["hi"]));
    json!({
        "pts": pts,
        "deriv": cvj(&asc(&deriv)),
        "anti": cvj(&asc(&anti)),
        "antideriv": cvj(&asc(&anti.derivative())),
        "int_lo_hi": cj(a.integrate(lo, hi).to_c()),
        "int_lo_mid": cj(a.integrate(lo, mid).to_c()),
        "int_mid_hi": cj(a.integrate(mid, hi).to_c()),
        "anti_lo": cj(a.antiderivative(N::of_c(C64::new(0.0, 0.0))).evaluate(lo).to_c()),
        "anti_hi": cj(a.antiderivative(N::of_c(C64::new(0.0, 0.0))).evaluate(hi).to_c()),
        "roundtrip": cvj(&asc(&a)),
        "order": a.order(),
        "misc": misc::<N>(&a, &a_asc, jf(&case["ta"])),
    })
}

/// API surface beyond the listed properties: conversions, zero tests, tolerance validation, constructors
fn misc<N: Scalar>(a: &Polynomial<N>, a_asc: &[C64], tol: f64) -> Value {
    let mc = a.make_complex();
    let mut mc_asc: Vec<C64> = mc.get_coefficients().to_vec();
    mc_asc.reverse();
    let lead = N::of_c(*a_asc.last().unwrap());
    let from_scalar: Polynomial<N> = Polynomial::from(lead);
    let zero = Polynomial::<N>::new();
    let cap = Polynomial::<N>::with_capacity(7);
    let dflt: Polynomial<N> = Default::default();
    let mut t = a.clone();
    let set_neg = t.set_tolerance(-1.0).is_err();
    let set_pos = t.set_tolerance(tol * 2.0).is_ok();
    let desc: Vec<N> = a_asc.iter().rev().map(|c| N::of_c(*c)).collect();
    let m = if desc.len() == 2 { bacon_sci::polynomial![desc[0], desc[1]] } else { Polynomial::from_slice(&desc) };
    let macro_same = asc(&m) == asc(a);
    json!({
        "make_complex": cvj(&mc_asc),
        "mc_tol": fj(mc.get_tolerance()),
        "is_zero": num_traits::Zero::is_zero(a),
        "from_scalar": cvj(&asc(&from_scalar)),
        "new_is_zero": num_traits::Zero::is_zero(&zero) && zero.order() == 0,
        "cap_is_zero": num_traits::Zero::is_zero(&cap) && cap.order() == 0,
        "default_is_zero": num_traits::Zero::is_zero(&dflt) && dflt.order() == 0,
        "with_tol_neg_err": Polynomial::<N>::with_tolerance(-1e-3).is_err(),
        "with_tol_pos_ok": Polynomial::<N>::with_tolerance(1e-3).map(|p| p.get_tolerance() == 1e-3 && p.order() == 0).unwrap_or(false),
        "set_tol_neg_err": set_neg,
        "set_tol_pos_ok": set_pos && t.get_tolerance() == tol * 2.0,
        "get_tol": fj(a.get_tolerance()),
        "macro_same": macro_same,
    })
}

pub fn run_fn(args: &[String]) {
    let cases = read_ndjson(&args[0]);
    let mut out = Out::create(&args[1]);
    for case in cases {
        let cx = case["cx"].as_bool().unwrap();
        let c2 = case.clone();
        let r = guarded(move || if cx { fn_case::<C64>(&c2) } else { fn_case::<f64>(&c2) });
        let mut o = case.clone();
        match r {
            Ok(v) => {
                o["st"] = json!("ok");
                o["obs"] = v;
            }
            Err(m) => {
                o["st"] = json!("panic");
                o["msg"] = json!(m);
            }
        }
        out.put(o);
    }
    out.finish();
}
