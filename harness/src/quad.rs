//! Quadrature: dump of the shipped rule tables (C10, compiled from the working tree's tables.rs) and runs of the
//! integrators with a recording integrand (C09).
use crate::util::*;
use bacon_sci::integrate;
use serde_json::{json, Value};
use std::cell::RefCell;

#[allow(dead_code, clippy::all)]
mod tables {
    include!("/repo/src/integrate/tables.rs");
}

pub fn run_tables(args: &[String]) {
    let mut out = Out::create(&args[0]);
    let gauss: [(&str, &[&[(f64, f64)]]); 5] = [
        ("legendre", tables::WEIGHTS_LEGENDRE),
        ("hermite", tables::WEIGHTS_HERMITE),
        ("laguerre", tables::WEIGHTS_LAGUERRE),
        ("chebyshev", tables::WEIGHTS_CHEBYSHEV),
        ("chebyshev_second", tables::WEIGHTS_CHEBYSHEV_SECOND),
    ];
    for (name, table) in gauss {
        for (k, row) in table.iter().enumerate() {
            let pairs: Vec<Value> = row.iter().map(|(x, w)| json!([fj(*x), fj(*w)])).collect();
            out.put(json!({"table": name, "row": k + 1, "rows": table.len(), "pairs": pairs}));
        }
    }
    for (k, row) in tables::WEIGHTS_DE.iter().enumerate() {
        // (weight, abscissa)
        let pairs: Vec<Value> = row.iter().map(|(w, x)| json!([fj(*x), fj(*w)])).collect();
        out.put(json!({"table": "tanhsinh", "row": k, "rows": tables::WEIGHTS_DE.len(), "pairs": pairs}));
    }
    out.finish();
}

/// integrand catalogue (closed-form integrals are written in the TLA+ module Quad)
#[derive(Clone)]
enum Fun {
    Poly(Vec<C64>),       // sum c_k x^k
    Exp(f64, f64),        // a * exp(c x)
    Sin(f64, f64, f64),   // a * sin(w x + p)
    Cis(f64, f64, f64),   // a * exp(i (w x + p))
    Mix(Box<Fun>, Box<Fun>), // re(f1(x)) + i re(f2(x)): real and imaginary parts of different difficulty
}

fn parse(v: &Value) -> Fun {
    match v["k"].as_str().unwrap() {
        "poly" => Fun::Poly(jcv(&v["c"])),
        "exp" => {
            let p = jfv(&v["p"]);
            Fun::Exp(p[0], p[1])
        }
        "sin" => {
            let p = jfv(&v["p"]);
            Fun::Sin(p[0], p[1], p[2])
        }
        "cis" => {
            let p = jfv(&v["p"]);
            Fun::Cis(p[0], p[1], p[2])
        }
        "mix" => Fun::Mix(Box::new(parse(&v["re"])), Box::new(parse(&v["im"]))),
        k => panic!("unknown integrand {k}"),
    }
}

fn eval(f: &Fun, x: f64) -> C64 {
    match f {
        Fun::Poly(c) => c.iter().rev().fold(C64::new(0.0, 0.0), |acc, v| acc * x + *v),
        Fun::Exp(a, c) => C64::new(a * (c * x).exp(), 0.0),
        Fun::Sin(a, w, p) => C64::new(a * (w * x + p).sin(), 0.0),
        Fun::Cis(a, w, p) => C64::new(a * (w * x + p).cos(), a * (w * x + p).sin()),
        Fun::Mix(re, im) => C64::new(eval(re, x).re, eval(im, x).re),
    }
}

pub fn run_quad(args: &[String]) {
    let cases = read_ndjson(&args[0]);
    let mut out = Out::create(&args[1]);
    for case in cases {
        let fun = parse(&case["f"]);
        let cx = case["cx"].as_bool().unwrap();
        let a = jf(&case["a"]);
        let b = jf(&case["b"]);
        let tol = jf(&case["tol"]);
        let n = ji(&case["n"]) as usize;
        let budget = ji(&case["budget"]) as usize;
        let keep = ji(&case["keep"]) as usize;
        let routine = case["routine"].as_str().unwrap().to_string();
        let log: RefCell<Vec<(f64, C64)>> = RefCell::new(vec![]);
        let count = RefCell::new(0usize);
        let r = std::panic::catch_unwind(std::panic::AssertUnwindSafe(|| -> Result<C64, String> {
            let fc = |x: f64| -> C64 {
                let y = eval(&fun, x);
                *count.borrow_mut() += 1;
                if *count.borrow() > budget {
                    panic!("budget");
                }
                let mut l = log.borrow_mut();
                if l.len() < keep {
                    l.push((x, y));
                }
                y
            };
            if cx {
                match routine.as_str() {
                    "tanhsinh" => integrate::integrate::<C64, _>(a, b, fc, tol),
                    "legendre" => integrate::integrate_gaussian::<C64, _>(a, b, fc, tol),
                    "simpson" => integrate::integrate_simpson::<C64, _>(a, b, fc, tol, n),
                    "romberg" => integrate::integrate_fixed::<C64, _>(a, b, fc, n),
                    "laguerre" => integrate::integrate_laguerre::<C64, _>(fc, tol),
                    "hermite" => integrate::integrate_hermite::<C64, _>(fc, tol),
                    "chebyshev" => integrate::integrate_chebyshev::<C64, _>(fc, tol),
                    "chebyshev_second" => integrate::integrate_chebyshev_second::<C64, _>(fc, tol),
                    r => panic!("unknown routine {r}"),
                }
            } else {
                let fr = |x: f64| fc(x).re;
                let r = match routine.as_str() {
                    "tanhsinh" => integrate::integrate::<f64, _>(a, b, fr, tol),
                    "legendre" => integrate::integrate_gaussian::<f64, _>(a, b, fr, tol),
                    "simpson" => integrate::integrate_simpson::<f64, _>(a, b, fr, tol, n),
                    "romberg" => integrate::integrate_fixed::<f64, _>(a, b, fr, n),
                    "laguerre" => integrate::integrate_laguerre::<f64, _>(fr, tol),
                    "hermite" => integrate::integrate_hermite::<f64, _>(fr, tol),
                    "chebyshev" => integrate::integrate_chebyshev::<f64, _>(fr, tol),
                    "chebyshev_second" => integrate::integrate_chebyshev_second::<f64, _>(fr, tol),
                    r => panic!("unknown routine {r}"),
                };
                r.map(|v| C64::new(v, 0.0))
            }
        }));
        let mut o = case.clone();
        let l = log.borrow();
        o["calls"] = json!(*count.borrow());
        o["evals"] = Value::Array(l.iter().map(|(x, y)| json!([fj(*x), cj(*y)])).collect());
        let lo = l.iter().map(|p| p.0).fold(f64::INFINITY, f64::min);
        let hi = l.iter().map(|p| p.0).fold(f64::NEG_INFINITY, f64::max);
        o["xmin"] = fj(if l.is_empty() { 0.0 } else { lo });
        o["xmax"] = fj(if l.is_empty() { 0.0 } else { hi });
        o["val"] = cj(C64::new(0.0, 0.0));
        match r {
            Ok(Ok(v)) => {
                o["ret"] = json!("ok");
                o["val"] = cj(v);
            }
            Ok(Err(_)) => o["ret"] = json!("err"),
            Err(_) => o["ret"] = json!(if *count.borrow() > budget { "budget" } else { "panic" }),
        }
        out.put(o);
    }
    out.finish();
}
