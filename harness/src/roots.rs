//! Root finders: bracketing (C07) and Newton-type iterations (C08). The function under test records every
//! abscissa it is asked for and enforces an evaluation budget (a panic that is caught and reported).
use crate::util::*;
use bacon_sci::polynomial::Polynomial;
use bacon_sci::roots;
use nalgebra::{SMatrix, SVector};
use serde_json::{json, Value};
use std::cell::RefCell;

/// scalar function catalogue with known root sets (the sets are written in the TLA+ module Bracket)
#[derive(Clone)]
enum Fun {
    Poly(f64, Vec<f64>),     // sign * prod (x - r_i)
    Exp(f64, f64),           // sign * (exp(x) - c)
    Sin(f64, f64),           // sign * sin(w x)
    Flat(f64, f64, i32),     // sign * (x - r)^p, p odd
}

fn parse_fun(v: &Value) -> Fun {
    let p = jfv(&v["p"]);
    match v["k"].as_str().unwrap() {
        "poly" => Fun::Poly(p[0], p[1..].to_vec()),
        "exp" => Fun::Exp(p[0], p[1]),
        "sin" => Fun::Sin(p[0], p[1]),
        "flat" => Fun::Flat(p[0], p[1], p[2] as i32),
        k => panic!("unknown function {k}"),
    }
}

fn eval_fun(f: &Fun, x: f64) -> f64 {
    match f {
        Fun::Poly(s, rs) => rs.iter().fold(*s, |acc, r| acc * (x - r)),
        Fun::Exp(s, c) => s * (x.exp() - c),
        Fun::Sin(s, w) => s * (w * x).sin(),
        Fun::Flat(s, r, p) => s * (x - r).powi(*p),
    }
}

pub fn run_bracket(args: &[String]) {
    let cases = read_ndjson(&args[0]);
    let mut out = Out::create(&args[1]);
    for case in cases {
        let fun = parse_fun(&case["f"]);
        let a = jf(&case["a"]);
        let b = jf(&case["b"]);
        let tol = jf(&case["tol"]);
        let budget = ji(&case["budget"]) as usize;
        let solver = case["solver"].as_str().unwrap().to_string();
        let nmax = case["n_max"].as_i64().unwrap_or(200) as usize;
        let (k1, k2, n0) = (jf(&case["k1"]), jf(&case["k2"]), jf(&case["n0"]));
        let log: RefCell<Vec<(f64, f64)>> = RefCell::new(vec![]);
        let r = std::panic::catch_unwind(std::panic::AssertUnwindSafe(|| {
            let f = |x: f64| {
                let y = eval_fun(&fun, x);
                let mut l = log.borrow_mut();
                if l.len() >= budget {
                    panic!("budget");
                }
                l.push((x, y));
                y
            };
            match solver.as_str() {
                "bisection" => roots::bisection((a, b), f, tol, nmax),
                "brent" => roots::brent((a, b), f, tol),
                "itp" => roots::itp((a, b), f, k1, k2, n0, tol),
                s => panic!("unknown solver {s}"),
            }
        }));
        let l = log.borrow();
        let mut o = case.clone();
        o["n"] = json!(l.len());
        let keep = 1000.min(l.len());
        o["evals"] = Value::Array(l.iter().take(keep).map(|(x, y)| json!([fj(*x), fj(*y)])).collect());
        // extreme abscissae over all evaluations (in case the log was truncated)
        let lo = l.iter().map(|p| p.0).fold(f64::INFINITY, f64::min);
        let hi = l.iter().map(|p| p.0).fold(f64::NEG_INFINITY, f64::max);
        let anynan = l.iter().any(|p| p.0.is_nan());
        o["xmin"] = fj(if l.is_empty() { 0.0 } else { lo });
        o["xmax"] = fj(if l.is_empty() { 0.0 } else { hi });
        o["xnan"] = json!(anynan);
        o["x"] = fj(0.0);
        o["fx"] = fj(0.0);
        match r {
            Ok(Ok(x)) => {
                o["ret"] = json!("ok");
                o["x"] = fj(x);
                o["fx"] = fj(eval_fun(&fun, x));
            }
            Ok(Err(_)) => o["ret"] = json!("err"),
            Err(_) => o["ret"] = json!(if l.len() >= budget { "budget" } else { "panic" }),
        }
        out.put(o);
    }
    out.finish();
}

/* ---------------------------------------------------------------------------------------------
 * Newton-type iterations
 * ------------------------------------------------------------------------------------------- */
struct Sys {
    a: Vec<Vec<f64>>, // row major
    r: Vec<f64>,
    eps: f64,
    g: String, // "none" | "sq" | "sin"
}

fn sys_f<const S: usize>(s: &Sys, x: &[f64]) -> SVector<f64, S> {
    let d: Vec<f64> = (0..S).map(|i| x[i] - s.r[i]).collect();
    SVector::<f64, S>::from_iterator((0..S).map(|i| {
        let mut acc = 0.0;
        for j in 0..S {
            acc += s.a[i][j] * d[j];
        }
        acc + s.eps * match s.g.as_str() {
            "sq" => d[i] * d[i],
            "sin" => d[i].sin() - d[i],
            _ => 0.0,
        }
    }))
}

fn sys_j<const S: usize>(s: &Sys, x: &[f64]) -> SMatrix<f64, S, S> {
    let d: Vec<f64> = (0..S).map(|i| x[i] - s.r[i]).collect();
    SMatrix::<f64, S, S>::from_fn(|i, j| {
        let mut v = s.a[i][j];
        if i == j {
            v += s.eps * match s.g.as_str() {
                "sq" => 2.0 * d[i],
                "sin" => d[i].cos() - 1.0,
                _ => 0.0,
            };
        }
        v
    })
}

fn run_system<const S: usize>(case: &Value) -> Value
where
    nalgebra::Const<S>: nalgebra::DimMin<nalgebra::Const<S>, Output = nalgebra::Const<S>>,
{
    let s = Sys {
        a: case["A"].as_array().unwrap().iter().map(jfv).collect(),
        r: jfv(&case["r"]),
        eps: jf(&case["eps"]),
        g: case["g"].as_str().unwrap().to_string(),
    };
    let start = jfv(&case["start"]);
    let tol = jf(&case["tol"]);
    let nmax = ji(&case["n_max"]) as usize;
    let budget = ji(&case["budget"]) as usize;
    let nf = RefCell::new(0usize);
    let nj = RefCell::new(0usize);
    let method = case["method"].as_str().unwrap().to_string();
    // closure calls in order, for the design-level trace of newton(): kind, argument, value (F) or matrix rows (J)
    let calls: RefCell<Vec<Value>> = RefCell::new(vec![]);
    let trace = method == "newton" || method == "secant";
    let r = std::panic::catch_unwind(std::panic::AssertUnwindSafe(|| {
        let f = |x: &[f64]| {
            *nf.borrow_mut() += 1;
            if *nf.borrow() > budget {
                panic!("budget");
            }
            let y = sys_f::<S>(&s, x);
            if trace && calls.borrow().len() < 600 {
                calls.borrow_mut().push(json!({"k": "f", "x": fvj(x), "v": fvj(y.as_slice()), "m": []}));
            }
            y
        };
        if method == "newton" {
            let j = |x: &[f64]| {
                *nj.borrow_mut() += 1;
                let m = sys_j::<S>(&s, x);
                if calls.borrow().len() < 600 {
                    let rows: Vec<Value> = (0..S).map(|i| fvj(&(0..S).map(|c| m[(i, c)]).collect::<Vec<f64>>())).collect();
                    calls.borrow_mut().push(json!({"k": "j", "x": fvj(x), "v": [], "m": rows}));
                }
                m
            };
            roots::newton::<f64, _, _, S>(&start, f, j, tol, nmax)
        } else {
            roots::secant::<f64, _, S>(&start, f, jf(&case["h"]), tol, nmax)
        }
    }));
    let mut o = json!({"nf": *nf.borrow(), "nj": *nj.borrow(), "x": fvj(&vec![0.0; S])});
    o["calls"] = Value::Array(calls.borrow().clone());
    match r {
        Ok(Ok(x)) => {
            o["ret"] = json!("ok");
            o["x"] = fvj(x.as_slice());
        }
        Ok(Err(_)) => o["ret"] = json!("err"),
        Err(_) => o["ret"] = json!(if *nf.borrow() > budget { "budget" } else { "panic" }),
    }
    o
}

// contraction catalogue for Steffensen (plain fn pointers are required by the API)
thread_local! { static STEFF_CALLS: RefCell<usize> = const { RefCell::new(0) }; }
// the first evaluations of the map (argument, value), for the design-level trace
thread_local! { static STEFF_LOG: RefCell<Vec<(f64, f64)>> = const { RefCell::new(Vec::new()) }; }
fn bump() {
    STEFF_CALLS.with(|c| {
        *c.borrow_mut() += 1;
        if *c.borrow() > 200000 {
            panic!("budget");
        }
    });
}
fn logged(x: f64, y: f64) -> f64 {
    STEFF_LOG.with(|l| {
        let mut l = l.borrow_mut();
        if l.len() < 1000 {
            l.push((x, y));
        }
    });
    y
}
fn g_cos(x: f64) -> f64 { bump(); logged(x, x.cos()) }
fn g_expm(x: f64) -> f64 { bump(); logged(x, (-x).exp()) }
fn g_heron(x: f64) -> f64 { bump(); logged(x, 0.5 * (x + 2.0 / x)) }
fn g_sinhalf(x: f64) -> f64 { bump(); logged(x, 1.0 + 0.5 * x.sin()) }
fn g_affine(x: f64) -> f64 { bump(); logged(x, 0.25 * x + 3.0) }
fn g_quad(x: f64) -> f64 { bump(); logged(x, (x * x + 1.0) / 3.0) }
fn g_atan(x: f64) -> f64 { bump(); logged(x, 1.0 + 0.5 * x.atan()) }
fn g_logshift(x: f64) -> f64 { bump(); logged(x, (x + 2.0).ln()) }
fn g_sin09(x: f64) -> f64 { bump(); logged(x, 0.9 * x.sin() + 0.3) }
// affine map with the case's own slope and intercept (the API takes a plain fn pointer)
thread_local! { static AFFP: RefCell<(f64, f64)> = const { RefCell::new((0.0, 0.0)) }; }
fn g_affp(x: f64) -> f64 { bump(); let (s, c) = AFFP.with(|p| *p.borrow()); logged(x, s * x + c) }

fn run_steffensen(case: &Value) -> Value {
    let g: fn(f64) -> f64 = match case["g"].as_str().unwrap() {
        "cos" => g_cos,
        "expm" => g_expm,
        "heron" => g_heron,
        "sinhalf" => g_sinhalf,
        "affine" => g_affine,
        "quad" => g_quad,
        "atan" => g_atan,
        "logshift" => g_logshift,
        "sin09" => g_sin09,
        "affp" => {
            let gp = jfv(&case["gp"]);
            AFFP.with(|p| *p.borrow_mut() = (gp[0], gp[1]));
            g_affp
        }
        k => panic!("unknown map {k}"),
    };
    STEFF_CALLS.with(|c| *c.borrow_mut() = 0);
    STEFF_LOG.with(|l| l.borrow_mut().clear());
    let start = jf(&case["start"][0]);
    let tol = jf(&case["tol"]);
    let nmax = ji(&case["n_max"]) as usize;
    let r = std::panic::catch_unwind(|| roots::steffensen(start, g, tol, nmax));
    let calls = STEFF_CALLS.with(|c| *c.borrow());
    let mut o = json!({"nf": calls, "nj": 0, "x": fvj(&[0.0])});
    o["gevals"] = STEFF_LOG.with(|l| Value::Array(l.borrow().iter().map(|(x, y)| json!([fj(*x), fj(*y)])).collect()));
    match r {
        Ok(Ok(x)) => {
            o["ret"] = json!("ok");
            o["x"] = fvj(&[x]);
        }
        Ok(Err(_)) => o["ret"] = json!("err"),
        Err(_) => o["ret"] = json!(if calls > 200000 { "budget" } else { "panic" }),
    }
    o
}

fn run_polyiter(case: &Value) -> Value {
    // polynomial given by ascending complex coefficients; newton_polynomial on C64 / f64, muller on either
    let coefs = jcv(&case["coefs"]);
    let cx = case["cx"].as_bool().unwrap();
    let tol = jf(&case["tol"]);
    let nmax = ji(&case["n_max"]) as usize;
    let start = jcv(&case["start"]);
    let method = case["method"].as_str().unwrap();
    let desc_c: Vec<C64> = coefs.iter().rev().copied().collect();
    let desc_r: Vec<f64> = coefs.iter().rev().map(|c| c.re).collect();
    let r = std::panic::catch_unwind(|| -> Result<C64, String> {
        if method == "newton_polynomial" {
            if cx {
                let p = Polynomial::<C64>::from_slice(&desc_c);
                roots::newton_polynomial(start[0], &p, tol, nmax)
            } else {
                let p = Polynomial::<f64>::from_slice(&desc_r);
                roots::newton_polynomial(start[0].re, &p, tol, nmax).map(|x| C64::new(x, 0.0))
            }
        } else if cx {
            let p = Polynomial::<C64>::from_slice(&desc_c);
            roots::muller_polynomial((start[0], start[1], start[2]), &p, tol, nmax)
        } else {
            let p = Polynomial::<f64>::from_slice(&desc_r);
            roots::muller_polynomial((start[0].re, start[1].re, start[2].re), &p, tol, nmax)
        }
    });
    let mut o = json!({"nf": 0, "nj": 0, "xc": cj(C64::new(0.0, 0.0))});
    match r {
        Ok(Ok(x)) => {
            o["ret"] = json!("ok");
            o["xc"] = cj(x);
        }
        Ok(Err(_)) => o["ret"] = json!("err"),
        Err(_) => o["ret"] = json!("panic"),
    }
    o
}

pub fn run_iter(args: &[String]) {
    let cases = read_ndjson(&args[0]);
    let mut out = Out::create(&args[1]);
    for case in cases {
        let method = case["method"].as_str().unwrap();
        let obs = match method {
            "newton" | "secant" => match ji(&case["dim"]) {
                1 => run_system::<1>(&case),
                2 => run_system::<2>(&case),
                3 => run_system::<3>(&case),
                4 => run_system::<4>(&case),
                d => panic!("unsupported dimension {d}"),
            },
            "steffensen" => run_steffensen(&case),
            _ => run_polyiter(&case),
        };
        let mut o = case.clone();
        o["obs"] = obs;
        out.put(o);
    }
    out.finish();
}
