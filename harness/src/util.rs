//! Shared helpers: NDJSON I/O with doubles as <<hi, lo>> bit pairs, a small deterministic PRNG.
#![allow(dead_code)]

use num_complex::Complex;
use serde_json::{json, Map, Value};
use std::fs::File;
use std::io::{BufRead, BufReader, BufWriter, Write};

pub type C64 = Complex<f64>;

/// f64 -> [hi, lo] (signed 32-bit halves of the bit pattern), the F64 module's representation
pub fn fj(x: f64) -> Value {
    let b = x.to_bits();
    json!([(b >> 32) as u32 as i32, b as u32 as i32])
}

pub fn fvj(xs: &[f64]) -> Value {
    Value::Array(xs.iter().map(|x| fj(*x)).collect())
}

pub fn cj(z: C64) -> Value {
    json!([fj(z.re), fj(z.im)])
}

pub fn cvj(zs: &[C64]) -> Value {
    Value::Array(zs.iter().map(|z| cj(*z)).collect())
}

/// [hi, lo] -> f64 ; also accepts a plain JSON integer, or {"n":..,"d":..} rationals
pub fn jf(v: &Value) -> f64 {
    match v {
        Value::Array(a) if a.len() == 2 && a[0].is_i64() => {
            let hi = a[0].as_i64().unwrap() as i32 as u32 as u64;
            let lo = a[1].as_i64().unwrap() as i32 as u32 as u64;
            f64::from_bits((hi << 32) | lo)
        }
        Value::Number(n) => n.as_f64().unwrap(),
        Value::Object(o) => {
            let n = o["n"].as_i64().unwrap() as f64;
            let d = o["d"].as_i64().unwrap() as f64;
            n / d
        }
        _ => panic!("jf: not a number: {v}"),
    }
}

pub fn jfv(v: &Value) -> Vec<f64> {
    v.as_array().unwrap().iter().map(jf).collect()
}

pub fn jc(v: &Value) -> C64 {
    let a = v.as_array().unwrap();
    C64::new(jf(&a[0]), jf(&a[1]))
}

pub fn jcv(v: &Value) -> Vec<C64> {
    v.as_array().unwrap().iter().map(jc).collect()
}

pub fn ji(v: &Value) -> i64 {
    v.as_i64().unwrap_or_else(|| panic!("ji: not an int: {v}"))
}

pub fn jiv(v: &Value) -> Vec<i64> {
    v.as_array().unwrap().iter().map(ji).collect()
}

pub struct Out {
    w: BufWriter<File>,
    pub lines: usize,
}

impl Out {
    pub fn create(path: &str) -> Out {
        Out {
            w: BufWriter::new(File::create(path).unwrap_or_else(|e| panic!("create {path}: {e}"))),
            lines: 0,
        }
    }
    pub fn put(&mut self, v: Value) {
        serde_json::to_writer(&mut self.w, &v).unwrap();
        self.w.write_all(b"\n").unwrap();
        self.lines += 1;
    }
    pub fn put_map(&mut self, m: Map<String, Value>) {
        self.put(Value::Object(m));
    }
    pub fn finish(mut self) {
        self.w.flush().unwrap();
    }
}

pub fn read_ndjson(path: &str) -> Vec<Value> {
    let f = File::open(path).unwrap_or_else(|e| panic!("open {path}: {e}"));
    BufReader::new(f)
        .lines()
        .map(|l| l.unwrap())
        .filter(|l| !l.trim().is_empty())
        .map(|l| serde_json::from_str(&l).unwrap_or_else(|e| panic!("parse {l}: {e}")))
        .collect()
}

/// splitmix64
#[derive(Clone)]
pub struct Rng(pub u64);

impl Rng {
    pub fn new(seed: u64) -> Rng {
        Rng(seed.wrapping_mul(0x9E3779B97F4A7C15).wrapping_add(0x1234567))
    }
    pub fn next_u64(&mut self) -> u64 {
        self.0 = self.0.wrapping_add(0x9E3779B97F4A7C15);
        let mut z = self.0;
        z = (z ^ (z >> 30)).wrapping_mul(0xBF58476D1CE4E5B9);
        z = (z ^ (z >> 27)).wrapping_mul(0x94D049BB133111EB);
        z ^ (z >> 31)
    }
    /// uniform in [0,1)
    pub fn unit(&mut self) -> f64 {
        (self.next_u64() >> 11) as f64 / (1u64 << 53) as f64
    }
    pub fn range(&mut self, lo: f64, hi: f64) -> f64 {
        lo + (hi - lo) * self.unit()
    }
    /// integer in lo..=hi
    pub fn int(&mut self, lo: i64, hi: i64) -> i64 {
        lo + (self.next_u64() % ((hi - lo + 1) as u64)) as i64
    }
    pub fn pick<'a, T>(&mut self, xs: &'a [T]) -> &'a T {
        &xs[(self.next_u64() % xs.len() as u64) as usize]
    }
    pub fn coin(&mut self) -> bool {
        self.next_u64() & 1 == 1
    }
    /// log-uniform in [lo, hi]
    pub fn log_range(&mut self, lo: f64, hi: f64) -> f64 {
        (self.range(lo.ln(), hi.ln())).exp()
    }
    /// +-[lo,hi]
    pub fn signed(&mut self, lo: f64, hi: f64) -> f64 {
        let m = self.range(lo, hi);
        if self.coin() {
            m
        } else {
            -m
        }
    }
    /// dyadic rational k / 2^bits with |value| in [lo, hi] (exactly representable, short mantissa)
    pub fn dyadic(&mut self, lo: f64, hi: f64, bits: u32) -> f64 {
        let s = (1u64 << bits) as f64;
        (self.range(lo, hi) * s).round() / s
    }
}

/// run a closure, turning a panic into Err(message)
pub fn guarded<T, F: FnOnce() -> T + std::panic::UnwindSafe>(f: F) -> Result<T, String> {
    std::panic::catch_unwind(f).map_err(|e| {
        if let Some(s) = e.downcast_ref::<String>() {
            s.clone()
        } else if let Some(s) = e.downcast_ref::<&str>() {
            (*s).to_string()
        } else {
            "panic".to_string()
        }
    })
}

/// run a closure on its own thread and give up waiting after `secs` seconds: None = still running (the thread is
/// left behind, it cannot be stopped; callers bound how often they let that happen)
pub fn with_deadline<T: Send + 'static, F: FnOnce() -> T + Send + 'static>(secs: u64, f: F) -> Option<T> {
    let (tx, rx) = std::sync::mpsc::channel();
    std::thread::spawn(move || {
        let _ = tx.send(f());
    });
    rx.recv_timeout(std::time::Duration::from_secs(secs)).ok()
}

pub fn quiet_panics() {
    std::panic::set_hook(Box::new(|_| {}));
}

/// f64 or Complex<f64>, converted to/from complex for recording
pub trait Scalar: nalgebra::ComplexField<RealField = f64> + Copy + num_traits::FromPrimitive {
    fn to_c(self) -> C64;
    fn of_c(c: C64) -> Self;
}
impl Scalar for f64 {
    fn to_c(self) -> C64 {
        C64::new(self, 0.0)
    }
    fn of_c(c: C64) -> f64 {
        c.re
    }
}
impl Scalar for C64 {
    fn to_c(self) -> C64 {
        self
    }
    fn of_c(c: C64) -> C64 {
        c
    }
}
