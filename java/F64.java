import tlc2.value.impl.BoolValue;
import tlc2.value.impl.IntValue;
import tlc2.value.impl.StringValue;
import tlc2.value.impl.TupleValue;
import tlc2.value.impl.Value;

/**
 * TLC operator overrides for module F64: IEEE-754 binary64 numbers represented as a pair of
 * 32-bit integers <<hi, lo>> (the bit pattern).  + - * / sqrt are correctly rounded in Java and
 * in Rust, so the specification reproduces the implementation's results bit for bit wherever the
 * code uses only these; exp/ln/sin/cos/pow are used only under a tolerance.
 *
 * Loaded by TLC because the class has the module's name and is on the classpath.
 */
public class F64 {
    static double d(final Value v) {
        final TupleValue t = (TupleValue) v.toTuple();
        if (t == null || t.size() != 2) {
            throw new RuntimeException("F64: not a <<hi,lo>> pair: " + v);
        }
        final long hi = ((IntValue) t.elems[0]).val;
        final long lo = ((IntValue) t.elems[1]).val;
        return Double.longBitsToDouble((hi << 32) | (lo & 0xffffffffL));
    }

    static Value v(final double x) {
        final long b = Double.doubleToRawLongBits(x);
        return new TupleValue(IntValue.gen((int) (b >> 32)), IntValue.gen((int) b));
    }

    static int i(final Value v) {
        return ((IntValue) v).val;
    }

    public static Value FAdd(final Value a, final Value b) { return v(d(a) + d(b)); }
    public static Value FSub(final Value a, final Value b) { return v(d(a) - d(b)); }
    public static Value FMul(final Value a, final Value b) { return v(d(a) * d(b)); }
    public static Value FDiv(final Value a, final Value b) { return v(d(a) / d(b)); }
    public static Value FNeg(final Value a) { return v(-d(a)); }
    public static Value FAbs(final Value a) { return v(Math.abs(d(a))); }
    public static Value FSqrt(final Value a) { return v(Math.sqrt(d(a))); }
    public static Value FMax(final Value a, final Value b) { return v(Math.max(d(a), d(b))); }
    public static Value FMin(final Value a, final Value b) { return v(Math.min(d(a), d(b))); }
    public static Value FFma(final Value a, final Value b, final Value c) { return v(Math.fma(d(a), d(b), d(c))); }

    public static Value FLe(final Value a, final Value b) { return d(a) <= d(b) ? BoolValue.ValTrue : BoolValue.ValFalse; }
    public static Value FLt(final Value a, final Value b) { return d(a) < d(b) ? BoolValue.ValTrue : BoolValue.ValFalse; }
    public static Value FEq(final Value a, final Value b) { return d(a) == d(b) ? BoolValue.ValTrue : BoolValue.ValFalse; }
    public static Value FIsFinite(final Value a) {
        final double x = d(a);
        return (!Double.isNaN(x) && !Double.isInfinite(x)) ? BoolValue.ValTrue : BoolValue.ValFalse;
    }
    public static Value FIsNaN(final Value a) { return Double.isNaN(d(a)) ? BoolValue.ValTrue : BoolValue.ValFalse; }
    public static Value FSignBit(final Value a) {
        return (Double.doubleToRawLongBits(d(a)) < 0) ? BoolValue.ValTrue : BoolValue.ValFalse;
    }

    public static Value FOfInt(final Value n) { return v((double) i(n)); }
    public static Value FOfRat(final Value n, final Value m) { return v(((double) i(n)) / ((double) i(m))); }
    /** n * 2^e, exact */
    public static Value FScale(final Value n, final Value e) { return v(Math.scalb((double) i(n), i(e))); }
    public static Value FOfDec(final Value s) { return v(Double.parseDouble(((StringValue) s).val.toString())); }
    public static Value FStr(final Value a) { return new StringValue(Double.toString(d(a))); }

    public static Value FFloor(final Value a) { return v(Math.floor(d(a))); }
    public static Value FCeil(final Value a) { return v(Math.ceil(d(a))); }
    /** truncation to a TLC integer; error if out of range */
    public static Value FToInt(final Value a) {
        final double x = d(a);
        if (Double.isNaN(x) || Math.abs(x) > 2147483647.0) {
            throw new RuntimeException("F64!FToInt: out of range: " + x);
        }
        return IntValue.gen((int) x);
    }
    public static Value FUlp(final Value a) { return v(Math.ulp(d(a))); }

    public static Value FExp(final Value a) { return v(Math.exp(d(a))); }
    public static Value FLn(final Value a) { return v(Math.log(d(a))); }
    public static Value FSin(final Value a) { return v(Math.sin(d(a))); }
    public static Value FCos(final Value a) { return v(Math.cos(d(a))); }
    public static Value FTanh(final Value a) { return v(Math.tanh(d(a))); }
    public static Value FSinh(final Value a) { return v(Math.sinh(d(a))); }
    public static Value FCosh(final Value a) { return v(Math.cosh(d(a))); }
    public static Value FPow(final Value a, final Value b) { return v(Math.pow(d(a), d(b))); }
    public static Value FPowI(final Value a, final Value n) {
        // exact repeated multiplication order does not matter for our uses (tolerance)
        return v(Math.pow(d(a), (double) i(n)));
    }

    /* ---- vector helpers (sequences of F64), for speed only; semantics = the TLA+ definitions ---- */
    static Value[] seq(final Value s) {
        final TupleValue t = (TupleValue) s.toTuple();
        if (t == null) {
            throw new RuntimeException("F64: not a sequence: " + s);
        }
        return t.elems;
    }

    /**
     * Identity on sequences (the TLA+ definition is FSeq(s) == s), but evaluated eagerly and deeply:
     * TLC represents [k \in 1..n |-> e] lazily and would re-evaluate e at every application.
     */
    public static Value FSeq(final Value s) {
        return force(s);
    }

    static Value force(final Value s) {
        final Value t = s.toTuple();
        if (t == null) {
            return s;
        }
        final Value[] in = ((TupleValue) t).elems;
        final Value[] out = new Value[in.length];
        for (int k = 0; k < in.length; k++) {
            final Value e = in[k];
            out[k] = (e instanceof IntValue || e instanceof BoolValue || e instanceof StringValue) ? e : force(e);
        }
        return new TupleValue(out);
    }

    /** left-to-right sum, as a Rust fold would do */
    public static Value FSum(final Value s) {
        double acc = 0.0;
        for (final Value e : seq(s)) {
            acc += d(e);
        }
        return v(acc);
    }

    /** sqrt of sum of squares (naive, left to right) */
    public static Value FNorm2(final Value s) {
        double acc = 0.0;
        for (final Value e : seq(s)) {
            final double x = d(e);
            acc += x * x;
        }
        return v(Math.sqrt(acc));
    }

    /** max of absolute values; 0 for the empty sequence */
    public static Value FMaxAbs(final Value s) {
        double acc = 0.0;
        for (final Value e : seq(s)) {
            final double x = Math.abs(d(e));
            if (Double.isNaN(x)) {
                return v(Double.NaN);
            }
            acc = Math.max(acc, x);
        }
        return v(acc);
    }
}
