"""C01 - IVP solution paths are ordered, gap-bounded and reach the end time.
E1: TLC exhaustively checks the stepper design (IvpProtocol) against the contract (IvpContract)
    over integer ticks for every configuration / verdict sequence / controller choice.
E2: the same configurations (TLC's initial-state set) are run on the real solvers.
E3: seeded runs of all seven solvers on the smooth family; every recorded path is validated by
    TLC against IvpContract over IEEE doubles (Val_Ivp)."""
import random

import ivpcommon
import ivpgen
import vlib

LEVEL = "model_checking"
CONJ = {"times_strictly_increasing", "inside_interval", "gap_le_max_step", "ends_exactly_at_end_time",
        "euler_yields_initial_state_first", "euler_one_point_per_step", "euler_points_strictly_before_end",
        "euler_point_for_every_step_before_end", "state_has_problem_dimension", "state_entries_finite",
        "no_item_after_end_or_error", "no_panic", "valid_configuration_builds"}
KIND2SOLVERS = {"euler": ["euler"], "rk": ["rk45", "rk23"], "adams3": ["adams3"], "adams5": ["adams5"],
                "bdf2": ["bdf2"], "bdf6": ["bdf6"]}
TICK = 2.0 ** -6


def e1(ctx):
    thorough = ctx.tier == "thorough"
    cfg = ctx.path("MC_IvpProtocol.cfg")
    text = open(vlib.SPEC + "/MC_IvpProtocol.cfg").read()
    if thorough:
        text = text.replace("Thorough = FALSE", "Thorough = TRUE")
    open(vlib.SPEC + "/MC_IvpProtocol_run.cfg", "w").write(text)
    try:
        # thorough: interval lengths up to 12 units (2.3 million states, about 5 minutes with 8 workers; 14 units did not
        # finish in 25 minutes)
        r = vlib.e1(ctx, "MC_IvpProtocol", "IvpProtocol",
                    ["EulerDone", "EulerStep", "RkDone", "RkTrial", "HandOver", "Sentinel", "CommitAtEnd", "MsDone", "FinalClip", "StartUp",
                     "PcTrial", "UserFail", "Fused"],
                    cfg="MC_IvpProtocol_run.cfg", workers=8 if thorough else 6, timeout=3600 if thorough else 1500,
                    xmx="16g" if thorough else "8g")
    finally:
        import os
        os.remove(vlib.SPEC + "/MC_IvpProtocol_run.cfg")
    ctx.notes["e1"] = {"module": "MC_IvpProtocol", "distinct_states": r.distinct, "generated": r.generated,
                       "invariants": "ContractRefined PathOrdered PathInside PathGaps EndReached EulerOnGrid HistAligned "
                                     "StepWithinMax NothingPending AtMostOneErr FailOnlyBelowMin; liveness Terminates"}


def model_configs(ctx, rng):
    """E2: the E1 initial-state set, scaled to dyadic reals, x three right-hand sides"""
    p = ctx.path("model-configs.ndjson")
    g = vlib.tlc("Gen_IvpConfigs", env={"VH_CASES": p}, timeout=300)
    ctx.add_tlc(g)
    rows = vlib.read_ndjson(p)
    if ctx.tier == "quick":
        rows = [r for k, r in enumerate(sorted(rows, key=lambda r: (r["name"], r["dtmax"], r["t1"]))) if k % 2 == ctx.seed % 2 or r["t1"] <= 3 * (r["h"] + 2)]
    cases = []
    for r in rows:
        for solver in KIND2SOLVERS[r["name"]]:
            for variant in ("zero", "smooth", "rough"):
                dim = rng.randint(1, 4)
                t0, t1 = r["t0"] * TICK, r["t1"] * TICK
                if variant == "zero":
                    rhs = {"fam": "blocks", "blocks": [{"k": "zero", "p": []} for _ in range(dim)]}
                    y0 = [ivpgen.cpair(rng.uniform(-1, 1)) for _ in range(dim)]
                elif variant == "smooth":
                    rhs, y0, _ = ivpgen.system(rng, dim, t1 - t0, t0)
                else:
                    rhs, y0, _ = ivpgen.system(rng, dim, t1 - t0, t0, kinds=["rough", "lin", "rough"])
                tol = 10.0 ** (-rng.uniform(3, 8))
                cases.append(ivpgen.base_case(0, solver, dim, t0, t1, r["dtmin"] * TICK, r["dtmax"] * TICK, tol, rhs, y0,
                                              origin="model", variant=variant, snaps=(len(cases) % 4 == 0), evals=(len(cases) % 4 == 0)))
    return cases


def seeded(ctx, rng, per_solver):
    cases = []
    for solver in ivpgen.SOLVERS:
        for j in range(per_solver):
            t0, t1, dtmin, dtmax, tol, span = ivpgen.random_config(rng, solver, long_ok=(solver != "euler"))
            if solver == "euler" and rng.random() < 0.3:
                # a whole number of non-dyadic steps: the accumulated time + dt + dt + ... lands a rounding error below
                # (or above) the product n * dt, and the step time just before the end must still get its point
                dtmax = rng.choice([0.1, 0.3, 0.7, 1.0 / 3.0, 0.01, 0.07]) * rng.choice([1.0, 1.0, 0.5, 3.0])
                dtmin = dtmax
                t0 = rng.choice([0.0, 0.0, 1.0, -2.0])
                t1 = t0 + rng.randint(3, 60) * dtmax
                span = t1 - t0
            hsteps = {"adams3": 2, "adams5": 4, "bdf2": 2, "bdf6": 6}.get(solver)
            if hsteps and rng.random() < 0.15:
                # the end sits within a few ulps of where the start-up's own steps land: time + h + h + ... (repeated
                # addition, as the solver does it) against time + H h (as its fit test computes it)
                dt0 = 0.5 * (dtmin + dtmax)
                t = t0
                for _ in range(hsteps + rng.choice([0, 0, 1])):
                    t += dt0
                import struct
                bits = struct.unpack(">q", struct.pack(">d", t))[0] + rng.randint(-3, 3)
                t1 = struct.unpack(">d", struct.pack(">q", bits))[0]
                span = t1 - t0
            dim = rng.randint(1, 4)
            kinds = ivpgen.SMOOTH_KINDS + (["rough"] if rng.random() < 0.3 else [])
            if solver == "euler" and dtmax > 0.05:
                # explicit Euler with a step beyond its stability limit runs the quadratic families (y' = -c y^2, logistic)
                # off to infinity in a few steps; "finite entries" is claimed for solves that stay finite
                kinds = [k for k in kinds if k not in ("recip", "logistic")]
            rhs, y0, _ = ivpgen.system(rng, dim, span, t0, kinds=kinds)
            cases.append(ivpgen.base_case(0, solver, dim, t0, t1, dtmin, dtmax, tol, rhs, y0, origin="seeded",
                                          dyn=(rng.random() < 0.2), max_items=1000000, min_first=(j % 2 == 1),
                                          snaps=(j % 3 == 0 and span / dtmax <= 300),       # design level on a third of the runs,
                                          evals=(j % 3 == 0 and span / dtmax <= 300)))      # with the derivative-evaluation times
    return cases


def design_level(ctx, events, byid):
    """E3, design level: step() snapshots (cfg(bacon_verif) hooks) of the runs recorded with snaps=True are validated
    against IvpProtocol over doubles (Trace_IvpProtocol). A run the design does not explain is DRIFT (non-fatal)."""
    snapped = set(c["id"] for c in byid.values() if c.get("snaps"))
    ev = [e for e in events if e["c"] in snapped]
    if not ev:
        return 0
    drifts, nruns = ivpcommon.validate_design(ctx, ivpcommon.annotate_snaps(ev))
    ctx.notes["design_level_runs_validated"] = nruns
    ctx.notes["design_level_snapshots"] = sum(1 for e in ev if e["ev"] == "snap")
    ctx.notes["design_level_derivative_evaluation_times"] = sum(1 for e in ev if e["ev"] == "eval")
    for cid, bad in drifts:
        ctx.drift.append({"solver": byid[cid]["solver"], "case": ivpcommon.case_brief(byid[cid]), "unexplained_event": vlib.decode(bad)})
    return len(drifts)


def judge(ctx, cases):
    for k, c in enumerate(cases):
        c["id"] = k + 1
    byid = {c["id"]: c for c in cases}
    events = ivpcommon.harness_runs(ctx, cases)
    ndrift = design_level(ctx, events, byid)
    events = [e for e in events if e["ev"] not in ("snap", "eval")]
    viols = ivpcommon.validate(ctx, events, "Val_Ivp")
    stats = ivpcommon.run_stats(events)
    for cid, st in stats.items():
        c = byid[cid]
        ctx.count_case(ivpcommon.case_brief(c), st["items"] >= 2 and st["none"] > 0 and st["err"] is None)
    ctx.traces += len(stats)
    for c in cases[:: max(1, len(cases) // 4)][:4]:
        st = stats[c["id"]]
        ctx.sample({"case": ivpcommon.case_brief(c), "items": st["items"], "err": st["err"], "calls": st["calls"]})
    ignored = {}
    for ev, conj, _ in viols:
        c = byid[ev["c"]]
        for name in conj:
            if name in CONJ:
                ctx.violation(c["solver"], name, ivpcommon.case_brief(c), {"event": vlib.decode(ev)})
            else:
                ignored[name] = ignored.get(name, 0) + 1
    ctx.notes["conjuncts_of_other_properties_seen"] = ignored
    ctx.notes["runs_with_error"] = sum(1 for s in stats.values() if s["err"])
    ctx.notes["drifting_runs"] = ndrift
    return stats


def judge_extra(ctx, cases, base=100000, tag="esc"):
    if not cases:
        return
    for k, c in enumerate(cases):
        c["id"] = base + k
    byid = {c["id"]: c for c in cases}
    events = ivpcommon.harness_runs(ctx, cases, tag=tag)
    viols = ivpcommon.validate(ctx, events, "Val_Ivp", tag=tag)
    stats = ivpcommon.run_stats(events)
    for cid, st in stats.items():
        ctx.count_case(ivpcommon.case_brief(byid[cid]), st["items"] >= 2 and st["none"] > 0 and st["err"] is None)
    ctx.traces += len(stats)
    for ev, conj, _ in viols:
        for name in conj:
            if name in CONJ:
                ctx.violation(byid[ev["c"]]["solver"], name, ivpcommon.case_brief(byid[ev["c"]]), {"event": vlib.decode(ev)})


def ulp_neighbours(ctx, rng, cases, per_solver):
    """second pass: the same problems with the ending time moved to within three ulps of a time the solver lands on by
    itself (found by a first, unrecorded run): where an interval or a start-up "only just" fits, the rounding of
    time + n dt against n repeated additions decides, and the path must still stay inside and end at the end"""
    import struct
    pool = [dict(c, snaps=False, evals=False) for c in cases if c.get("origin") == "seeded" and c["solver"] != "euler"]
    rng.shuffle(pool)
    bysolver = {}
    for c in pool:
        if len(bysolver.setdefault(c["solver"], [])) < per_solver:
            bysolver[c["solver"]].append(c)
    first = [c for cs in bysolver.values() for c in cs]
    for k, c in enumerate(first):
        c["id"] = 200000 + k
    times = {}
    for e in ivpcommon.harness_runs(ctx, first, tag="ulp0"):
        if e["ev"] == "item":
            times.setdefault(e["c"], []).append(vlib.pair_to_float(e["t"]))
    out = []
    for c in first:
        ts = times.get(c["id"], [])
        if len(ts) < 8:
            continue
        for _ in range(2):
            tj = ts[rng.randint(5, len(ts) - 1)]
            bits = struct.unpack(">q", struct.pack(">d", tj))[0] + rng.choice([-3, -2, -1, 1, 2, 3]) * (1 if tj >= 0 else -1)
            t1 = struct.unpack(">d", struct.pack(">q", bits))[0]
            if t1 > vlib.pair_to_float(c["t0"]):
                out.append(dict(c, t1=vlib.float_to_pair(t1), origin="ulp"))
    return out


def run(ctx):
    rng = random.Random(ctx.seed)
    e1(ctx)
    cases = model_configs(ctx, rng)
    nmodel = len(cases)
    cases += seeded(ctx, rng, 24 if ctx.tier == "quick" else 240)
    judge(ctx, cases)
    nb = ulp_neighbours(ctx, rng, cases, 20 if ctx.tier == "quick" else 120)
    ctx.notes["ulp_neighbour_end_cases"] = len(nb)
    judge_extra(ctx, nb, base=300000, tag="ulp")
    if ctx.drift and ctx.tier == "quick":
        # the code has left the verified design: spend a bounded extra budget on the contract (DESIGN 2.2)
        extra = seeded(ctx, random.Random(ctx.seed + 1000), 80)
        for c in extra:
            c["snaps"] = False
        ctx.notes["escalated_after_drift"] = len(extra)
        judge_extra(ctx, extra)
    ctx.notes["model_configuration_runs"] = nmodel
    ctx.rule = ("E1: all behaviours of IvpProtocol over integer ticks for every configuration of MC_IvpProtocol!Configs; "
                "E2: those configurations (tick = 2^-6) x {zero, smooth, rough} right-hand sides on the real solvers; "
                "E3: seeded random configurations (Appendix C of DESIGN.md), contract level for all runs and design level (step() "
                "snapshots against IvpProtocol over doubles) for the seeded runs and a third of the model configurations. A run is non-trivial when it completes without "
                "error with >= 2 items; distinct by full input record; second pass: seeded problems re-run with the ending time within "
                "three ulps of a time the solver lands on by itself")
    ctx.assumptions += ["integer-tick abstraction of time in E1 (valid while every step is >= 1 tick)",
                        "F64.java / JVM arithmetic, TLC evaluator, harness recording",
                        "gap bound checked with 4 ulp slack; all other conjuncts exact"]


def replay(ctx, body):
    judge(ctx, [dict(body["case"], budget=400000, extra_next=2, max_items=20000, snaps=False, evals=False, work=False)])
