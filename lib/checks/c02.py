"""C02 - accepted IVP steps are locally accurate to the requested tolerance.
E3: for every consecutive pair of items of every recorded path TLC (Val_IvpAccuracy) evaluates the
closed-form flow of the problem restarted from the previous point and requires
|y_{n+1} - Flow| <= KL*tol*h (RK, Adams) or KL*tol (BDF)."""
import random

import ivpcommon
import ivpgen
import vlib

LEVEL = "exploration"
KL = 6
KLB = 40
KG = 8
FAMS = [["lin"], ["rot", "lin"], ["tv"], ["logistic"], ["recip"], ["forcing"], ["relax"]]
CONJ = {"accepted_step_locally_accurate_to_tolerance"}


def gen(ctx, rng, per):
    cases = []
    for solver in ivpgen.ADAPTIVE:
        for fam in FAMS:
            for _ in range(per):
                tol = 10.0 ** (-rng.uniform(3, 10))
                cases.append(ivpgen.accuracy_case(rng, solver, fam, tol))
                cases[-1]["acc"] = "local"
        # growing solutions: the multistep solvers double their step after a few accepted steps and have a freshly taken
        # start-up rejected now and then - the roll-back paths
        if solver in ("bdf6", "bdf2", "adams5", "adams3"):
            for amp in (1.0, 30.0):
                for _ in range(max(2, per) if solver.startswith("bdf") else max(3, per)):
                    tol = 10.0 ** (-rng.uniform(5, 9))
                    c = ivpgen.accuracy_case(rng, solver, ["grow"], tol, dim=rng.randint(1, 2), span=rng.uniform(2.5, 3.0))
                    # the larger start is not compensated in the step bound here: the growth itself (e^3) already takes the
                    # state through that range, and the unchanged code keeps its local error within a few tol on it
                    c["y0"] = [ivpgen.cpair(amp * vlib.pair_to_float(z[0])) for z in c["y0"]]
                    c["acc"] = "local"
                    cases.append(c)
        # a minimum step that is coarser than the tolerance comes to require (growing or large solutions): the run may then end
        # with an Err - which this property does not forbid - but whatever was yielded before must be accurate all the same
        for _ in range(max(2, per)):
            tol = 10.0 ** (-rng.uniform(4, 8))
            c = ivpgen.accuracy_case(rng, solver, rng.choice([["grow"], ["lin"], ["rot", "lin"]]), tol, dim=rng.randint(1, 2),
                                     span=rng.uniform(2.0, 3.0), amp=rng.choice([1.0, 30.0]))
            c["dtmin"] = vlib.float_to_pair(vlib.pair_to_float(c["dtmax"]) * rng.uniform(0.05, 0.6))
            c["acc"] = "local"
            cases.append(c)
        if solver in ("rk45", "rk23"):
            # ... for the one-step solvers (every step of theirs is verified, so the size of the state needs no compensation in
            # the step cap) with a solution that grows to 10^4..10^5: the estimator then asks for less than the minimum step
            for _ in range(max(3, per)):
                tol = 10.0 ** (-rng.uniform(4, 8))
                c = ivpgen.accuracy_case(rng, solver, ["grow"], tol, dim=1, span=rng.uniform(2.5, 3.5))
                amp = rng.choice([100.0, 1000.0])
                c["y0"] = [ivpgen.cpair(amp * vlib.pair_to_float(z[0])) for z in c["y0"]]
                c["dtmin"] = vlib.float_to_pair(vlib.pair_to_float(c["dtmax"]) * rng.uniform(0.3, 0.7))
                c["acc"] = "local"
                cases.append(c)
        if solver in ("adams5", "adams3"):
            # a pure forcing y' = a cos(w t + p) over more than a period: the estimate passes through zero, the step is doubled
            # (history cleared, fresh start-up) and the confirming step is then rejected where the estimate is large again - the
            # state must be rolled back to the start of that start-up, not to an earlier restart point
            for _ in range(max(4, per)):
                tol = 10.0 ** (-rng.uniform(5, 9))
                c = ivpgen.accuracy_case(rng, solver, ["forcing"], tol, dim=1, span=rng.uniform(4.0, 6.5))
                c["acc"] = "local"
                cases.append(c)
        if solver in ("adams5", "adams3"):
            # short intervals (3-9 maximum steps) with a large state, not compensated in the step cap: the start-up block taken
            # at the untested initial step must be confirmed (or rolled back) by a predictor-corrector step before it is yielded
            # unless it reaches the end - the unchanged code stays within 0.3 tol x step on these (1200 cases tried)
            for _ in range(max(10, 2 * per)):
                tol = 10.0 ** (-rng.uniform(3, 8))
                c = ivpgen.accuracy_case(rng, solver, rng.choice([["lin"], ["rot", "lin"]]), tol, dim=rng.randint(1, 2))
                c["t1"] = vlib.float_to_pair(vlib.pair_to_float(c["t0"]) + vlib.pair_to_float(c["dtmax"]) * rng.uniform(3.0, 9.0))
                amp = rng.choice([300.0, 1000.0])
                c["y0"] = [ivpgen.cpair(amp * vlib.pair_to_float(z[0])) for z in c["y0"]]
                c["acc"] = "local"
                cases.append(c)
        # large states: the tolerance is absolute, so it must be met for |y| >> 1 too (linear families, exact flows)
        for amp in (30.0, 1000.0):
            for fam in (["lin"], ["rot", "lin"]):
                for _ in range(max(1, per // 3)):
                    tol = 10.0 ** (-rng.uniform(3, 9))
                    cases.append(ivpgen.accuracy_case(rng, solver, fam, tol, amp=amp))
                    cases[-1]["acc"] = "local"
    return cases


def judge(ctx, cases, conj=CONJ, kl=KL, kg=KG, tag="c02"):
    for k, c in enumerate(cases):
        c["id"] = k + 1
    byid = {c["id"]: c for c in cases}
    events = ivpcommon.harness_runs(ctx, cases, nproc=12)
    stats = ivpcommon.run_stats(events)
    events = [e for e in events if e["ev"] in ("reset", "item", "end")]
    shards = ivpcommon.shard_events(events, 12)
    viols = ivpcommon.validate(ctx, events, "Val_IvpAccuracy", tag=tag, nshards=12, env={"VH_KL": kl, "VH_KLB": KLB, "VH_KG": kg})
    ctx.traces += len(stats)
    worst = ctx.notes.setdefault("worst_ratio_per_solver_milli", {})
    for cid, lr, gr, n in ctx.notes.pop("_stat", []):
        s = byid[cid]["solver"]
        w = worst.setdefault(s, [0, 0])
        w[0] = max(w[0], lr)
        w[1] = max(w[1], gr)
    ctx.notes.setdefault("runs_with_error", 0)
    for cid, st in stats.items():
        c = byid[cid]
        if st["err"]:
            ctx.notes["runs_with_error"] += 1
        # estimator in control: at least half of the steps shorter than the cap is approximated by
        # items > 1.5 * span/dtmax
        span = vlib.pair_to_float(c["t1"]) - vlib.pair_to_float(c["t0"])
        dtmax = vlib.pair_to_float(c["dtmax"])
        ctx.count_case(ivpcommon.case_brief(c), st["items"] >= 1.5 * span / dtmax and st["err"] is None)
    for c in cases[:: max(1, len(cases) // 4)][:4]:
        st = stats[c["id"]]
        ctx.sample({"case": ivpcommon.case_brief(c), "items": st["items"], "calls": st["calls"], "err": st["err"]})
    for ev, names, _ in viols:
        c = byid[ev["c"]]
        for name in names:
            if name in conj:
                ctx.violation(c["solver"], name, ivpcommon.case_brief(c), {"event": vlib.decode(ev)})
    return stats


def run(ctx):
    rng = random.Random(ctx.seed)
    cases = gen(ctx, rng, 3 if ctx.tier == "quick" else 16)
    judge(ctx, cases)
    ctx.rule = ("6 adaptive solvers x 7 closed-form families x dimension 1-4 x tol 1e-3..1e-10, dtmax = min(0.5, bound of the "
                "property's precondition); every consecutive pair judged; a path is non-trivial when it has more than 1.5x the "
                "number of steps the cap alone would give (estimator in control) and completed")
    ctx.assumptions += ["closed-form flows written in IvpMethods.tla (checked by TLC against their right-hand sides in MC_IvpMethods)",
                        "KL = %d is calibrated (>= 4x the worst ratio seen over seeds), not derived" % KL,
                        "exp/sin/cos of java.lang.Math used only under the tolerance"]


def replay(ctx, body):
    c = dict(body["case"], budget=3000000, extra_next=2, max_items=200000, snaps=False, evals=False, work=False)
    c.setdefault("acc", "local")
    c.setdefault("pair", "")
    judge(ctx, [c])
