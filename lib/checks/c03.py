"""C03 - each yielded IVP point is a step of the advertised numerical method.
E3 with action disambiguation: paths of all seven solvers on generic non-linear non-autonomous
right-hand sides are validated by TLC (Val_IvpMethods) against the literature formulas written
in IvpMethods.tla (Fehlberg 4(5), Bogacki-Shampine 3(2), RK4, AB/AM pairs in PEC mode with the
19/270 estimate, BDF2/BDF6 residual at the new time, Euler)."""
import random

import ivpcommon
import ivpgen
import vlib

LEVEL = "model_checking"


def gen(ctx, rng, per_solver):
    cases = []
    for solver in ivpgen.SOLVERS:
        for _ in range(per_solver):
            dim = rng.randint(1, 4)
            rhs, y0 = ivpgen.generic_system(rng, dim)
            t0 = rng.choice([0.0, rng.uniform(-1, 1)])
            if solver == "euler":
                dtmax = rng.uniform(0.002, 0.05)
                span = dtmax * rng.uniform(0.5, 120)
                dtmin, tol = dtmax, 1e-3
            else:
                dtmax = rng.uniform(0.02, 0.3)
                span = rng.uniform(0.2, 1.5)
                dtmin = dtmax * 10.0 ** (-rng.randint(3, 8))
                tol = 10.0 ** (-rng.uniform(3, 9))
            if rng.random() < 0.3:
                # a forcing that switches on sharply near the end: the solution rests, then the right-hand side at the
                # new time differs from the one at the old time by far more than the tolerance
                rhs = ivpgen.add_switch_on(rng, rhs, t0 + span)
                tol = max(tol, 1e-6)
            cases.append(ivpgen.base_case(0, solver, dim, t0, t0 + span, dtmin, dtmax, tol, rhs, y0,
                                          max_items=300, budget=300000, min_first=rng.random() < 0.5))
        for _ in range(0 if solver == "euler" else max(8, per_solver // 3)):
            # ... and a solution that is at rest until the forcing switches on (no other forcing, zero initial state, steps
            # at the maximum length): the implicit equation's residual at the old state is below the tolerance at the old
            # time and far above it at the new one
            dim = rng.randint(1, 3)
            rhs, y0 = ivpgen.generic_system(rng, dim)
            z = ivpgen.fp(0.0)
            rhs["delta"] = [z] * dim
            rhs["eps"] = [z] * dim
            y0 = [ivpgen.cpair(0.0)] * dim
            t0 = rng.choice([0.0, rng.uniform(-1, 1)])
            dtmax = rng.uniform(0.05, 0.2)
            span = dtmax * rng.uniform(8, 30)
            kappa = rng.uniform(3.0, 8.0) / dtmax
            tol = 10.0 ** (-rng.uniform(3, 5))
            rhs = ivpgen.add_switch_on(rng, rhs, t0 + span)
            for i in range(dim):
                if rhs["eta"][i] != z:
                    rhs["kappa"][i] = ivpgen.fp(kappa)
                    rhs["tc"][i] = ivpgen.fp(t0 + span - rng.uniform(0.5, 3.0) / kappa)
            cases.append(ivpgen.base_case(0, solver, dim, t0, t0 + span, dtmax * 1e-6, dtmax, tol, rhs, y0,
                                          max_items=300, budget=300000, min_first=False))
    return cases


def judge(ctx, cases):
    for k, c in enumerate(cases):
        c["id"] = k + 1
    byid = {c["id"]: c for c in cases}
    events = ivpcommon.harness_runs(ctx, cases)
    # discard runs whose solution leaves |y| <= 10 (the family is only meant to be used where it is tame)
    wild = set()
    for e in events:
        if e["ev"] == "item" and any(abs(vlib.pair_to_float(z[0])) > 10 for z in e["y"]):
            wild.add(e["c"])
    events = [e for e in events if e["c"] not in wild and e["ev"] in ("reset", "item")]
    res = []
    viols = ivpcommon.validate(ctx, events, "Val_IvpMethods", tag="c03")
    stats = ivpcommon.run_stats(events)
    acts = {}
    for cid, st in stats.items():
        ctx.count_case(ivpcommon.case_brief(byid[cid]), st["items"] >= 3)
    ctx.traces += len(stats)
    ctx.notes["runs_discarded_as_wild"] = len(wild)
    for c in cases[:: max(1, len(cases) // 4)][:4]:
        if c["id"] in stats:
            ctx.sample({"case": ivpcommon.case_brief(c), "items": stats[c["id"]]["items"]})
    for ev, conj, _ in viols:
        c = byid[ev["c"]]
        for name in conj:
            ctx.violation(c["solver"], name, ivpcommon.case_brief(c), {"event": vlib.decode(ev)})
    return stats


def run(ctx):
    rng = random.Random(ctx.seed)
    m = vlib.tlc("MC_IvpMethods", cfg="Gen.cfg", timeout=300)
    ctx.add_tlc(m, e1=True)
    cases = gen(ctx, rng, 80 if ctx.tier == "quick" else 1500)
    judge(ctx, cases)
    ctx.rule = ("7 solvers x seeded generic non-linear non-autonomous systems (dimension 1-4) x random configurations, paths "
                "capped at 300 points; every point judged; a run is non-trivial with >= 3 points; distinct by full input record")
    ctx.assumptions += ["method constants transcribed from the literature in IvpMethods.tla, self-checked by TLC (order "
                        "conditions, weight sums, BDF exactness) in MC_IvpMethods",
                        "equality up to 1e-10*(1+|y|); tolerance comparisons with 1e-6 relative slack; BDF residual <= 20*tol",
                        "sin() of Java vs Rust may differ by an ulp (covered by the 1e-10 allowance)"]


def replay(ctx, body):
    judge(ctx, [dict(body["case"], budget=300000, extra_next=2, max_items=300, snaps=False, evals=False, work=False)])
