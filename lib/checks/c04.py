"""C04 - IVP solutions converge to the true solution as tolerance or step shrinks; complex problems;
dynamic vs static dimension.
E3: TLC (Val_IvpAccuracy) evaluates the closed-form solution at every yielded time and requires
|y - Exact(t)| <= KG*tol*G (x number of steps for BDF), G = max(L, (e^{lip L}-1)/lip); Euler against the
classical first-order bound with M estimated by TLC along the exact solution; complex linear problems
against their complex closed form; dynamic-dimension runs item by item against the static run."""
import random

import ivpcommon
import ivpgen
import vlib
from checks import c02

LEVEL = "exploration"
CONJ = {"global_error_within_constant_times_tolerance", "euler_error_within_first_order_bound",
        "dynamic_dimension_reproduces_static_solution", "complex_solved_as_accurately_as_equivalent_real_system"}
FAMS = [["lin"], ["rot", "lin"], ["tv"], ["logistic", "recip"], ["forcing", "relax"]]


def stable(key):
    """seed derived from a key without Python's per-process string hashing"""
    import zlib
    return zlib.crc32(repr(key).encode())


def gen(ctx, rng, rungs, nfam, ncx, npair):
    cases = []
    ladder_all = [3, 4, 5, 6, 7, 8, 9, 10]
    for solver in ivpgen.ADAPTIVE:
        for fam in FAMS[:nfam]:
            st = rng.getstate()
            picks = sorted(rng.sample(ladder_all, rungs))
            for e in picks:
                rng2 = random.Random(stable((ctx.seed, solver, tuple(fam))))
                c = ivpgen.accuracy_case(rng2, solver, fam, 10.0 ** (-e))   # same problem on every rung
                c["acc"] = "global"
                cases.append(c)
        for _ in range(ncx):
            c = ivpgen.accuracy_case(rng, solver, None, 10.0 ** (-rng.uniform(3, 9)), dim=rng.randint(1, 2), cx=True)
            c["acc"] = "global"
            cases.append(c)
    # complex problem versus its equivalent real system, same (loose) step bounds: the error control, not the step
    # cap, has to deliver the accuracy in both
    for solver in ivpgen.ADAPTIVE:
        for j in range(ncx + 1):
            d = 2 if j == 0 else rng.randint(1, 2)
            same = (d == 2 and j % 2 == 0)        # equal rates, initial components in phase quadrature
            lams = []
            for k in range(d):
                lams.append(lams[0] if (same and k) else (rng.uniform(-0.6, 0.2), rng.uniform(0.8, 3.0) * rng.choice([-1, 1])))
            u = complex(rng.uniform(0.5, 1.5), rng.uniform(-0.5, 0.5))
            y0c = [u, u * 1j] if same else [complex(rng.uniform(0.5, 1.5), rng.uniform(-1, 1)) for _ in range(d)]
            span = rng.uniform(1.0, 3.0)
            dtmax = rng.uniform(0.2, 0.5)
            tol = 10.0 ** (-rng.uniform(6, 9)) if solver not in ("bdf2",) else 10.0 ** (-rng.uniform(5, 7))
            t0 = 0.0
            cb = {"fam": "blocks", "blocks": [{"k": "clin", "p": [vlib.float_to_pair(a), vlib.float_to_pair(b), vlib.float_to_pair(0.0), vlib.float_to_pair(0.0)]} for a, b in lams]}
            rb = {"fam": "blocks", "blocks": [{"k": "rot", "p": [vlib.float_to_pair(a), vlib.float_to_pair(b)]} for a, b in lams]}
            rate = max((a * a + b * b) ** 0.5 for a, b in lams)
            ra = ivpgen.base_case(0, solver, 2 * d, t0, t0 + span, dtmax * 1e-7, dtmax, tol, rb,
                                  [ivpgen.cpair(v) for z in y0c for v in (z.real, z.imag)], lip=vlib.float_to_pair(rate), acc="twin", pair="RA",
                                  budget=3000000, max_items=200000)
            cbc = ivpgen.base_case(0, solver, d, t0, t0 + span, dtmax * 1e-7, dtmax, tol, cb,
                                   [ivpgen.cpair(z.real, z.imag) for z in y0c], cx=True, lip=vlib.float_to_pair(rate), acc="twin", pair="CB",
                                   budget=3000000, max_items=200000)
            cases += [ra, cbc]
    # Euler step ladders
    for fam in FAMS[:nfam]:
        rng2 = random.Random(stable((ctx.seed, "euler", tuple(fam))))
        base = ivpgen.accuracy_case(rng2, "euler", fam, 1e-3, span=rng2.uniform(0.5, 1.5))
        for dt in (0.02, 0.01, 0.005, 0.0025)[:rungs + 1]:
            c = dict(base)
            c["dtmax"] = vlib.float_to_pair(dt)
            c["dtmin"] = vlib.float_to_pair(dt)
            c["acc"] = "global"
            cases.append(c)
    # static / dynamic pairs (all seven solvers)
    for solver in ivpgen.SOLVERS:
        for _ in range(npair):
            a = ivpgen.accuracy_case(rng, solver, rng.choice(FAMS), 10.0 ** (-rng.uniform(3, 7)))
            if solver == "euler":
                a["dtmax"] = vlib.float_to_pair(0.01)
            a["acc"] = "global"
            a["pair"] = "A"
            b = dict(a)
            b["pair"] = "B"
            b["dyn"] = True
            cases += [a, b]
    return cases


def run(ctx):
    rng = random.Random(ctx.seed)
    if ctx.tier == "quick":
        cases = gen(ctx, rng, 3, 5, 1, 1)
    else:
        cases = gen(ctx, rng, 8, 5, 8, 6)
    c02.judge(ctx, cases, conj=CONJ, tag="c04")
    ctx.rule = ("7 solvers x closed-form families in dimension 1-4 x tolerance ladders (step ladders for Euler) with dtmax tied to "
                "the tolerance as in C02, + complex linear problems, + static/dynamic pairs; every item judged; a run is non-trivial "
                "when the estimator is in control (as in C02) and it completed")
    ctx.assumptions += ["closed-form solutions in IvpMethods.tla / Val_IvpAccuracy.tla; lip is a declared constant of the generated problem",
                        "KG = %d calibrated, not derived; Euler's second-derivative bound M estimated by TLC on the step grid" % c02.KG]


def replay(ctx, body):
    c = dict(body["case"], budget=3000000, extra_next=2, max_items=200000, snaps=False, evals=False, work=False)
    if c.get("pair") in ("RA", "CB"):
        # rebuild the twin: real rot blocks <-> complex clin blocks
        blocks = c["rhs"]["blocks"]
        if c["pair"] == "CB":
            cb = dict(c)
            ra = dict(c, pair="RA", cx=False, dim=2 * c["dim"],
                      rhs={"fam": "blocks", "blocks": [{"k": "rot", "p": b["p"][:2]} for b in blocks]},
                      y0=[[z[k], vlib.float_to_pair(0.0)] for z in c["y0"] for k in (0, 1)])
        else:
            ra = dict(c)
            ys = c["y0"]
            cb = dict(c, pair="CB", cx=True, dim=c["dim"] // 2,
                      rhs={"fam": "blocks", "blocks": [{"k": "clin", "p": b["p"] + [vlib.float_to_pair(0.0)] * 2} for b in blocks]},
                      y0=[[ys[2 * k][0], ys[2 * k + 1][0]] for k in range(c["dim"] // 2)])
        c02.judge(ctx, [ra, cb], conj=CONJ, tag="c04")
    elif c.get("pair") in ("A", "B"):
        a = dict(c, pair="A", dyn=False)
        b = dict(c, pair="B", dyn=True)
        c02.judge(ctx, [a, b], conj=CONJ, tag="c04")
    else:
        c02.judge(ctx, [c], conj=CONJ, tag="c04")
