"""C04 - IVP solutions converge to the true solution as tolerance or step shrinks; complex problems;
dynamic vs static dimension.
E3: TLC (Val_IvpAccuracy) evaluates the closed-form solution at every yielded time and requires
|y - Exact(t)| <= KG*tol*G (x number of steps for BDF), G = max(L, (e^{lip L}-1)/lip); Euler against the
classical first-order bound with M estimated by TLC along the exact solution; complex linear problems
against their complex closed form; dynamic-dimension runs item by item against the static run."""
import random

import ivpcommon
import ivpgen
import vlib
from checks import c02

LEVEL = "exploration"
CONJ = {"global_error_within_constant_times_tolerance", "euler_error_within_first_order_bound",
        "dynamic_dimension_reproduces_static_solution"}
FAMS = [["lin"], ["rot", "lin"], ["tv"], ["logistic", "recip"], ["forcing", "relax"]]


def gen(ctx, rng, rungs, nfam, ncx, npair):
    cases = []
    ladder_all = [3, 4, 5, 6, 7, 8, 9, 10]
    for solver in ivpgen.ADAPTIVE:
        for fam in FAMS[:nfam]:
            st = rng.getstate()
            picks = sorted(rng.sample(ladder_all, rungs))
            for e in picks:
                rng2 = random.Random(hash((ctx.seed, solver, tuple(fam))) & 0xFFFFFF)
                c = ivpgen.accuracy_case(rng2, solver, fam, 10.0 ** (-e))   # same problem on every rung
                c["acc"] = "global"
                cases.append(c)
        for _ in range(ncx):
            c = ivpgen.accuracy_case(rng, solver, None, 10.0 ** (-rng.uniform(3, 9)), dim=rng.randint(1, 2), cx=True)
            c["acc"] = "global"
            cases.append(c)
    # Euler step ladders
    for fam in FAMS[:nfam]:
        rng2 = random.Random(hash((ctx.seed, "euler", tuple(fam))) & 0xFFFFFF)
        base = ivpgen.accuracy_case(rng2, "euler", fam, 1e-3, span=rng2.uniform(0.5, 1.5))
        for dt in (0.02, 0.01, 0.005, 0.0025)[:rungs + 1]:
            c = dict(base)
            c["dtmax"] = vlib.float_to_pair(dt)
            c["dtmin"] = vlib.float_to_pair(dt)
            c["acc"] = "global"
            cases.append(c)
    # static / dynamic pairs (all seven solvers)
    for solver in ivpgen.SOLVERS:
        for _ in range(npair):
            a = ivpgen.accuracy_case(rng, solver, rng.choice(FAMS), 10.0 ** (-rng.uniform(3, 7)))
            if solver == "euler":
                a["dtmax"] = vlib.float_to_pair(0.01)
            a["acc"] = "global"
            a["pair"] = "A"
            b = dict(a)
            b["pair"] = "B"
            b["dyn"] = True
            cases += [a, b]
    return cases


def run(ctx):
    rng = random.Random(ctx.seed)
    if ctx.tier == "quick":
        cases = gen(ctx, rng, 3, 5, 1, 1)
    else:
        cases = gen(ctx, rng, 8, 5, 8, 6)
    c02.judge(ctx, cases, conj=CONJ, tag="c04")
    ctx.rule = ("7 solvers x closed-form families in dimension 1-4 x tolerance ladders (step ladders for Euler) with dtmax tied to "
                "the tolerance as in C02, + complex linear problems, + static/dynamic pairs; every item judged; a run is non-trivial "
                "when the estimator is in control (as in C02) and it completed")
    ctx.assumptions += ["closed-form solutions in IvpMethods.tla / Val_IvpAccuracy.tla; lip is a declared constant of the generated problem",
                        "KG = %d calibrated, not derived; Euler's second-derivative bound M estimated by TLC on the step grid" % c02.KG]


def replay(ctx, body):
    c = dict(body["case"], budget=3000000, extra_next=2, max_items=200000, snaps=False, evals=False, work=False)
    if c.get("pair") in ("A", "B"):
        a = dict(c, pair="A", dyn=False)
        b = dict(c, pair="B", dyn=True)
        c02.judge(ctx, [a, b], conj=CONJ, tag="c04")
    else:
        c02.judge(ctx, [c], conj=CONJ, tag="c04")
