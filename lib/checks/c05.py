"""C05 - adaptive IVP solvers finish smooth problems with order-appropriate work.
E1 supplies the protocol half (termination for every verdict sequence, MinimumTimeDeltaExceeded only
below the minimum step: MC_IvpProtocol, shared with C01). E3: the derivative closure counts calls and
enforces a hard budget; TLC (Val_Ivp) requires completion without error, end exactly at the end time,
and evaluates the work bound KW*(L/dtmax + L*tol^(-1/p)) + 200 on every completed run."""
import math
import random

import ivpcommon
import ivpgen
import vlib

LEVEL = "exploration"
CONJ = {"completes_without_error", "terminates_within_budget", "work_within_order_bound", "ends_exactly_at_end_time",
        "no_panic", "valid_configuration_builds"}
P = {"rk45": 4, "rk23": 2, "adams5": 4, "adams3": 2, "bdf6": 5, "bdf2": 1}


def gen(ctx, rng, per_solver):
    cases = []
    for solver in ivpgen.ADAPTIVE:
        for k in range(per_solver):
            dim = rng.randint(1, 4)
            dtmax = rng.uniform(0.05, 0.5)
            span = rng.uniform(1.0, 8.0)
            t0 = rng.choice([0.0, rng.uniform(-2, 2)])
            kinds = [["rest"], ["relax", "rest"], ivpgen.SMOOTH_KINDS][k % 3] if k % 3 < 2 else ivpgen.SMOOTH_KINDS
            rhs, y0, lip = ivpgen.system(rng, dim, span, t0, kinds=kinds)
            tol = 10.0 ** (-rng.uniform(3, 9))
            if solver in ("bdf2",) and tol < 1e-7:
                tol = 10.0 ** (-rng.uniform(3, 7))     # first-order estimator: keep the budget finite
            dtmin = dtmax * 10.0 ** (-rng.randint(6, 9))
            cases.append(ivpgen.base_case(0, solver, dim, t0, t0 + span, dtmin, dtmax, tol, rhs, y0, work=True,
                                          budget=3000000, max_items=2000000, min_first=(k % 2 == 1)))
        # long easy stretches at a loose tolerance: the step cap, not the estimator, sets the work, and the controller
        # keeps asking for more than the cap (what it does with the step then decides the work; round 8)
        for k in range(3):
            dim = rng.randint(1, 3)
            dtmax = rng.uniform(0.05, 0.1)
            span = rng.uniform(20.0, 40.0)
            rhs, y0, lip = ivpgen.system(rng, dim, span, 0.0, kinds=["relax", "rest"])
            cases.append(ivpgen.base_case(0, solver, dim, 0.0, span, dtmax * 1e-9, dtmax, 10.0 ** (-rng.uniform(3, 3.5)), rhs, y0,
                                          work=True, budget=3000000, max_items=2000000))
        # hard starts: the first trial step is far too long for the tolerance (violent first rejections)
        for k in range(max(2, per_solver // 3)):
            dim = rng.randint(1, 3)
            span = rng.uniform(1.0, 4.0)
            rhs, y0, lip = ivpgen.system(rng, dim, span, 0.0, kinds=["lin", "rot", "forcing"])
            tol = 10.0 ** (-rng.uniform(7.5, 9)) if solver != "bdf2" else 10.0 ** (-rng.uniform(5.5, 7))
            dtmax = rng.uniform(0.3, 0.5)
            cases.append(ivpgen.base_case(0, solver, dim, 0.0, span, dtmax * 1e-8, dtmax, tol, rhs, y0, work=True,
                                          budget=3000000, max_items=2000000))
        # solutions at rest at the origin (state identically zero) and at rest with zero right-hand side
        for k in range(2):
            dim = rng.randint(1, 3)
            span = rng.uniform(1.0, 6.0)
            if k == 0:
                blocks = [{"k": "lin", "p": [vlib.float_to_pair(rng.uniform(-2, -0.2)), vlib.float_to_pair(0.0)]} for _ in range(dim)]
                y0 = [ivpgen.cpair(0.0) for _ in range(dim)]
            else:
                blocks = [{"k": "zero", "p": []} for _ in range(dim)]
                y0 = [ivpgen.cpair(rng.uniform(-1, 1)) for _ in range(dim)]
            dtmax = rng.uniform(0.05, 0.5)
            cases.append(ivpgen.base_case(0, solver, dim, 0.0, span, dtmax * 1e-7, dtmax, 10.0 ** (-rng.uniform(3, 9)),
                                          {"fam": "blocks", "blocks": blocks}, y0, work=True, budget=3000000, max_items=2000000))
    return cases


def slivers(rng, cases, times, per_solver):
    """second pass: the end time is moved to just beyond a point the solver lands on by itself, so that the clipped
    final step is a sliver far shorter than the minimum step (it must simply be taken: the run is finished)"""
    out = []
    for solver in ivpgen.ADAPTIVE:
        pool = [c for c in cases if c["solver"] == solver and len(times.get(c["id"], [])) >= 5]
        rng.shuffle(pool)
        for c in pool[:per_solver]:
            ts = times[c["id"]]
            tk = ts[rng.randint(1, len(ts) - 2)]
            dtmax = vlib.pair_to_float(c["dtmax"])
            dtmin = dtmax * 10.0 ** (-rng.randint(5, 7))
            t1 = tk + dtmin * rng.uniform(0.02, 0.2)
            if not t1 > tk:
                continue
            n = dict(c)
            n.update(t1=vlib.float_to_pair(t1), dtmin=vlib.float_to_pair(dtmin), sliver=True)
            out.append(n)
    return out


def judge(ctx, cases, base=0):
    for k, c in enumerate(cases):
        c["id"] = base + k + 1
    byid = {c["id"]: c for c in cases}
    events = ivpcommon.harness_runs(ctx, cases, nproc=12)
    times = {}
    for e in events:
        if e["ev"] == "item":
            times.setdefault(e["c"], []).append(vlib.pair_to_float(e["t"]))
    stats = ivpcommon.run_stats(events)
    # the validator only needs times: drop state vectors of items except dimension
    slim = []
    for e in events:
        if e["ev"] == "item":
            e = dict(e)
        slim.append(e)
    viols = ivpcommon.validate(ctx, slim, "Val_Ivp", tag="c05", nshards=12)
    ratios = []
    for cid, st in stats.items():
        c = byid[cid]
        L = vlib.pair_to_float(c["t1"]) - vlib.pair_to_float(c["t0"])
        dtmax = vlib.pair_to_float(c["dtmax"])
        tol = vlib.pair_to_float(c["tol"])
        scale = L / dtmax + L * tol ** (-1.0 / P[c["solver"]])
        nontrivial = tol ** (-1.0 / P[c["solver"]]) * dtmax >= 4
        ctx.count_case(ivpcommon.case_brief(c), nontrivial and st["err"] is None)
        ratios.append((st["calls"] / scale, c["solver"], st["calls"], st["items"]))
    ctx.traces += len(stats)
    worst = {}
    for r, s, calls, items in ratios:
        if r > worst.get(s, (0,))[0]:
            worst[s] = (round(r, 2), calls, items)
    old = ctx.notes.get("worst_work_ratio_per_solver", {})
    for k2, v in old.items():
        if k2 not in worst or tuple(v)[0] > worst[k2][0]:
            worst[k2] = tuple(v)
    ctx.notes["worst_work_ratio_per_solver"] = worst
    for c in cases[:: max(1, len(cases) // 4)][:4]:
        st = stats[c["id"]]
        ctx.sample({"case": ivpcommon.case_brief(c), "items": st["items"], "calls": st["calls"], "err": st["err"]})
    for ev, conj, _ in viols:
        c = byid[ev["c"]]
        for name in conj:
            if name in CONJ:
                ctx.violation(c["solver"], name, ivpcommon.case_brief(c), {"event": vlib.decode(ev)})
    return times


def run(ctx):
    rng = random.Random(ctx.seed)
    cases = gen(ctx, rng, 12 if ctx.tier == "quick" else 80)
    times = judge(ctx, cases)
    sl = slivers(rng, cases, times, 8 if ctx.tier == "quick" else 60)
    judge(ctx, sl, base=len(cases))
    ctx.notes["sliver_final_step_cases"] = len(sl)
    ctx.rule = ("6 adaptive solvers x smooth block systems (incl. solutions at rest and relaxing) x tol 1e-3..1e-9 x dtmin <= 1e-6 dtmax; "
                "a run is non-trivial when tol^(-1/p)*dtmax >= 4 (the estimator, not the step cap, sets the work) and it completed; plus 3 long easy stretches per solver (span 20-40, tol 1e-3..1e-3.5, dtmin = 1e-9 dtmax) where the step cap sets the work; second pass: "
                "the same problems with the end moved to 0.02-0.2 dtmin beyond a point the solver lands on (sliver final step)")
    ctx.assumptions += ["work bound constant KW = 100 is wide by design: it separates 10^3-fold defects from honest variation",
                        "termination / MinimumTimeDeltaExceeded-only-below-minimum for every verdict sequence is model-checked in "
                        "MC_IvpProtocol (run by the C01 check)"]


def replay(ctx, body):
    judge(ctx, [dict(body["case"], budget=3000000, extra_next=2, max_items=2000000, snaps=False, evals=False, work=True)])
