"""C06 - IVP builders validate input; user errors end iteration exactly once.
E1: TLC model-checks the builder contract (IvpBuilder) over all call sequences in scope (MC_IvpBuilder);
    the fault half of the protocol (UserFail at every evaluating step) is part of MC_IvpProtocol.
E2: every generated call sequence (Gen_IvpBuilder: preamble x calls x solve) is replayed on all seven real
    builders; TLC (Val_IvpBuilder) compares every call's outcome with the contract.
E3: derivative functions failing at call k for every k of a reference run; TLC (Val_Ivp) requires exactly
    one Err item carrying that error, then only None; also through collect_vec."""
import random

import ivpcommon
import ivpgen
import vlib

LEVEL = "model_checking"
FAULT_CONJ = {"at_most_one_error_then_nothing", "err_item_carries_the_user_error", "user_error_is_surfaced",
              "no_item_after_end_or_error", "no_panic", "valid_configuration_builds"}


def builders(ctx):
    r = vlib.e1(ctx, "MC_IvpBuilder", "MC_IvpBuilder", ["Call", "DoSolve"], workers=4, timeout=600)
    ctx.notes["e1_builder"] = {"module": "MC_IvpBuilder", "distinct_states": r.distinct,
                               "invariants": "MinNeverAboveMax EndAfterStart OnlyPositiveStored ErrorsAreDedicated"}
    p = ctx.path("builder-cases.ndjson")
    maxlen = 2 if ctx.tier == "quick" else 3
    g = vlib.tlc("Gen_IvpBuilder", cfg="Gen.cfg", env={"VH_CASES": p, "VH_MAXLEN": maxlen}, timeout=900, xmx="8g")
    ctx.add_tlc(g)
    rows = vlib.read_ndjson(p)
    cases = []
    rng = random.Random(ctx.seed)
    for r_ in rows:
        solvers = ivpgen.SOLVERS if ctx.tier == "quick" else rng.sample(ivpgen.SOLVERS, 2)
        for s in solvers:
            c = dict(r_)
            c["solver"] = s
            cases.append(c)
    judge_builders(ctx, cases)
    return len(cases)


def judge_builders(ctx, cases):
    for k, c in enumerate(cases):
        c["id"] = k + 1
    byid = {c["id"]: c for c in cases}
    events = ivpcommon.harness_runs(ctx, cases, tag="bld", task="ivp-builders", nproc=12)
    viols = ivpcommon.validate(ctx, events, "Val_IvpBuilder", tag="bld", nshards=12)
    ctx.traces += len(cases)
    for c in cases:
        calls = c["calls"]
        bad_value = any(x["call"] in ("tol", "max", "min") and x["v"] <= 0 for x in calls)
        order_dep = len([x for x in calls if x["call"] in ("min", "max")]) >= 2 or len([x for x in calls if x["call"] in ("t0", "t1")]) >= 2
        ctx.count_case({k: c[k] for k in ("solver", "static", "ctor", "calls")}, bad_value or order_dep or c["static"] != (c["ctor"] == "new"))
    for c in cases[:: max(1, len(cases) // 3)][:3]:
        ctx.sample({k: c[k] for k in ("solver", "static", "ctor", "calls")})
    for ev, names, _ in viols:
        c = byid[ev["c"]]
        for name in names:
            ctx.violation(c["solver"] + "-builder", name, {k: c[k] for k in ("id", "solver", "static", "ctor", "size", "calls")},
                          {"event": vlib.decode(ev)})


def faults(ctx):
    rng = random.Random(ctx.seed + 77)
    per = 2 if ctx.tier == "quick" else 6
    cap = 40 if ctx.tier == "quick" else 300
    refs = []
    for solver in ivpgen.SOLVERS:
        for _ in range(per):
            dim = rng.randint(1, 3)
            t0 = 0.0
            if solver == "euler":
                dtmax, span, dtmin, tol = 0.05, rng.uniform(0.3, 2.0), 0.05, 1e-3
            else:
                dtmax = rng.uniform(0.05, 0.3)
                span = rng.uniform(0.3, 3.0)
                dtmin = dtmax * 1e-6
                tol = 10.0 ** (-rng.uniform(3, 7))
            rhs, y0, _ = ivpgen.system(rng, dim, span, t0, kinds=["lin", "rot", "logistic", "forcing", "rough"])
            refs.append(ivpgen.base_case(0, solver, dim, t0, t0 + span, dtmin, dtmax, tol, rhs, y0))
    for k, c in enumerate(refs):
        c["id"] = k + 1
    ev = ivpcommon.harness_runs(ctx, refs, tag="ref")
    st = ivpcommon.run_stats(ev)
    cases = []
    for c in refs:
        n = st[c["id"]]["calls"]
        ks = list(range(1, n + 1))
        if len(ks) > cap:
            ks = ks[: cap // 2] + sorted(rng.sample(ks[cap // 2:], cap // 2))
        for j, k in enumerate(ks):
            f = dict(c)
            f["fail_at"] = k
            f["collect"] = (j % 3 == 2)
            f["extra_next"] = 3
            cases.append(f)
    for k, c in enumerate(cases):
        c["id"] = k + 1
    byid = {c["id"]: c for c in cases}
    events = ivpcommon.harness_runs(ctx, cases, tag="flt")
    viols = ivpcommon.validate(ctx, events, "Val_Ivp", tag="flt")
    ctx.traces += len(cases)
    for c in cases:
        ctx.count_case(ivpcommon.case_brief(c), c["fail_at"] >= 2)
    for c in cases[:: max(1, len(cases) // 2)][:2]:
        ctx.sample({"fault_case": ivpcommon.case_brief(c)})
    for e, names, _ in viols:
        c = byid[e["c"]]
        for name in names:
            if name in FAULT_CONJ:
                ctx.violation(c["solver"], name, ivpcommon.case_brief(c), {"event": vlib.decode(e), "collect": c["collect"]})
    return len(cases)


def run(ctx):
    nb = builders(ctx)
    nf = faults(ctx)
    ctx.notes["builder_sequences_replayed"] = nb
    ctx.notes["fault_runs"] = nf
    ctx.exhaustive = False
    ctx.rule = ("builders: all call sequences of Gen_IvpBuilder (9 preambles x all sequences of <= 2 (quick) / 3 (thorough) calls over "
                "a 19-call alphabet of valid/zero/negative/reversed values x solve, 4 constructor/dimension combinations) on the seven "
                "builders; non-trivial = contains a non-positive value, two order-dependent calls, or a dimension misuse. "
                "faults: derivative failing at call k for every k (capped) of a reference run, with 3 more next() calls, every third "
                "through collect_vec; non-trivial = k >= 2")
    ctx.assumptions += ["Euler's with_tolerance no-op is conforming (DESIGN §4 readings)",
                        "stored-parameter mismatches with the model are reported as drift, not as violations"]


def replay(ctx, body):
    case = body["case"]
    if "calls" in case:
        judge_builders(ctx, [dict(case)])
    else:
        c = dict(case, budget=400000, extra_next=3, max_items=20000, snaps=False, evals=False, work=False)
        c["id"] = 1
        events = ivpcommon.harness_runs(ctx, [c], tag="flt")
        viols = ivpcommon.validate(ctx, events, "Val_Ivp", tag="flt")
        ctx.count_case(ivpcommon.case_brief(c), True)
        ctx.count_case({"replay": 1}, True)
        ctx.traces += 1
        for e, names, _ in viols:
            for name in names:
                if name in FAULT_CONJ:
                    ctx.violation(c["solver"], name, ivpcommon.case_brief(c), {"event": vlib.decode(e)})
