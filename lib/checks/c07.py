"""C07 - bracketing root finders return a root inside the bracket and terminate.
E1: lattice designs of bisection (MC_Bisect, IEEE signed zeros as function values), of ITP (MC_ItpP: any trial point the projection
    step admits) and of Brent (MC_Brent: the code's formulas, and ANY interpolated point) are model-checked against the contract:
    abscissae inside, sign change kept, iteration bounds, result near the root.
E3 design level: every abscissa of every real brent() and bisection() run is reproduced bit for bit by the same modules
    (Brent, Bisect) instantiated over doubles (Trace_Brent, Trace_Bisect); every abscissa of every real itp() run must be a
    point the abstract design ItpP admits in its current state (Trace_Itp, a refinement check).
E2: TLC (Gen_C07) enumerates dyadic lattice brackets x root positions x tolerances x sign x solver.
E3: seeded functions with known root sets (polynomial, exponential, trigonometric, flat near the root, several roots),
    brackets in either order / asymmetric / far from zero, tol 1e-12..1e-2, ITP parameters over and just outside their
    ranges. Every run (abscissae seen by the function, evaluation count, result) is judged by TLC against module Bracket."""
import math
import os
import random

import fncommon
import vlib
from vlib import float_to_pair as fp

LEVEL = "model_checking"


def seeded(ctx, rng, n):
    cases = []
    for k in range(n):
        solver = ["bisection", "brent", "itp"][k % 3]
        shift = rng.choice([0.0, 0.0, rng.uniform(-5, 5), 1000.0, -1000.0])
        # sign and magnitude of the function: tiny / huge amplitudes make products of two values under/overflow
        sg = rng.choice([1.0, -1.0]) * rng.choice([1.0, 1.0, 1.0, 1e-170, 1e-200, 1e160])
        kind = rng.choice(["poly", "poly", "exp", "sin", "flat", "flat"])
        if kind == "poly":
            m = rng.randint(1, 4)
            rs = sorted(set(round(shift + rng.uniform(-3, 3), 3) for _ in range(m)))
            f = {"k": "poly", "p": [fp(sg)] + [fp(r) for r in rs]}
            inside = rng.choice(rs)
            left = [r for r in rs if r < inside]
            right = [r for r in rs if r > inside]
            lo_lim = left[-1] if left else inside - 4
            hi_lim = right[0] if right else inside + 4
            # bracket holding an odd number of roots: just the chosen one, or three
            a = inside - rng.uniform(0.05, 0.95) * (inside - lo_lim)
            b = inside + rng.uniform(0.05, 0.95) * (hi_lim - inside)
        elif kind == "exp":
            c = math.exp(rng.uniform(-2, 2))
            f = {"k": "exp", "p": [fp(sg), fp(c)]}
            root = math.log(c)
            a, b = root - rng.uniform(0.1, 3), root + rng.uniform(0.1, 3)
        elif kind == "sin":
            w = rng.uniform(0.5, 3)
            f = {"k": "sin", "p": [fp(sg), fp(w)]}
            kk = rng.randint(-3, 3)
            root = kk * math.pi / w
            a, b = root - rng.uniform(0.1, 0.9) * math.pi / w, root + rng.uniform(0.1, 0.9) * math.pi / w
        else:
            r = shift + rng.uniform(-2, 2)
            f = {"k": "flat", "p": [fp(sg if abs(sg) <= 1.0 else math.copysign(1.0, sg)), fp(r), fp(float(rng.choice([3, 5, 9, 21])))]}
            a, b = r - rng.uniform(0.1, 2), r + rng.uniform(0.1, 2)
        mode = rng.random()
        if mode < 0.15:           # same-sign ends: both on one side of the root(s)
            b = a - rng.uniform(0.05, 0.5) if kind != "poly" else a - 0.5 * (a - lo_lim) * rng.uniform(0.1, 0.9)
        if rng.random() < 0.4 and solver != "bisection" or (solver == "bisection" and rng.random() < 0.1):
            a, b = b, a             # reversed order
        tol = 10.0 ** (-rng.uniform(2, 12))
        if abs(shift) >= 1000:
            tol = max(tol, 1e-9)   # absolute tolerance cannot go below the spacing of doubles near 1000
        k1, k2, n0 = rng.uniform(0.05, 1.0), rng.uniform(1.05, 2.6), float(rng.choice([0, 1, 2]))
        if rng.random() < 0.3:
            # k_2 = 2 is the documented value, and the only kind for which x^k_2 is defined for a negative x: the powers
            # of the signed width (right - left) then do not turn into NaN for decreasing functions
            k2 = 2.0
            k1 = 10.0 ** (-rng.uniform(0.5, 3))
        r = rng.random()
        if r < 0.05:
            tol = -tol
        elif solver == "itp" and r < 0.10:
            k1 = -0.5
        elif solver == "itp" and r < 0.15:
            k2 = rng.choice([1.0, 0.5, 2.7])
        elif solver == "itp" and r < 0.19:
            n0 = -float(rng.choice([1, 3]))
        cases.append({"solver": solver, "a": fp(a), "b": fp(b), "tol": fp(tol), "n_max": 400, "k1": fp(k1), "k2": fp(k2), "n0": fp(n0),
                      "f": f, "budget": 5000})
    # an end point whose value is already below the tolerance while the function has a knee: s (exp(x) - c) with small c is
    # almost flat (-c) on the far side and crosses zero steeply on the scale of its values; the end next to the root is
    # placed where |f| = theta * tol.  Brent's loop then never runs and what it returns is decided by its exit code alone.
    for k in range(max(30, n // 12)):
        solver = ["brent", "brent", "itp", "bisection"][k % 4]
        c = math.exp(rng.uniform(-3.5, -0.5))
        sg = rng.choice([1.0, -1.0])
        tol = 10.0 ** (-rng.uniform(3, 8))
        root = math.log(c)
        theta = rng.uniform(0.35, 0.95)
        near = root + rng.choice([1.0, 1.0, -1.0]) * theta * tol / c
        far = root - rng.uniform(1.5, 4.0) if near > root else root + rng.uniform(0.5, 2.0)
        a, b = (far, near) if far < near else (near, far)
        if solver != "bisection" and rng.random() < 0.5:
            a, b = b, a
        cases.append({"solver": solver, "a": fp(a), "b": fp(b), "tol": fp(tol), "n_max": 400, "k1": fp(0.2), "k2": fp(2.0), "n0": fp(1.0),
                      "f": {"k": "exp", "p": [fp(sg), fp(c)]}, "budget": 5000})
    return cases


def brief(c):
    return {k: c[k] for k in ("id", "solver", "a", "b", "tol", "n_max", "k1", "k2", "n0", "f", "budget") if k in c}


def judge(ctx, cases):
    for k, c in enumerate(cases):
        c["id"] = k + 1
    rows = fncommon.observe(ctx, "bracket", cases, "brk", nproc=8)
    slim = []
    for r in rows:
        r2 = dict(r)
        r2["evals"] = r["evals"][:3]
        slim.append(r2)
    viols = fncommon.validate(ctx, slim, "Val_C07", "brk", nshards=12)
    # design level: every abscissa of every real brent() run against module Brent over doubles (drift, not a violation)
    keys = ("id", "solver", "a", "b", "tol", "n_max", "k1", "k2", "n0", "evals", "n", "ret", "x")
    for solver, module in (("brent", "Trace_Brent"), ("bisection", "Trace_Bisect"), ("itp", "Trace_Itp")):
        brows = [{k: r[k] for k in keys} for r in rows if r["solver"] == solver]
        if not brows:
            continue
        ndrift = len(ctx.drift)
        fncommon.validate(ctx, brows, module, "dl" + solver, nshards=6)
        ctx.traces -= len(brows)            # counted once, above
        st = [x for x in ctx.notes.pop("_stat", []) if x and x[0] == solver + "_runs_explained"]
        for key, v in (("validated_against_design", len(brows)), ("explained_bit_for_bit", sum(x[1] for x in st)),
                       ("drifted", len(ctx.drift) - ndrift)):
            ctx.notes["%s_runs_%s" % (solver, key)] = ctx.notes.get("%s_runs_%s" % (solver, key), 0) + v
    for c, r in zip(cases, rows):
        ctx.count_case(brief(c), r["n"] >= 5 and r["ret"] == "ok")
    for c, r in list(zip(cases, rows))[:: max(1, len(cases) // 3)][:3]:
        ctx.sample({"case": brief(c), "ret": r["ret"], "x": r["x"], "n": r["n"], "abscissae": r["evals"][:6]})
    for row, payload in viols:
        for conj in payload:
            ctx.violation(row["solver"], conj, brief(row), {"ret": row["ret"], "x": vlib.decode(row["x"]), "n": row["n"],
                                                             "xmin": vlib.decode(row["xmin"]), "xmax": vlib.decode(row["xmax"])})


def run(ctx):
    rng = random.Random(ctx.seed)
    try:
        vlib.e1(ctx, "MC_Bisect", "Bisect", ["Begin", "Iter", "GiveUp"], workers=4, timeout=900)
        vlib.e1(ctx, "MC_ItpP", "ItpP", ["Begin", "Step", "Finish"], workers=4, timeout=900, xmx="6g")
        vlib.e1(ctx, "MC_Brent", "Brent", ["Begin", "First", "Iter", "Exit"], workers=4, timeout=900)
        # any interpolated point: lattice of 16 units on every change, of 24 in the thorough tier
        cfgp = os.path.join(vlib.SPEC, "MC_Brent_any_run.cfg")
        open(cfgp, "w").write(open(os.path.join(vlib.SPEC, "MC_Brent_any.cfg")).read().replace("W = 24", "W = %d" % (16 if ctx.tier == "quick" else 24)))
        try:
            vlib.e1(ctx, "MC_Brent", "Brent", ["Begin", "First", "Iter", "Exit"], cfg="MC_Brent_any_run.cfg", workers=6, timeout=1500, xmx="8g")
        finally:
            os.remove(cfgp)
    except vlib.ToolError:
        raise
    cases = fncommon.gen_tlc(ctx, "Gen_C07", "c07")
    n = len(cases)
    cases += seeded(ctx, rng, 1500 if ctx.tier == "quick" else 15000)
    judge(ctx, cases)
    ctx.notes["lattice_cases"] = n
    ctx.rule = ("lattice: 3 solvers x ordered pairs of dyadic ends x root positions x tolerances 2^-4..2^-30 x increasing/decreasing, + "
                "three-root polynomials; seeded: polynomial / exponential / sine / flat functions with known root sets, either bracket order, "
                "shifted by up to 1000, tol 1e-12..1e-2, same-sign ends, invalid tolerance / ITP parameters, knee functions with an end point "
                "whose value is already below the tolerance; "
                "non-trivial = Ok result after >= 5 evaluations")
    ctx.assumptions += ["root sets of the catalogue written in Bracket.tla; ends generated away from roots",
                        "tolerance slack 1e-9 relative + 8 ulp; evaluation bounds: halvings+5 (bisection), +n0 (ITP), (halvings+2)^2+10 (Brent)"]


def replay(ctx, body):
    c = dict(body["case"])
    judge(ctx, [c, c])
