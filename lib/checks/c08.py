"""C08 - Newton-type iterations converge to the nearby root on regular problems.
E2: TLC (Gen_C08) enumerates all integer affine systems A(x-r) in small scope (non-singular and singular) with roots
and starts on a lattice including the origin and the root itself, for Newton and secant.
E3: seeded systems A(x-r)+eps*g(x-r) of dimension 1-4, polynomials of degree 1-8 from separated roots (Newton, Muller),
contractive maps for Steffensen down to tol 1e-13, exhausted iteration caps, singular systems.
TLC (Val_C08) judges every run against the contract Iterative (cap respected, finite result, distance to the root /
residual within tolerance, Err for singular systems)."""
import cmath
import math
import random

import fncommon
import vlib
from checks import c11
from vlib import float_to_pair as fp

LEVEL = "exploration"


def fv(xs):
    return [fp(x) for x in xs]


def systems(rng, n):
    cases = []
    for k in range(n):
        dim = rng.randint(1, 4)
        method = rng.choice(["newton", "secant"])
        A = [[(rng.choice([-1, 1]) * rng.randint(8, 16) / 4.0) if i == j else rng.randint(-2, 2) / 4.0 for j in range(dim)] for i in range(dim)]
        shape = rng.random()
        if dim >= 2 and shape < 0.25:
            # strongly non-symmetric, well conditioned: a rotation-like block / a shear
            A = [[0.0] * dim for _ in range(dim)]
            for i in range(dim):
                A[i][(i + 1) % dim] = rng.choice([-1.0, 1.0]) * rng.randint(4, 8) / 4.0      # cyclic permutation matrix, scaled
        elif dim >= 2 and shape < 0.45:
            A = [[(1.0 if i == j else (rng.randint(4, 16) / 4.0 if j > i else 0.0)) for j in range(dim)] for i in range(dim)]   # upper shear
        small = dim >= 2 and rng.random() < 0.2
        if small:
            # a well-conditioned matrix of small overall size: its determinant scales like size^dim and says nothing
            # about solvability (affine systems only: with so small a linear part the eps-terms would dominate)
            sz = rng.choice([0.1, 0.03, 0.3])
            A = [[sz * (2.0 if i == j else (1.0 if abs(i - j) == 1 else 0.0)) for j in range(dim)] for i in range(dim)]
        scale = rng.choice([0.0, 1.0, 1.0, 1000.0]) if not small else rng.choice([0.0, 1.0])
        r = [scale * rng.uniform(-1, 1) if scale else 0.0 for _ in range(dim)]
        eps = rng.choice([0.0, 0.1]) if not small else 0.0
        g = rng.choice(["sq", "sin"]) if eps else "none"
        mode = rng.random()
        regular, singular = True, False
        if mode < 0.15:
            start = list(r)                                   # start exactly on the root
        elif mode < 0.3 and eps == 0.0:
            start = [0.0] * dim                               # affine from the origin
        elif mode < 0.4 and eps == 0.0:
            start = [rng.uniform(-50, 50) for _ in range(dim)]  # affine from anywhere
        else:
            start = [ri + rng.uniform(-0.3, 0.3) for ri in r]
        n_max = 200
        tol = 10.0 ** (-rng.uniform(3, 10))
        if scale == 1000.0:
            tol = max(tol, 1e-9)
        if mode > 0.93 and dim >= 2 and eps == 0.0:
            A[1] = list(A[0])                                 # singular
            regular, singular = False, True
        elif mode > 0.88 and eps > 0:
            n_max = rng.choice([1, 2])                        # exhausted cap: may be Err, never a wrong Ok
            start = [ri + rng.uniform(2, 3) for ri in r]
            regular = False
        h = 10.0 ** (-rng.uniform(2, 5))
        cases.append({"method": method, "dim": dim, "A": [fv(row) for row in A], "r": fv(r), "eps": fp(eps), "g": g,
                      "start": fv(start), "tol": fp(tol), "n_max": n_max, "h": fp(h), "budget": 20000,
                      "regular": regular, "singular": singular})
    # starts on (nearly) the sphere through the root: the first step of a curved system lands a few hundredths from the root
    # and at (nearly) the start's distance from the origin - the norm of the iterate barely changes while the iterate does;
    # convergence must be judged on the step, not on the change of the norm
    for k in range(max(250, n // 4)):
        dim = rng.randint(2, 4)
        A = [[(rng.choice([-1, 1]) * rng.randint(8, 16) / 4.0) if i == j else rng.randint(-2, 2) / 4.0 for j in range(dim)] for i in range(dim)]
        r = [rng.uniform(-1, 1) for _ in range(dim)]
        nr = math.sqrt(sum(v * v for v in r))
        if nr < 0.3:
            continue
        r = [v * rng.uniform(0.7, 1.5) / nr for v in r]
        i, j = rng.sample(range(dim), 2)
        th = rng.uniform(0.3, 0.5) * rng.choice([-1, 1])
        start = list(r)
        start[i] = math.cos(th) * r[i] - math.sin(th) * r[j]
        start[j] = math.sin(th) * r[i] + math.cos(th) * r[j]
        sc = 1.0 + rng.uniform(-0.02, 0.02)
        start = [v * sc for v in start]
        cases.append({"method": "newton", "dim": dim, "A": [fv(row) for row in A], "r": fv(r), "eps": fp(0.1), "g": rng.choice(["sq", "sin"]),
                      "start": fv(start), "tol": fp(rng.choice([1e-3, 3e-4])), "n_max": 200, "h": fp(1e-3), "budget": 20000,
                      "regular": True, "singular": False})
    return cases


def expand(roots):
    c = [1 + 0j]
    for r in roots:
        c = [0j] + c
        for k in range(len(c) - 1):
            c[k] -= r * c[k + 1]
    return c


def polys(rng, n):
    cases = []
    for k in range(n):
        cx = rng.random() < 0.5
        deg = rng.randint(1, 8)
        roots = []
        tries = 0
        flat = rng.random() < 0.2
        if flat:
            # many simple real roots a few tenths apart: the polynomial is flat at its roots (|p'| of 1e-3..1e-1), so a
            # small residual does not mean a point close to a root
            cx = False
            deg = rng.randint(6, 8)
            gap = rng.uniform(0.2, 0.3)
            x0 = rng.uniform(-1.0, 0.0)
            roots = [complex(x0 + gap * q, 0.0) for q in range(deg)]
        while len(roots) < deg and tries < 10000:
            tries += 1
            z = complex(rng.uniform(-3, 3), rng.uniform(-3, 3) if cx else 0.0)
            if all(abs(z - w) >= 0.5 for w in roots):
                roots.append(z)
        coefs = expand(roots)
        lead = rng.choice([1.0, 2.0, -0.5])
        coefs = [c * lead for c in coefs]
        conj_case = (not cx) and rng.random() < 0.35 and deg >= 2
        if conj_case:
            # real-coefficient polynomial with a conjugate pair, solved in complex arithmetic from a start on the
            # vertical line through the pair (the Newton step is then purely imaginary)
            pair = complex(rng.uniform(-2, 2), rng.uniform(0.5, 2.5))
            others = [r for r in roots if abs(r - pair) >= 0.5 and abs(r - pair.conjugate()) >= 0.5][: deg - 2]
            roots = [pair, pair.conjugate()] + others
            coefs = expand(roots)
            cx = True
        target = roots[0] if conj_case else rng.choice(roots)
        sep = min([abs(target - w) for w in roots if w != target] or [2.0])
        method = rng.choice(["newton_polynomial", "muller_polynomial"])
        tol = 10.0 ** (-rng.uniform(4, 10))
        if flat:
            tol = 10.0 ** (-rng.uniform(4, 6))
        def near(f):
            ang = rng.uniform(0, 2 * math.pi)
            d = f * sep * rng.random()
            return target + (cmath.rect(d, ang) if cx else complex(d * rng.choice([-1, 1]), 0))
        regular = True
        if conj_case:
            method = "newton_polynomial"
        if method == "newton_polynomial":
            # Newton converges to a simple root z from |z0 - z| < d / (2n - 1), d = distance to the nearest other root
            safe = 0.9 / (2 * len(roots) - 1) if len(roots) > 1 else 0.5
            start = [near(safe)]
            if conj_case:
                start = [target + complex(0, rng.choice([-1, 1]) * safe * sep * rng.uniform(0.5, 1.0))]
            if rng.random() < 0.1:
                start = [target]               # exactly on the root
        else:
            start = [near(0.3), near(0.2), near(0.1)]
            if len({s for s in start}) < 3:
                start = [target + 0.3 * sep, target + 0.2 * sep, target + 0.1 * sep]
        cz = lambda z: c11.cz(z.real, z.imag)
        cases.append({"method": method, "dim": 1, "cx": cx, "coefs": [cz(c) for c in coefs], "start": [cz(s) for s in start],
                      "root": cz(target), "roots": [cz(w) for w in roots], "tol": fp(tol), "n_max": 500, "budget": 0,
                      "regular": regular, "singular": False})
    return cases


def steff(rng, n):
    fixed = {"cos": 0.7390851332151607, "expm": 0.5671432904097838, "heron": 2 ** 0.5, "sinhalf": 1.4987011335178482,
             "affine": 4.0, "quad": (3 - 5 ** 0.5) / 2, "logshift": 1.1461932206205825, "sin09": None}
    # fixed point of 0.9 sin x + 0.3 by plain iteration
    x = 1.0
    for _ in range(3000):
        x = 0.9 * math.sin(x) + 0.3
    fixed["sin09"] = x
    cases = []
    for k in range(n):
        g = rng.choice(sorted(fixed))
        tol = 10.0 ** (-rng.uniform(3, 13))
        start = fixed[g] + rng.uniform(-0.3, 0.3)
        if rng.random() < 0.1:
            start = fixed[g]
        cases.append({"method": "steffensen", "dim": 1, "g": g, "gp": [fp(0.0), fp(0.0)], "start": [fp(start)], "tol": fp(tol), "n_max": 200,
                      "budget": 0, "regular": True, "singular": False})
    # affine maps s x + c: Aitken's formula is exact on them, so the first step lands within rounding of the fixed
    # point from any start and the following passes work on differences of a few ulps
    for k in range(n):
        slope = rng.choice([0.5, 0.5, 0.75, 0.9, 0.25, -0.5, -0.9, 0.99, rng.uniform(-0.95, 0.95)])
        fx = rng.choice([2.0, 1.0, -3.0, rng.uniform(-5, 5)])
        icpt = fx * (1 - slope)
        start = fx + rng.uniform(-3, 3)
        tol = 10.0 ** (-rng.uniform(3, 13))
        cases.append({"method": "steffensen", "dim": 1, "g": "affp", "gp": [fp(slope), fp(icpt)], "start": [fp(start)], "tol": fp(tol),
                      "n_max": 200, "budget": 0, "regular": True, "singular": False})
    return cases


def brief(c):
    return {k: v for k, v in c.items() if k not in ("obs",)}


def judge(ctx, groups):
    """groups: list of lists of cases with homogeneous record shape (TLC reads each group separately)"""
    total = 0
    for gi, cases in enumerate(groups):
        if not cases:
            continue
        for k, c in enumerate(cases):
            c["id"] = total + k + 1
        total += len(cases)
        rows = fncommon.observe(ctx, "iter", cases, "it%d" % gi, nproc=4)
        slim = [dict(r, obs={k: v for k, v in r["obs"].items() if k not in ("calls", "gevals")}) for r in rows]
        viols = fncommon.validate(ctx, slim, "Val_C08", "it%d" % gi, nshards=8)
        # design level (drift, not a violation): the closure calls of the real newton() runs against module NewtonP over
        # doubles (each pass: f then jac at the current iterate; the next iterate satisfies the Newton equation; the loop
        # ends exactly when the step is within the tolerance)
        # ... and of the real secant() runs against Broyden's method in its defining form (SecantP: central-difference matrix,
        # B s = -f, forward rank-one update), while the code keeps the inverse and updates it by Sherman-Morrison
        for meth, module in (("newton", "Trace_Newton"), ("secant", "Trace_Secant")):
            nrows = [{"id": r["id"], "method": r["method"], "dim": r["dim"], "start": r["start"], "h": r.get("h", r["tol"]), "tol": r["tol"],
                      "n_max": r["n_max"], "obs": r["obs"]} for r in rows if r["method"] == meth]
            if not nrows:
                continue
            ndrift = len(ctx.drift)
            fncommon.validate(ctx, nrows, module, "dl%s%d" % (meth, gi), nshards=8)
            ctx.traces -= len(nrows)
            st = [x for x in ctx.notes.get("_stat", []) if x and x[0] == meth + "_runs_explained"]
            ctx.notes["_stat"] = [x for x in ctx.notes.get("_stat", []) if not (x and x[0] == meth + "_runs_explained")]
            for key, v in (("validated_against_design", len(nrows)), ("explained", sum(x[1] for x in st)),
                           ("set_aside", sum(x[3] for x in st)), ("drifted", len(ctx.drift) - ndrift)):
                ctx.notes["%s_runs_%s" % (meth, key)] = ctx.notes.get("%s_runs_%s" % (meth, key), 0) + v
        # design level (drift, not a violation): every evaluation of the map and the returned number of the real
        # steffensen() runs against module Steffensen over doubles
        srows = [{"id": r["id"], "method": r["method"], "start": r["start"], "tol": r["tol"], "n_max": r["n_max"], "obs": r["obs"]}
                 for r in rows if r["method"] == "steffensen"]
        if srows:
            ndrift = len(ctx.drift)
            fncommon.validate(ctx, srows, "Trace_Steffensen", "dlst%d" % gi, nshards=4)
            ctx.traces -= len(srows)
            st = [x for x in ctx.notes.pop("_stat", []) if x and x[0] == "steffensen_runs_explained"]
            for key, v in (("validated_against_design", len(srows)), ("explained_bit_for_bit", sum(x[1] for x in st)),
                           ("drifted", len(ctx.drift) - ndrift)):
                ctx.notes["steffensen_runs_%s" % key] = ctx.notes.get("steffensen_runs_%s" % key, 0) + v
        for c, r in zip(cases, rows):
            start_is_root = c.get("start") == c.get("r")
            ctx.count_case(brief(c), not start_is_root and (c["dim"] >= 2 or r["obs"]["nf"] >= 3 or c["method"].endswith("polynomial")))
        for c in cases[:: max(1, len(cases) // 2)][:2]:
            ctx.sample(brief(c))
        for row, payload in viols:
            for conj in payload:
                ctx.violation(row["method"], conj, brief(row), {"obs": vlib.decode(row["obs"])})


def run(ctx):
    rng = random.Random(ctx.seed)
    vlib.e1(ctx, "MC_Steffensen", "Steffensen", ["Begin", "Pass"], workers=2, timeout=600)
    vlib.e1(ctx, "MC_NewtonP", "NewtonP", ["Begin", "Iter", "SolveFail", "GiveUp"], workers=2, timeout=600)
    vlib.e1(ctx, "MC_SecantP", "SecantP", ["Begin", "Iter", "GiveUp"], workers=2, timeout=600)
    affine = fncommon.gen_tlc(ctx, "Gen_C08", "c08")
    n = 1 if ctx.tier == "quick" else 8
    judge(ctx, [affine + systems(rng, 800 * n), polys(rng, 400 * n), steff(rng, 200 * n)])
    ctx.notes["exhaustive_affine_cases"] = len(affine)
    ctx.rule = ("TLC: all affine systems with entries in {-2,0,1} (thorough -2..2) of dimension 1-2 and a family of dimension 3, roots and "
                "starts in {-2,0,1}^d, Newton and secant, singular ones included; seeded: diagonally dominant systems + eps*(square | sin-id), "
                "roots at 0 / O(1) / O(1000), starts on the root, at the origin, far away (affine) or within 0.3, exhausted caps, singular; "
                "polynomials of degree 1-8 from roots with separation >= 0.5 (Newton, Muller); 6 contractions for Steffensen, tol to 1e-13; "
                "non-trivial = start differs from the root and (dimension >= 2 or >= 3 function calls)")
    ctx.assumptions += ["K = 8 on the distance to the root, 64 on residuals: calibrated, not derived",
                        "regularity (unique nearby root, start in the convergence region) is a declared attribute of the generated instance"]


def replay(ctx, body):
    c = dict(body["case"])
    judge(ctx, [[c, dict(c)]])
