"""C09 - adaptive quadrature results are within tolerance of the true integral.
E1: SimpsonStack (all accept/split verdict trees to depth 3/4: pending + accepted panels tile the interval, each frame
    stores its own panel's estimate, level bound), GaussStop (two-consecutive-agreement rule over every verdict sequence),
    Romberg (module RombergP over exact rationals: exact up to degree 2n-1 and not beyond, 2^(n-1)+1 evaluations), and the
    textbook recursion as work reference.
E3 design level: real-valued runs of integrate_simpson, integrate_fixed and the five Gaussian integrators are reproduced bit
    for bit (abscissae, verdicts, returned value) by SimpsonStack's own actions, RombergP and GaussStop + the shipped tables
    over doubles (Trace_Simpson, Trace_Romberg, Trace_Gauss); tanh-sinh runs by TanhSinhStop + the shipped table (Trace_TanhSinh).
E3: seeded runs of the eight routines with a recording integrand; TLC (Val_C09, module Quad) compares with closed-form
    (weighted) integrals, checks error cases, abscissae inside the interval, Romberg exactness on polynomials of degree
    <= 2n-1, and adaptive Simpson's work against the textbook recursion run by TLC on the same input."""
import math
import os
import random

import fncommon
import vlib
from checks import c11
from vlib import float_to_pair as fp

LEVEL = "exploration"
KQ = 8
INTERVAL = ["tanhsinh", "legendre", "simpson", "romberg"]
WEIGHTED = ["laguerre", "hermite", "chebyshev", "chebyshev_second"]


def integrand(rng, routine, cx, span, xmax=1.0, tol=1e-3):
    """integrands of the classes where the routines' estimators are reliable; polynomial coefficients are scaled so
    that the integral stays O(10): with an absolute tolerance down to 1e-11, rounding in the sums of a rule must stay
    below the tolerance for the two-consecutive-rules test to be able to pass at all"""
    r = rng.random()
    # Gauss-Legendre stops at the first of its twelve rules that agrees with its predecessor twice in a row, so the
    # ten-point rule must already be within tol: for an oscillation a sin(w x) over a span L its error is about
    # 4 a (wL/2)^20 / 20!, which bounds the admissible w L by the tolerance (found by the sweep: w L = 7.9 at
    # tol 1.3e-11 ends in Err, rightly)
    wl_leg = min(8.0, 2.0 * (abs(tol) * 2.0e17) ** 0.05)

    def poly(deg, scale):
        return {"k": "poly", "c": [c11.cz(rng.uniform(-2, 2) * scale(k), (rng.uniform(-2, 2) * scale(k)) if cx else 0.0) for k in range(deg + 1)], "p": []}
    if routine == "simpson" and r < 0.5:
        return poly(rng.randint(0, 5), lambda k: max(1.0, xmax) ** (-k)), True
    if cx and routine in ("tanhsinh", "legendre") and r < 0.75:
        # real part easy, imaginary part hard: a stopping rule that looks at one component only stops too early
        easy = {"k": "poly", "c": [c11.cz(rng.uniform(-2, 2)), c11.cz(rng.uniform(-1, 1) / max(1.0, xmax))], "p": []}
        # up to ~4 periods over the interval for tanh-sinh (385 nodes); twelve Gauss-Legendre rules resolve about one
        lim = 25.0 if routine == "tanhsinh" else wl_leg
        w = min(rng.uniform(2.0, lim / max(span, 0.05)), lim)
        hard = {"k": "sin", "c": [c11.cz(0.0)], "p": [fp(rng.uniform(1, 3)), fp(w), fp(rng.uniform(0, 6.28))]}
        parts = (easy, hard) if rng.random() < 0.7 else (hard, easy)
        return {"k": "mix", "c": [c11.cz(0.0)], "p": [], "re": parts[0], "im": parts[1]}, True
    if r < 0.35:
        if routine == "laguerre":
            return poly(rng.randint(0, 10), lambda k: 1.0 / math.factorial(k)), True
        if routine == "hermite":
            return poly(rng.randint(0, 16), lambda k: 1.0 / math.factorial(k // 2)), True
        if routine in WEIGHTED:
            return poly(rng.randint(0, 14), lambda k: 1.0), True
        return poly(rng.randint(0, 12), lambda k: max(1.0, xmax) ** (-k)), True
    if cx and r < 0.6 and routine in INTERVAL:
        w = min(rng.uniform(0.5, (wl_leg if routine == "legendre" else 8.0) / max(span, 0.05)), 20.0)
        return {"k": "cis", "c": [c11.cz(0.0)], "p": [fp(rng.uniform(0.5, 2)), fp(w), fp(rng.uniform(0, 6.28))]}, True
    if r < 0.7:
        if routine in INTERVAL:
            c = rng.uniform(-1, 1) * min(4.0 / max(span, 0.05), 1.0)
            amp = rng.uniform(0.5, 2) * math.exp(-abs(c) * xmax)       # keep a e^{cx} O(1) on the interval
        elif routine == "laguerre":
            c, amp = rng.uniform(-0.8, 0.3), rng.uniform(0.5, 2)
        else:
            c, amp = rng.uniform(-1.0, 1.0), rng.uniform(0.5, 2)
        if abs(c) < 0.05:
            c = 0.3
        return {"k": "exp", "c": [c11.cz(0.0)], "p": [fp(amp), fp(c)]}, True
    if routine in INTERVAL:
        w = rng.uniform(0.3, min((wl_leg if routine == "legendre" else 8.0) / max(span, 0.05), 20.0))
    elif routine == "laguerre":
        w = rng.uniform(0.1, 0.5)
    else:
        w = rng.uniform(0.3, 2.0)
    return {"k": "sin", "c": [c11.cz(0.0)], "p": [fp(rng.uniform(0.5, 2)), fp(w), fp(rng.uniform(0, 6.28))]}, True


def gen(ctx, rng, n):
    cases = []
    for k in range(n):
        routine = (INTERVAL + WEIGHTED)[k % 8]
        cx = rng.random() < 0.3
        a = rng.uniform(-5, 4.9)
        span = math.exp(rng.uniform(math.log(0.05), math.log(4.0)))
        b = min(5.0, a + span)
        span = b - a
        tol = 10.0 ** (-rng.uniform(3, 11))
        nrom = rng.randint(1, 7)
        if routine == "simpson" and rng.random() < 0.3:
            # many panels: long interval and tight tolerance, where the per-panel tolerance schedule matters
            a = rng.uniform(-3, 0)
            b = a + rng.uniform(2.5, 4.0)
            span = b - a
            tol = 10.0 ** (-rng.uniform(8, 11))
        if routine == "romberg":
            deg = rng.randint(0, 2 * nrom - 1)
            a, b = float(rng.randint(-3, 2)), 0.0
            b = a + rng.choice([1.0, 2.0, 0.5, 3.0])
            f = {"k": "poly", "c": [c11.cz(float(rng.randint(-3, 3)), float(rng.randint(-2, 2)) if cx else 0.0) for _ in range(deg + 1)], "p": []}
            must = True
        else:
            f, must = integrand(rng, routine, cx, span if routine in INTERVAL else 0.0, max(abs(a), abs(b)), tol)
        if routine == "simpson" and span > 2.4 and tol < 1e-7:
            deg = rng.choice([4, 5])
            f = {"k": "poly", "c": [c11.cz(rng.uniform(-2, 2) * max(1.0, abs(a), abs(b)) ** (-k), 0.0) for k in range(deg + 1)], "p": []}
            cx = False
        if routine in ("legendre", "tanhsinh") + tuple(WEIGHTED) and rng.random() < 0.12:
            # an integrand that vanishes at the node of the one-point rule (interval midpoint; 1 for Laguerre; 0 for the
            # others): the first area is exactly 0 = the initial "previous area", which must not count as an agreement
            x1 = 0.5 * (a + b) if routine in INTERVAL else (1.0 if routine == "laguerre" else 0.0)
            m = rng.choice([1, 2, 2])
            q = [rng.uniform(0.5, 2) * rng.choice([-1, 1]), rng.uniform(-1, 1) / max(1.0, abs(a), abs(b))]
            base = [1.0]
            for _ in range(m):
                base = [(base[k - 1] if k > 0 else 0.0) - x1 * (base[k] if k < len(base) else 0.0) for k in range(len(base) + 1)]
            co = [0.0] * (len(base) + 1)
            for i2, bv in enumerate(base):
                co[i2] += bv * q[0]
                co[i2 + 1] += bv * q[1]
            f = {"k": "poly", "c": [c11.cz(v, (0.5 * v) if cx else 0.0) for v in co], "p": []}
            must = True
        if f["k"] in ("cis", "mix"):
            cx = True
        mode = rng.random()
        if routine in INTERVAL and mode < 0.06:
            a, b = b, a                           # reversed
        elif routine in INTERVAL and mode < 0.10:
            b = a                                  # empty
        elif routine != "romberg" and mode < 0.15:
            tol = -tol                             # negative tolerance
        if routine in WEIGHTED:
            tol = (1 if tol > 0 else -1) * 10.0 ** (-rng.uniform(3, 9))
        cases.append({"routine": routine, "cx": cx, "a": fp(a), "b": fp(b), "tol": fp(tol), "n": nrom if routine == "romberg" else 40,
                      "budget": 2000000, "keep": 6000 if not cx else 64, "f": f, "mustok": must,
                      "work": routine == "simpson" and f["k"] != "poly"})
        if routine == "simpson" and rng.random() < 0.1:
            cases[-1]["n"] = rng.choice([2, 3, 5])         # shallow depth limits: the depth error path
            cases[-1]["mustok"] = False
    # Gauss-Hermite on polynomials that only the last rules of its table (24-27 points) integrate exactly: degree 42-49, every
    # even coefficient scaled by its Gaussian moment so that each term contributes O(1) and the two-consecutive-rules test is
    # meaningful; and Gauss-Legendre on very short intervals far from the origin with integrands of size 10^2..10^3, where the
    # tolerance handed to the rule loop (0.25 tol / half-length) is large against rounding only if it is scaled the right way
    for k in range(max(6, n // 100)):
        deg = rng.randint(42, 49)
        co = []
        for q in range(deg + 1):
            mom = math.sqrt(math.pi)
            for j in range(q - 1, 0, -2):
                mom *= j / 2.0
            co.append(c11.cz(rng.uniform(0.5, 2) * rng.choice([-1, 1]) / mom if q % 2 == 0 else rng.uniform(-1, 1) / mom, 0.0))
        cases.append({"routine": "hermite", "cx": False, "a": fp(0.0), "b": fp(1.0), "tol": fp(10.0 ** (-rng.uniform(4, 6))), "n": 40,
                      "budget": 2000000, "keep": 6000, "f": {"k": "poly", "c": co, "p": []}, "mustok": True, "work": False})
    for k in range(max(6, n // 100)):
        a = rng.uniform(3.0, 4.9)
        b = a + rng.uniform(0.03, 0.08)
        cases.append({"routine": "legendre", "cx": False, "a": fp(a), "b": fp(b), "tol": fp(10.0 ** (-rng.uniform(10, 11))), "n": 40,
                      "budget": 2000000, "keep": 6000, "f": {"k": "exp", "c": [c11.cz(0.0)], "p": [fp(rng.uniform(1, 10)), fp(1.0)]},
                      "mustok": True, "work": False})
    # Gauss-Laguerre on polynomials of degree 18-19, which only the last three of its twelve rules integrate exactly (the
    # whole table is needed); Gauss-Chebyshev (both kinds) on fast exponentials at tolerances near 1e-11 and on polynomials of
    # magnitude 1e-3 at tolerances of 1e-4..1e-5 - where an estimate compared on the wrong scale (its square, say) stops early
    for k in range(max(6, n // 100)):
        deg = rng.randint(18, 19)
        co = [c11.cz(rng.uniform(0.5, 2) * rng.choice([-1, 1]) / math.factorial(q), 0.0) for q in range(deg + 1)]
        cases.append({"routine": "laguerre", "cx": False, "a": fp(0.0), "b": fp(1.0), "tol": fp(10.0 ** (-rng.uniform(4, 6))), "n": 40,
                      "budget": 2000000, "keep": 6000, "f": {"k": "poly", "c": co, "p": []}, "mustok": True, "work": False})
    for k in range(max(12, n // 50)):
        routine = rng.choice(["chebyshev", "chebyshev_second"])
        if k % 2 == 0:
            c = rng.uniform(3.0, 5.0) * rng.choice([-1, 1])
            f = {"k": "exp", "c": [c11.cz(0.0)], "p": [fp(rng.uniform(0.5, 2) * math.exp(-abs(c))), fp(c)]}
            tol = 10.0 ** (-rng.uniform(10, 11))
        else:
            deg = rng.randint(2, 8)
            f = {"k": "poly", "c": [c11.cz(1e-3 * rng.uniform(0.5, 2) * rng.choice([-1, 1]), 0.0) for _ in range(deg + 1)], "p": []}
            tol = 10.0 ** (-rng.uniform(4, 5))
        cases.append({"routine": routine, "cx": False, "a": fp(0.0), "b": fp(1.0), "tol": fp(tol), "n": 40,
                      "budget": 2000000, "keep": 6000, "f": f, "mustok": True, "work": False})
    # tanh-sinh on several periods of a sine or on an asymmetric power: the coarse levels are far off and only the
    # level-to-level convergence heuristic decides when to stop (cheap runs, many of them)
    for k in range(n):
        a = rng.uniform(-5, 1)
        b = a + rng.uniform(0.5, 4.0)
        tol = 10.0 ** (-rng.uniform(3, 7))
        if k % 4 == 3:
            deg = rng.randint(5, 9)
            a, b = rng.uniform(-1.0, 0.0), rng.uniform(0.3, 1.0)
            f = {"k": "poly", "c": [c11.cz(0.0)] * deg + [c11.cz(rng.uniform(1, 3) * rng.choice([-1, 1]))], "p": []}
        else:
            w = rng.uniform(6.0, 25.0) / (b - a)
            f = {"k": "sin", "c": [c11.cz(0.0)], "p": [fp(rng.uniform(0.5, 2)), fp(w), fp(rng.uniform(0, 6.28))]}
        cases.append({"routine": "tanhsinh", "cx": False, "a": fp(a), "b": fp(b), "tol": fp(tol), "n": 40, "budget": 2000000,
                      "keep": 6000 if k % 4 == 0 else 64,
                      "f": f, "mustok": True, "work": False})
    return cases


def brief(c):
    return {k: c[k] for k in ("id", "routine", "cx", "a", "b", "tol", "n", "f", "mustok", "work") if k in c}


def judge(ctx, cases):
    for k, c in enumerate(cases):
        c["id"] = k + 1
    rows = fncommon.observe(ctx, "quad", cases, "quad", nproc=8)
    slim = [dict(r, evals=r["evals"][:2]) for r in rows]
    viols = fncommon.validate(ctx, slim, "Val_C09", "quad", nshards=12, env={"VH_KQ": KQ}, timeout=1500)
    # design level (drift, not a violation): the abscissae, verdicts and returned values of the real-valued runs against the
    # model-checked design modules over doubles - SimpsonStack's own stack actions (Trace_Simpson), the Romberg tableau
    # (Trace_Romberg, module RombergP) and the Gaussian stopping rule GaussStop fed from the shipped tables (Trace_Gauss)
    keys = ("id", "routine", "cx", "a", "b", "tol", "n", "evals", "calls", "ret", "val")
    real = [{k: r[k] for k in keys} for r in rows if not r["cx"] and r["calls"] <= len(r["evals"])]
    jobs = []
    srows = [r for r in real if r["routine"] == "simpson"]
    for nmax in sorted(set(r["n"] for r in srows)):
        jobs.append(("simpson", [r for r in srows if r["n"] == nmax], "Trace_Simpson", {"VH_NMAX": nmax}))
    jobs.append(("romberg", [r for r in real if r["routine"] == "romberg"], "Trace_Romberg", {}))
    gauss = [r for r in real if r["routine"] in ("legendre",) + tuple(WEIGHTED)]
    if gauss:
        tab = ctx.path("tables.ndjson")
        vlib.vh("tables", tab)
        for fam in ("legendre",) + tuple(WEIGHTED):
            jobs.append(("gauss", [r for r in gauss if r["routine"] == fam], "Trace_Gauss", {"VH_FAMILY": fam, "VH_TABLES": tab}))
    ts = [r for r in real if r["routine"] == "tanhsinh"]
    if ts:
        tab = ctx.path("tables.ndjson")
        vlib.vh("tables", tab)
        jobs.append(("tanhsinh", ts, "Trace_TanhSinh", {"VH_TABLES": tab}))
    for kind, grp, module, env in jobs:
        if not grp:
            continue
        ndrift = len(ctx.drift)
        fncommon.validate(ctx, grp, module, "dl" + kind + str(env.get("VH_NMAX", env.get("VH_FAMILY", ""))), nshards=4, env=env, timeout=1500)
        ctx.traces -= len(grp)          # counted once, above
        st = [x for x in ctx.notes.pop("_stat", []) if x and x[0] == kind + "_runs_explained"]
        for key, v in (("validated_against_design", len(grp)), ("explained_bit_for_bit", sum(x[1] for x in st)),
                       ("drifted", len(ctx.drift) - ndrift)):
            ctx.notes["%s_runs_%s" % (kind, key)] = ctx.notes.get("%s_runs_%s" % (kind, key), 0) + v
    for c, r in zip(cases, rows):
        ctx.count_case(brief(c), r["ret"] == "ok" and r["calls"] >= 7)
    for c, r in list(zip(cases, rows))[:: max(1, len(cases) // 3)][:3]:
        ctx.sample({"case": brief(c), "ret": r["ret"], "val": r["val"], "calls": r["calls"], "abscissae": [e[0] for e in r["evals"][:5]]})
    for row, payload in viols:
        for conj in payload:
            ctx.violation("integrate_" + row["routine"], conj, brief(row), {"ret": row["ret"], "val": vlib.decode(row["val"]), "calls": row["calls"]})


def run(ctx):
    rng = random.Random(ctx.seed)
    cfgp = os.path.join(vlib.SPEC, "MC_SimpsonStack_run.cfg")
    open(cfgp, "w").write(open(os.path.join(vlib.SPEC, "MC_SimpsonStack.cfg")).read().replace("MaxLevel = 3", "MaxLevel = %d" % (3 if ctx.tier == "quick" else 4)))
    try:
        vlib.e1(ctx, "SimpsonStack", "SimpsonStack", ["AcceptV", "SplitV", "Finish"], cfg="MC_SimpsonStack_run.cfg", workers=4, timeout=1200)
    finally:
        os.remove(cfgp)
    vlib.e1(ctx, "MC_GaussStop", "GaussStop", ["RuleV", "Exhausted"], workers=2, timeout=600)
    vlib.e1(ctx, "MC_RombergP", "RombergP", ["Begin", "RowStep", "Finish"], workers=2, timeout=600)
    vlib.e1(ctx, "MC_TanhSinhStop", "TanhSinhStop", ["LevelV", "Exhausted"], workers=2, timeout=600)
    judge(ctx, gen(ctx, rng, 1600 if ctx.tier == "quick" else 16000))
    ctx.rule = ("8 routines x seeded integrands (polynomials, a e^{cx}, a sin(wx+p), a e^{i(wx+p)}) with closed-form integrals, intervals of "
                "length 0.05..4 in [-5,5], tol 1e-11..1e-3, real and complex; reversed / empty intervals and negative tolerances; Romberg on "
                "integer polynomials of degree <= 2n-1; non-trivial = Ok result after >= 7 integrand evaluations")
    ctx.assumptions += ["closed-form integrals (incl. Bessel series) written in Quad.tla; KQ = %d calibrated" % KQ,
                        "tanh-sinh below tol 1e-8: bound KQ*sqrt(tol) (the property's weaker power law)",
                        "adaptive Simpson: hard bound only on polynomials of degree <= 5; work <= 2*textbook evaluations + 8 on the smooth family"]


def replay(ctx, body):
    c = dict(body["case"], budget=2000000, keep=6000)
    judge(ctx, [c, dict(c)])
