"""C10 - every tabulated quadrature rule has its full degree of exactness.
Exhaustive over the data: the harness compiles /repo/src/integrate/tables.rs (include!) and dumps all six tables;
TLC (Val_C10, module QuadTables) expands each row as the integrators consume it and checks point count, distinct
nodes inside the domain, positive weights, all moments 0..2n-1 against closed forms, and every tanh-sinh pair
against the double-exponential formula."""
import fncommon
import vlib

LEVEL = "exploration"
REL_G = "2e-10"      # Hermite, Laguerre (unbounded domains)
REL_B = "1e-12"      # Legendre, Chebyshev of both kinds (bounded domain)
REL_DE = "1e-13"


def run(ctx):
    obs = ctx.path("tables.ndjson")
    vlib.vh("tables", obs)
    rows = vlib.read_ndjson(obs)
    for k, r in enumerate(rows):
        r["id"] = k + 1
    viols = fncommon.validate(ctx, rows, "Val_C10", "tab", nshards=12, env={"VH_RELG": REL_G, "VH_RELB": REL_B, "VH_RELDE": REL_DE}, timeout=1500)
    npairs = 0
    for r in rows:
        npairs += len(r["pairs"])
        ctx.count_case({"table": r["table"], "row": r["row"]}, r["table"] == "tanhsinh" or r["row"] >= 2)
    for r in rows[:: max(1, len(rows) // 4)][:4]:
        ctx.sample({"table": r["table"], "row": r["row"], "first_pairs": r["pairs"][:2]})
    # the violation tuple is <<"VIOL", i, set, first bad moment>>; fncommon keeps only the set
    for row, payload in viols:
        for conj in payload:
            ctx.violation("%s_row_%d" % (row["table"], row["row"]), conj, {"table": row["table"], "row": row["row"]},
                          {"pairs": vlib.decode(row["pairs"])[:6], "npairs": len(row["pairs"])})
    ctx.exhaustive = True
    ctx.notes["node_weight_pairs"] = npairs
    ctx.rule = ("every row of the five Gaussian tables and every level of the tanh-sinh table shipped in the working tree's tables.rs; "
                "non-trivial = rows with n >= 2 (and every tanh-sinh level); distinct by (table,row)")
    ctx.assumptions += ["moments compared to relative %s (Legendre, Chebyshev) / %s (Hermite, Laguerre), tanh-sinh pairs to relative %s" % (REL_B, REL_G, REL_DE),
                        "closed-form moments written in QuadTables.tla"]


def replay(ctx, body):
    run(ctx)
