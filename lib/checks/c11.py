"""C11 - polynomial arithmetic, including FFT products, matches coefficient algebra.
E2: TLC (Gen_C11) enumerates operand pairs over Z and Z[i] in small scope; seeded large shapes (degree up
to 128, dyadic coefficients, sparse / palindromic / zero-padded) come from the generator below; the harness
applies every operator form; TLC (Val_C11, Val_C11Dft) compares with the exact algebra of module Poly."""
import math
import random

import fncommon
import vlib
from vlib import float_to_pair as fp

LEVEL = "exploration"


def cz(re, im=0.0):
    return [fp(re), fp(im)]


def rand_poly(rng, deg, cx, shape):
    def coef():
        k = rng.randint(-1000, 1000)
        e = rng.randint(-10, 10)
        return k * 2.0 ** e
    n = deg + 1
    if shape == "sparse":
        c = [0.0] * n
        for _ in range(min(4, n)):
            c[rng.randrange(n)] = coef()
    elif shape == "palindromic":
        half = [coef() for _ in range((n + 1) // 2)]
        c = half + half[: n // 2][::-1]
    else:
        c = [coef() for _ in range(n)]
    if shape == "zeropad":
        z = rng.randint(1, max(1, n // 3))
        for k in range(z):
            c[k] = 0.0
    if c[-1] == 0.0:
        c[-1] = float(rng.randint(1, 1000)) * 2.0 ** rng.randint(-10, 10)
    if cx:
        return [cz(v, coef() if rng.random() < 0.8 else 0.0) for v in c]
    return [cz(v) for v in c]


def seeded(ctx, rng, n):
    cases = []
    for k in range(n):
        cx = rng.random() < 0.5
        da = rng.choice([0, 1, 2, 3, 5, 8, 15, 16, 17, 31, 32, 33, 64, 100, 128]) if k % 3 else rng.randint(0, 128)
        db = rng.choice([0, 1, 2, 3, 4, 7, 16, 31, 63, 64, 65, 128]) if k % 2 else rng.randint(0, 128)
        a = rand_poly(rng, da, cx, rng.choice(["dense", "sparse", "palindromic", "zeropad"]))
        b = rand_poly(rng, db, cx, rng.choice(["dense", "sparse", "palindromic", "zeropad"]))
        na = sum(math.hypot(vlib.pair_to_float(c[0]), vlib.pair_to_float(c[1])) for c in a)
        nb = sum(math.hypot(vlib.pair_to_float(c[0]), vlib.pair_to_float(c[1])) for c in b)
        noise = 64 * 2.2e-16 * na * nb
        lead = abs(complex(vlib.pair_to_float(a[-1][0]), vlib.pair_to_float(a[-1][1])) * complex(vlib.pair_to_float(b[-1][0]), vlib.pair_to_float(b[-1][1])))
        r = rng.random()
        if r < 0.4 and noise * 4 < lead:
            tol = math.exp(rng.uniform(math.log(noise * 2), math.log(lead / 2)))   # inside the window of the degree clause
        elif r < 0.7:
            tol = noise / 1e4 if noise > 0 else 1e-30                                # below the rounding noise
        else:
            tol = 1e-10
        s = cz(rng.choice([2.0, -0.5, 3.0, 0.125]), rng.choice([0.0, 1.0, -2.0]) if cx else 0.0)
        xs = [cz(0.5), cz(-0.75, 0.5 if cx else 0.0), cz(1.0)]
        cases.append({"cx": cx, "a": a, "b": b, "s": s, "ta": fp(tol), "tb": fp(tol), "xs": xs})
    # operands that store a leading zero (what a difference of two polynomials of equal degree leaves): two coefficients
    # with a zero second one, on either side of every operator, against operands of degree 0..4
    for k in range(max(12, n // 40)):
        cx = k % 2 == 1
        short = [cz(float(rng.randint(1, 9)), float(rng.randint(-3, 3)) if cx else 0.0), cz(0.0)]
        if k % 4 >= 2:
            short.append(cz(0.0))
        other = rand_poly(rng, rng.randint(0, 4), cx, "dense")
        a, b = (short, other) if k % 3 else (other, short)
        s = cz(rng.choice([2.0, -0.5, 3.0, 0.125]), rng.choice([0.0, 1.0, -2.0]) if cx else 0.0)
        cases.append({"cx": cx, "a": a, "b": b, "s": s, "ta": fp(1e-30), "tb": fp(1e-30), "xs": [cz(0.5), cz(-0.75, 0.5 if cx else 0.0), cz(1.0)]})
    return cases


def dft_cases(ctx, rng, n):
    cases = []
    for k in range(n):
        cx = rng.random() < 0.5
        deg = rng.choice([0, 1, 2, 3, 4, 7, 8, 15, 16, 30, 63, 100] + ([255, 600] if ctx.tier == 'thorough' else [127]))
        a = rand_poly(rng, deg, cx, rng.choice(["dense", "sparse", "palindromic"]))
        size = rng.choice([deg + 1, deg + 2, 2 * (deg + 1), 1 << max(0, (deg + 1).bit_length()), min(1024, 4 * (deg + 1))])
        size = min(max(size, deg + 1), 1024)
        cases.append({"cx": cx, "a": a, "ta": fp(1e-10 * max(1.0, 1.0)), "size": size})
    # exhaustive tiny sizes over small integers
    for vals in [(1,), (1, 2), (0, 1), (1, -1, 2), (2, 0, 0, 1), (1, 1, 1, 1), (1, 2, 3, 4, 5)]:
        for size in (len(vals), len(vals) + 1, 8):
            cases.append({"cx": False, "a": [cz(float(v)) for v in vals], "ta": fp(1e-10), "size": size})
            cases.append({"cx": True, "a": [cz(float(v), float(-v + 1)) for v in vals], "ta": fp(1e-10), "size": size})
    return cases


def nontrivial(c):
    return len(c["a"]) >= 2 and len(c.get("b", [0, 0])) >= 2


def brief(c):
    return {k: c[k] for k in c if k in ("id", "cx", "a", "b", "s", "ta", "tb", "size", "xs")}


def judge_ops(ctx, cases, tag="ops"):
    for k, c in enumerate(cases):
        c["id"] = k + 1
    rows = fncommon.observe(ctx, "poly-ops", cases, tag, nproc=8)
    viols = fncommon.validate(ctx, rows, "Val_C11", tag, nshards=12, xmx="6g")
    for c in cases:
        ctx.count_case(brief(c), nontrivial(c))
        ctx.evaluations += 32          # operator forms applied per case (counted as evaluations)
    for c in cases[:: max(1, len(cases) // 3)][:3]:
        ctx.sample({"ops_case": brief(c)})
    for row, payload in viols:
        for name, conj in payload:
            ctx.violation("polynomial_" + name.split("_")[0] + ("_complex" if row["cx"] else "_real"), conj, brief(row), {"form": name})


def judge_dft(ctx, cases, tag="dft"):
    for k, c in enumerate(cases):
        c["id"] = k + 1
    rows = fncommon.observe(ctx, "poly-dft", cases, tag, nproc=4)
    viols = fncommon.validate(ctx, rows, "Val_C11Dft", tag, nshards=8)
    for c in cases:
        ctx.count_case(brief(c), len(c["a"]) >= 2)
    ctx.sample({"dft_case": brief(cases[0])})
    for row, payload in viols:
        for conj in payload:
            ctx.violation("polynomial_dft" + ("_complex" if row["cx"] else "_real"), conj, brief(row), None)


def run(ctx):
    rng = random.Random(ctx.seed)
    cases = fncommon.gen_tlc(ctx, "Gen_C11", "c11")
    nsmall = len(cases)
    cases += seeded(ctx, rng, 150 if ctx.tier == "quick" else 1500)
    judge_ops(ctx, cases)
    judge_dft(ctx, dft_cases(ctx, rng, 120 if ctx.tier == "quick" else 1200))
    ctx.notes["exhaustive_small_scope_pairs"] = nsmall
    ctx.rule = ("exhaustive: all pairs of real polynomials with <= 4 coefficients over {-1,0,2} (thorough: <= 3 over {-2..2}) and of "
                "complex ones with <= 3 coefficients over a Gaussian-integer set, from TLC; seeded: degree up to 128, coefficients k*2^e, "
                "dense/sparse/palindromic/zero-padded, zero tolerance placed inside / below the rounding window; every case goes through "
                "32 operator forms; dft sizes up to 1024. Non-trivial = both operands of degree >= 1")
    ctx.assumptions += ["exact algebra in module Poly over F64 (exact on the small-scope integer data)",
                        "product bound 64*eps*|a|_1*|b|_1 + zero tolerance; non-FFT operations 16*eps*scale"]


def replay(ctx, body):
    c = dict(body["case"])
    if "size" in c:
        judge_dft(ctx, [c, c])
    else:
        judge_ops(ctx, [c, c])
