"""C12 - polynomial division returns quotient and remainder of a valid Euclidean step.
E2: TLC (Gen_C12) builds dividends exactly as q*d + r over Z / Z[i] (leading coefficient of d in {+-1,+-2,+-1/2}
or a Gaussian unit), constant divisors, divisors of higher degree, the zero polynomial; seeded dividends of
degree <= 40 and divisors of degree <= 20 with |leading coefficient| >= 0.1. TLC (Val_C12) checks the
reconstruction identity, the degree of the remainder and, on constructed cases, q and r themselves."""
import random

import fncommon
import vlib
from checks import c11
from vlib import float_to_pair as fp

LEVEL = "exploration"


def seeded(ctx, rng, n):
    cases = []
    for _ in range(n):
        cx = rng.random() < 0.5
        da = rng.randint(0, 40)
        dd = rng.randint(0, 20)
        a = c11.rand_poly(rng, da, cx, rng.choice(["dense", "sparse", "zeropad"]))
        d = c11.rand_poly(rng, dd, cx, rng.choice(["dense", "sparse"]))
        # keep magnitudes moderate (1e-3..1e3) and the divisor's leading coefficient >= 0.1
        def norm(p, lead_min=None):
            out = []
            for re, im in p:
                x, y = vlib.pair_to_float(re), vlib.pair_to_float(im)
                while abs(x) > 1e3:
                    x /= 1024.0
                while abs(y) > 1e3:
                    y /= 1024.0
                out.append([fp(x), fp(y)])
            if lead_min is not None:
                x, y = vlib.pair_to_float(out[-1][0]), vlib.pair_to_float(out[-1][1])
                if abs(complex(x, y)) < lead_min:
                    out[-1] = [fp(rng.choice([-1, 1]) * rng.uniform(0.1, 4.0)), fp(0.0 if not cx else rng.uniform(-1, 1))]
            return out
        cases.append({"cx": cx, "a": norm(a), "d": norm(d, 0.1), "ta": fp(1e-10), "exact": False,
                      "q0": [c11.cz(0.0)], "r0": [c11.cz(0.0)]})
    return cases


def brief(c):
    return {k: c[k] for k in ("id", "cx", "a", "d", "ta", "exact", "q0", "r0") if k in c}


def judge(ctx, cases):
    for k, c in enumerate(cases):
        c["id"] = k + 1
    rows = fncommon.observe(ctx, "poly-div", cases, "div", nproc=4)
    viols = fncommon.validate(ctx, rows, "Val_C12", "div", nshards=8)
    for c, row in zip(cases, rows):
        ctx.count_case(brief(c), len(c["d"]) >= 2 and len(row.get("q", [])) >= 1 and row.get("st") == "ok" and
                       any(z != [[0, 0], [0, 0]] for z in row["q"]))
    for c in cases[:: max(1, len(cases) // 3)][:3]:
        ctx.sample(brief(c))
    for row, payload in viols:
        for conj in payload:
            ctx.violation("polynomial_divide" + ("_complex" if row["cx"] else "_real"), conj, brief(row),
                          {"st": row.get("st"), "q": vlib.decode(row.get("q")), "r": vlib.decode(row.get("r"))})


def run(ctx):
    rng = random.Random(ctx.seed)
    cases = fncommon.gen_tlc(ctx, "Gen_C12", "c12")
    n = len(cases)
    cases += seeded(ctx, rng, 300 if ctx.tier == "quick" else 3000)
    judge(ctx, cases)
    ctx.notes["exactly_constructed_cases"] = n
    ctx.rule = ("TLC-constructed (q,d,r) triples over Z and Z[i] with deg r < deg d and dyadic leading coefficients (exact expected q, r), "
                "special shapes (constant / higher-degree / zero divisors), + seeded dividends of degree <= 40 by divisors of degree <= 20; "
                "non-trivial = divisor of degree >= 1 and non-zero quotient")
    ctx.assumptions += ["reference algebra Poly over F64; bound 64*eps*(|q|_1|d|_1 + |a|_1) + tol*(len a + 1)"]


def replay(ctx, body):
    c = dict(body["case"])
    judge(ctx, [c, c])
