"""C12 - polynomial division returns quotient and remainder of a valid Euclidean step.
E2: TLC (Gen_C12) builds dividends exactly as q*d + r over Z / Z[i] (leading coefficient of d in {+-1,+-2,+-1/2}
or a Gaussian unit), constant divisors, divisors of higher degree, the zero polynomial; seeded dividends of
degree <= 40 and divisors of degree <= 20 with |leading coefficient| >= 0.1. TLC (Val_C12) checks the
reconstruction identity, the degree of the remainder and, on constructed cases, q and r themselves."""
import random

import fncommon
import vlib
from checks import c11
from vlib import float_to_pair as fp

LEVEL = "exploration"


def seeded(ctx, rng, n):
    cases = []
    for _ in range(n):
        cx = rng.random() < 0.5
        da = rng.randint(0, 40)
        dd = rng.randint(0, 20)
        a = c11.rand_poly(rng, da, cx, rng.choice(["dense", "sparse", "zeropad"]))
        d = c11.rand_poly(rng, dd, cx, rng.choice(["dense", "sparse"]))
        # keep magnitudes moderate (1e-3..1e3) and the divisor's leading coefficient >= 0.1
        def norm(p, lead_min=None):
            out = []
            for re, im in p:
                x, y = vlib.pair_to_float(re), vlib.pair_to_float(im)
                while abs(x) > 1e3:
                    x /= 1024.0
                while abs(y) > 1e3:
                    y /= 1024.0
                out.append([fp(x), fp(y)])
            if lead_min is not None:
                x, y = vlib.pair_to_float(out[-1][0]), vlib.pair_to_float(out[-1][1])
                if abs(complex(x, y)) < lead_min:
                    out[-1] = [fp(rng.choice([-1, 1]) * rng.uniform(0.1, 4.0)), fp(0.0 if not cx else rng.uniform(-1, 1))]
            return out
        # the zero tolerance: the default, a zero tolerance (accepted by set_tolerance; exact zeros only), a tight and a loose one
        ta = rng.choice([1e-10, 1e-10, 0.0, 0.0, 1e-14, 1e-6])
        cases.append({"cx": cx, "a": norm(a), "d": norm(d, 0.1), "ta": fp(ta), "exact": False,
                      "q0": [c11.cz(0.0)], "r0": [c11.cz(0.0)]})
    # coefficients between a tight zero tolerance and the default one (1e-10): what counts as negligible is the
    # dividend's own tolerance - a remainder whose leading coefficient is 3e-11 keeps it when the tolerance is 1e-14 or 0
    for _ in range(max(20, n // 8)):
        cx = rng.random() < 0.4
        def co(scale=1.0):
            return complex(rng.uniform(-2, 2), rng.uniform(-2, 2) if cx else 0.0) * scale
        dd = rng.randint(2, 5)
        d = [co() for _ in range(dd)] + [complex(rng.choice([-1, 1]) * rng.uniform(0.5, 2.0), 0.0)]
        q = [co() for _ in range(rng.randint(1, 5))]
        r = [co() for _ in range(dd - 1)] + [co(rng.uniform(1e-11, 5e-11) / 2.0) + complex(2e-11, 0.0)]
        a = [0j] * (len(q) + len(d) - 1)
        for i, qi in enumerate(q):
            for j, dj in enumerate(d):
                a[i + j] += qi * dj
        for i, ri in enumerate(r):
            a[i] += ri
        if rng.random() < 0.3:
            a.append(complex(rng.uniform(1e-11, 5e-11), 0.0))        # ... and a dividend whose own leading coefficient is that small
        cz = lambda z: c11.cz(z.real, z.imag)
        cases.append({"cx": cx, "a": [cz(z) for z in a], "d": [cz(z) for z in d], "ta": fp(rng.choice([1e-14, 0.0])), "exact": False,
                      "q0": [c11.cz(0.0)], "r0": [c11.cz(0.0)]})
    return cases


def brief(c):
    return {k: c[k] for k in ("id", "cx", "a", "d", "ta", "exact", "q0", "r0") if k in c}


def judge(ctx, cases):
    for k, c in enumerate(cases):
        c["id"] = k + 1
    rows = fncommon.observe(ctx, "poly-div", cases, "div", nproc=4)
    viols = fncommon.validate(ctx, rows, "Val_C12", "div", nshards=8)
    # design level (drift, not a violation): every real call replayed through module PolyDivide over doubles - the
    # quotient and remainder of the long-division loop, bit for bit
    drows = [{k: r[k] for k in ("id", "cx", "a", "d", "ta", "st", "q", "r")} for r in rows]
    ndrift = len(ctx.drift)
    fncommon.validate(ctx, drows, "Trace_PolyDivide", "divdl", nshards=8)
    ctx.traces -= len(drows)
    st = [x for x in ctx.notes.get("_stat", []) if x and x[0] == "divide_runs_explained"]
    ctx.notes["_stat"] = [x for x in ctx.notes.get("_stat", []) if not (x and x[0] == "divide_runs_explained")]
    for key, v in (("validated_against_design", len(drows)), ("explained_bit_for_bit", sum(x[1] for x in st)),
                   ("drifted", len(ctx.drift) - ndrift)):
        ctx.notes["divide_runs_%s" % key] = ctx.notes.get("divide_runs_%s" % key, 0) + v
    for c, row in zip(cases, rows):
        ctx.count_case(brief(c), len(c["d"]) >= 2 and len(row.get("q", [])) >= 1 and row.get("st") == "ok" and
                       any(z != [[0, 0], [0, 0]] for z in row["q"]))
    for c in cases[:: max(1, len(cases) // 3)][:3]:
        ctx.sample(brief(c))
    for row, payload in viols:
        for conj in payload:
            ctx.violation("polynomial_divide" + ("_complex" if row["cx"] else "_real"), conj, brief(row),
                          {"st": row.get("st"), "q": vlib.decode(row.get("q")), "r": vlib.decode(row.get("r"))})


def run(ctx):
    rng = random.Random(ctx.seed)
    # E1: the design model of the long-division loop over exact rationals - every small dividend / divisor / tolerance
    # (zero among them): the Euclidean identity up to the tolerance after every pass, the degree of the remainder, the
    # bound on the number of passes, termination
    vlib.e1(ctx, "MC_PolyDivide", "PolyDivide", ["Begin", "Pass", "Exit"], cfg="MC_PolyDivide.cfg", workers=4, timeout=1800)
    cases = fncommon.gen_tlc(ctx, "Gen_C12", "c12")
    n = len(cases)
    # every third constructed case (exact integer / Gaussian-integer data, the zero-polynomial divisors among them) once
    # more with a zero tolerance: the identities are exact there, and "negligible" then means exactly zero
    zero = c11.cz(0.0)
    zt = [dict(c, ta=fp(0.0)) for k, c in enumerate(cases) if k % 3 == 0 or (len(c["d"]) == 1 and c["d"][0] == zero)]
    cases += zt
    n += len(zt)
    cases += seeded(ctx, rng, 300 if ctx.tier == "quick" else 3000)
    judge(ctx, cases)
    ctx.notes["exactly_constructed_cases"] = n
    ctx.rule = ("TLC-constructed (q,d,r) triples over Z and Z[i] with deg r < deg d and dyadic leading coefficients (exact expected q, r), "
                "special shapes (constant / higher-degree / zero divisors), + seeded dividends of degree <= 40 by divisors of degree <= 20; "
                "non-trivial = divisor of degree >= 1 and non-zero quotient")
    ctx.assumptions += ["reference algebra Poly over F64; bound 64*eps*(|q|_1|d|_1 + |a|_1) + tol*(len a + 1)"]


def replay(ctx, body):
    c = dict(body["case"])
    judge(ctx, [c, c])
