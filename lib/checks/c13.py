"""C13 - polynomial evaluation, calculus and coefficient access are mutually consistent.
E1: MC_Poly explores the coefficient-editing state machine of module Poly (edit changes exactly one power,
    purging an absent power is a no-op, never empty) and the ring laws of the reference.
E2: TLC (Gen_C13) enumerates every editing history of <= 3 (thorough 4) operations from five initial
    polynomials, and evaluation/calculus cases in small scope; seeded cases of degree <= 30 in the disc |x| <= 2;
    the harness replays them on the real Polynomial; TLC (Val_C13Hist, Val_C13Fn) compares after every step."""
import os
import random

import fncommon
import vlib
from checks import c11
from vlib import float_to_pair as fp

LEVEL = "model_checking"


def brief(c):
    return {k: v for k, v in c.items() if k in ("id", "kind", "cx", "init", "ops", "a", "xs", "ta", "probe", "cst", "lo", "mid", "hi")}


def seeded_fn(ctx, rng, n):
    cases = []
    for _ in range(n):
        cx = rng.random() < 0.5
        deg = rng.randint(0, 30)
        a = []
        for _ in range(deg + 1):
            a.append(c11.cz(rng.uniform(-2, 2), rng.uniform(-2, 2) if cx else 0.0))
        def pt():
            import math
            r, th = 2.0 * rng.random() ** 0.5, rng.uniform(0, 2 * math.pi)
            return c11.cz(r * math.cos(th), r * math.sin(th)) if cx else c11.cz(rng.uniform(-2, 2))
        cases.append({"kind": "fn", "cx": cx, "a": a, "ta": fp(1e-10), "xs": [pt() for _ in range(4)],
                      "cst": c11.cz(rng.uniform(-1, 1)), "lo": pt(), "mid": pt(), "hi": pt()})
        # special abscissae: the origin (where the antiderivative without constant vanishes) and +-1 as a bound / a point
        if rng.random() < 0.4:
            sp = lambda: c11.cz(rng.choice([0.0, 0.0, 1.0, -1.0]))
            for key in rng.sample(["lo", "mid", "hi"], rng.randint(1, 2)):
                cases[-1][key] = sp()
            cases[-1]["xs"][0] = sp()
    return cases


def seeded_hist(ctx, rng, n):
    cases = []
    for _ in range(n):
        cx = rng.random() < 0.4
        def z():
            return c11.cz(float(rng.randint(-5, 5)) * rng.choice([1.0, 0.5, 0.0, 1e-12]), float(rng.randint(-3, 3)) if cx else 0.0)
        init = [z() for _ in range(rng.randint(1, 6))]
        ops = []
        for _ in range(rng.randint(4, 12)):
            r = rng.random()
            if r < 0.3:
                ops.append({"op": "set", "k": rng.randint(0, 9), "c": z(), "p": [c11.cz(0.0)]})
            elif r < 0.6:
                ops.append({"op": "purge", "k": rng.randint(0, 10), "c": c11.cz(0.0), "p": [c11.cz(0.0)]})
            elif r < 0.75:
                ops.append({"op": "purge_leading", "k": 0, "c": c11.cz(0.0), "p": [c11.cz(0.0)]})
            elif r < 0.9:
                ops.append({"op": "add", "k": 0, "c": c11.cz(0.0), "p": [z() for _ in range(rng.randint(1, 7))]})
            else:
                ops.append({"op": "muls", "k": 0, "c": c11.cz(float(rng.randint(-2, 2))), "p": [c11.cz(0.0)]})
        cases.append({"kind": "hist", "cx": cx, "init": init, "ops": ops, "ta": fp(1e-10), "probe": 14})
    return cases


def judge_hist(ctx, cases):
    for k, c in enumerate(cases):
        c["id"] = k + 1
    rows = fncommon.observe(ctx, "poly-hist", cases, "hist", nproc=8)
    viols = fncommon.validate(ctx, rows, "Val_C13Hist", "hist", nshards=12)
    for c, row in zip(cases, rows):
        lens = set(len(s["coefs"]) for s in row["steps"])
        ctx.count_case(brief(c), len(lens) > 1)
    for c in cases[:: max(1, len(cases) // 2)][:2]:
        ctx.sample(brief(c))
    for row, payload in viols:
        for step, conj in payload:
            op = row["ops"][step - 1]["op"] if 1 <= step <= len(row["ops"]) else "init"
            ctx.violation("polynomial_" + op, conj, brief(row), {"step": step})


def judge_fn(ctx, cases):
    for k, c in enumerate(cases):
        c["id"] = k + 1
    rows = fncommon.observe(ctx, "poly-fn", cases, "fn", nproc=4)
    viols = fncommon.validate(ctx, rows, "Val_C13Fn", "fn", nshards=8)
    for c in cases:
        ctx.count_case(brief(c), len(c["a"]) >= 2)
    ctx.sample(brief(cases[len(cases) // 2]))
    for row, payload in viols:
        for conj in payload:
            ctx.violation("polynomial_calculus" + ("_complex" if row["cx"] else "_real"), conj, brief(row), None)


def run(ctx):
    rng = random.Random(ctx.seed)
    cfgp = os.path.join(vlib.SPEC, "MC_Poly_run.cfg")
    open(cfgp, "w").write(open(os.path.join(vlib.SPEC, "MC_Poly.cfg")).read().replace("MaxOps = 3", "MaxOps = %d" % (3 if ctx.tier == "quick" else 4)))
    try:
        r = vlib.e1(ctx, "MC_Poly", "MC_Poly", ["Set", "Purge", "PurgeL", "AddP", "MulS"], cfg="MC_Poly_run.cfg", workers=4, timeout=900)
    finally:
        os.remove(cfgp)
    p2 = ctx.path("c13-fn-gen.ndjson")
    hist = fncommon.gen_tlc(ctx, "Gen_C13", "c13", env={"VH_CASES2": p2}, timeout=1200, xmx="8g")
    fn = vlib.read_ndjson(p2)
    os.remove(p2)
    nh, nf = len(hist), len(fn)
    hist += seeded_hist(ctx, rng, 300 if ctx.tier == "quick" else 3000)
    fn += seeded_fn(ctx, rng, 300 if ctx.tier == "quick" else 3000)
    judge_hist(ctx, hist)
    judge_fn(ctx, fn)
    ctx.notes["exhaustive_histories"] = nh
    ctx.notes["exhaustive_function_cases"] = nf
    ctx.rule = ("histories: every sequence of 1..3 (thorough 4) operations over a 16-operation alphabet (set/purge with powers up to one "
                "past the length and beyond, purge_leading, add, scalar multiply) from 5 initial polynomials (TLC), + seeded histories of 4-12 "
                "operations; non-trivial = the history changes the length of the coefficient vector. functions: all polynomials of <= 4 "
                "coefficients over {-1,0,2} (thorough {-2..2}) at lattice points + seeded degree <= 30 in the disc |x| <= 2; non-trivial = degree >= 1")
    ctx.assumptions += ["reference state machine and algebra in module Poly (self-checked by MC_Poly)",
                        "Horner bound 8*(n+1)*eps*sum|a_k||x|^k; coefficient comparisons 4 eps relative"]


def replay(ctx, body):
    c = dict(body["case"])
    if c.get("kind") == "hist":
        judge_hist(ctx, [c, c])
    else:
        judge_fn(ctx, [c, c])
