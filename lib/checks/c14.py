"""C14 - polynomial root finding returns the complete, accurate multiset of roots.
E2: root multisets on a half-integer Gaussian lattice in the disc of radius 3 (sizes 1-4 over a sub-lattice, enumerated
here as inputs; larger sizes seeded), expanded exactly (dyadic data); seeded polynomials of degree 1..10 from random
roots with separation >= 0.3, random leading scale, sparse x^n - c; orthogonal-polynomial zeros for n = 0..12/16.
TLC (Val_C14, module PolyRoots) checks: Ok, exactly degree-many values, residuals, one-to-one matching with the
generating roots, and for orthogonal zeros: count, interval, distinctness, sign-change bracket of the exact polynomial
(OrthoPoly)."""
import cmath
import itertools
import math
import random

import fncommon
import vlib
from checks import c11
from vlib import float_to_pair as fp

LEVEL = "exploration"


def expand(roots, lead=1.0):
    c = [complex(lead)]
    for r in roots:
        c = [0j] + c
        for k in range(len(c) - 1):
            c[k] -= r * c[k + 1]
    return c


def case(roots, lead, tol, force_cx=None):
    cz = lambda z: c11.cz(complex(z).real, complex(z).imag)
    coefs = expand(roots, lead)
    real = all(abs(c.imag) < 1e-300 for c in coefs)
    cx = (not real) if force_cx is None else force_cx
    return {"kind": "roots", "coefs": [cz(c) for c in coefs], "cx": cx, "tol": fp(tol), "n_max": 2000,
            "truth": [cz(r) for r in roots], "fam": "", "n": len(roots), "ptol": fp(0.0)}


def lattice(ctx):
    pts = [complex(a / 2.0, b / 2.0) for a in (-4, -1, 0, 2, 5) for b in (-3, 0, 2)]
    cases = []
    for n in (1, 2, 3):
        for combo in itertools.combinations(pts, n):
            cases.append(case(list(combo), 1.0, 1e-9))
    # real-coefficient polynomials from conjugate-closed sets
    reals = [-2.5, -1.0, 0.0, 0.5, 2.0]
    pairs = [complex(0.5, 1.5), complex(-1.0, 0.5), complex(2.0, 2.0)]
    for n in (1, 2, 3, 4):
        for combo in itertools.combinations(reals, n):
            cases.append(case(list(combo), rng_lead(n), 1e-9, force_cx=False))
    for p in pairs:
        for extra in ([], [0.5], [-1.0, 2.0]):
            cases.append(case([p, p.conjugate()] + extra, 2.0, 1e-9, force_cx=False))
    for p, q in itertools.combinations(pairs, 2):
        cases.append(case([p, p.conjugate(), q, q.conjugate()], 0.5, 1e-9, force_cx=False))
    return cases


def rng_lead(n):
    return [1.0, -2.0, 0.5, 4.0, -0.25][n % 5]


def seeded(ctx, rng, n):
    cases = []
    for k in range(n):
        deg = rng.randint(1, 10)
        realcoef = rng.random() < 0.5
        roots = []
        tries = 0
        while len(roots) < deg and tries < 20000:
            tries += 1
            r, th = 3.0 * rng.random() ** 0.5, rng.uniform(0, 2 * math.pi)
            z = cmath.rect(r, th)
            if realcoef and rng.random() < 0.5:
                z = complex(z.real, 0.0)
            cand = [z] if (not realcoef or z.imag == 0.0) else [z, z.conjugate()]
            if realcoef and z.imag != 0.0 and abs(z.imag) < 0.15:
                continue
            if len(roots) + len(cand) > deg:
                continue
            if all(abs(c - w) >= 0.3 for c in cand for w in roots):
                roots += cand
        lead = rng.choice([1.0, 1.0, 2.0, -0.5, 10.0, 0.1])
        if not realcoef and rng.random() < 0.4:
            # a leading coefficient off the real axis: purely imaginary, or of modulus 1 at a random angle
            lead = rng.choice([2j, -1j, 0.5j, cmath.rect(1.0, rng.uniform(0, 2 * math.pi))])
        tol = 10.0 ** (-rng.uniform(6, 10))
        cases.append(case(roots, lead, tol, force_cx=(False if realcoef else None)))
    for deg in range(2, 11):
        for c in (2.0, -1.0, 0.5):
            roots = [abs(c) ** (1.0 / deg) * cmath.exp(1j * (2 * math.pi * k + (math.pi if c < 0 else 0)) / deg) for k in range(deg)]
            cs = case(roots, 1.0, 1e-8, force_cx=False)
            cz = lambda z: c11.cz(complex(z).real, complex(z).imag)
            cs["coefs"] = [cz(-c)] + [cz(0)] * (deg - 1) + [cz(1)]     # x^n - c exactly
            cases.append(cs)
    return cases


def zeros(ctx):
    cases = []
    for fam, nmax in (("legendre", 16), ("hermite", 14), ("laguerre", 14)):
        for n in range(0, nmax + 1):
            # (Laguerre 13 and 14 have leading coefficients 1.6e-10 and 1.1e-11: they are in scope for a root tolerance below that)
            for tol in ((1e-8, 1e-10) if not (fam == "laguerre" and n >= 13) else ((1e-10,) if n == 13 else (5e-12,))):
                # roots() treats a leading coefficient below tol as zero (its documented precondition): the
                # Laguerre polynomial's leading coefficient is 1/n!, so only tolerances below it are in scope
                if fam == "laguerre" and 1.0 / math.factorial(n) < (10 if n < 13 else 1.5) * tol:
                    continue
                # the two tolerances are independent arguments (root finder / polynomial constructor): 1e-12 and, as the
                # crate's own tests pass it, 1e-30 for the constructor; a coarse constructor tolerance with a fine root tolerance
                ptols = [1e-12, 1e-30] + ([1e-3] if fam != "laguerre" and tol == 1e-10 else [])
                for ptol in ptols:
                    cases.append({"kind": "zeros", "coefs": [c11.cz(0.0)], "cx": False, "tol": fp(tol), "n_max": 2000, "truth": [],
                                  "fam": fam, "n": n, "ptol": fp(ptol)})
    return cases


def brief(c):
    return {k: c[k] for k in ("id", "kind", "coefs", "cx", "tol", "n_max", "truth", "fam", "n", "ptol") if k in c}


def judge(ctx, cases):
    for k, c in enumerate(cases):
        c["id"] = k + 1
    rows = fncommon.observe(ctx, "polyroots", cases, "pr", nproc=8)
    viols = fncommon.validate(ctx, rows, "Val_C14", "pr", nshards=12, timeout=1500)
    for c in cases:
        ctx.count_case(brief(c), c["n"] >= 3)
    for c in cases[:: max(1, len(cases) // 3)][:3]:
        ctx.sample(brief(c))
    for row, payload in viols:
        for conj in payload:
            rt = ("roots_complex" if row["cx"] else "roots_real") if row["kind"] == "roots" else row["fam"] + "_zeros"
            ctx.violation(rt, conj, brief(row), {"st": row["st"], "roots": vlib.decode(row["roots"])})


def run(ctx):
    rng = random.Random(ctx.seed)
    lat = lattice(ctx)
    judge(ctx, lat + seeded(ctx, rng, 600 if ctx.tier == "quick" else 6000) + zeros(ctx))
    ctx.notes["lattice_cases"] = len(lat)
    ctx.rule = ("lattice: all 1-3 element subsets of 15 half-integer Gaussian points (monic), real-root and conjugate-pair sets with dyadic "
                "leading scales; seeded: degree 1-10 from random roots with separation >= 0.3 in the disc of radius 3 (real-coefficient and "
                "complex), leading scale 0.1..10, tol 1e-6..1e-10, x^n - c; Legendre n<=16, Hermite n<=14, Laguerre n<=12 zeros; "
                "non-trivial = degree >= 3")
    ctx.assumptions += ["matching radius 16*tol + 16*(rounding noise of p at the root)/|p'(root)|; residual bound 16*tol*(1+|p'|) + noise",
                        "orthogonal zeros: sign change of the exact-coefficient polynomial (OrthoPoly, F64 Horner) within 2e-7*(1+|z|)"]


def replay(ctx, body):
    c = dict(body["case"])
    judge(ctx, [c, dict(c)])
