"""C15 - Lagrange and Hermite interpolants reproduce their data and are unique.
E2: TLC (Gen_C15) enumerates ordered node tuples (every permutation) on a half-integer lattice with data
sampled by the specification from integer polynomials within the degree bound, arbitrary data, Gaussian nodes,
mismatched lengths; seeded: 1..8 nodes with separation >= 0.2 in [-2,2] / the disc. TLC (Val_C15) checks degree
bound, reproduction of values (and derivatives), and recovery of the sampled polynomial up to the conditioning
of the nodes, which it computes per case."""
import cmath
import math
import random

import fncommon
import vlib
from checks import c11
from vlib import float_to_pair as fp

LEVEL = "exploration"


def pe(c, x):
    acc = 0
    for v in reversed(c):
        acc = acc * x + v
    return acc


def pd(c):
    return [k * c[k] for k in range(1, len(c))] or [0]


def seeded(ctx, rng, n):
    cases = []
    for k in range(n):
        cx = rng.random() < 0.4
        kind = rng.choice(["lagrange", "hermite"])
        m = rng.randint(1, 8 if kind == "lagrange" else 5)
        xs = []
        tries = 0
        while len(xs) < m and tries < 10000:
            tries += 1
            if cx:
                r, th = 2.0 * rng.random() ** 0.5, rng.uniform(0, 2 * math.pi)
                z = complex(r * math.cos(th), r * math.sin(th))
            else:
                z = complex(rng.uniform(-2, 2), 0)
            if all(abs(z - w) >= 0.2 for w in xs):
                xs.append(z)
        m = len(xs)
        deg = m - 1 if kind == "lagrange" else 2 * m - 1
        has_src = rng.random() < 0.7
        if has_src:
            src = [complex(rng.uniform(-2, 2), rng.uniform(-2, 2) if cx else 0) for _ in range(rng.randint(1, deg + 1))]
            ys = [pe(src, x) for x in xs]
            ds = [pe(pd(src), x) for x in xs]
        else:
            src = [0j]
            ys = [complex(rng.uniform(-2, 2), rng.uniform(-2, 2) if cx else 0) for _ in xs]
            ds = [complex(rng.uniform(-2, 2), rng.uniform(-2, 2) if cx else 0) for _ in xs]
        tol = 10.0 ** (-rng.uniform(6, 14))
        if has_src and m >= 3 and rng.random() < 0.25:
            # the first two listed points almost level: p = A + e x + (x - x1)(x - x2) q(x) with 0 < e < tol, so the slope
            # between them - an intermediate quantity of every divided-difference scheme - is non-zero and below the
            # coefficient-zeroing tolerance, while no coefficient of the interpolant itself is
            tol = 10.0 ** (-rng.uniform(6, 8))
            e = tol * rng.uniform(0.1, 0.9)
            q = [complex(rng.uniform(-2, 2), rng.uniform(-2, 2) if cx else 0) for _ in range(deg - 1)]
            q[-1] = complex(rng.choice([-1, 1]) * rng.uniform(0.5, 2), 0)
            src = [complex(rng.uniform(-2, 2), 0), complex(e, 0)] + [0j] * (len(q))
            for a, qa in enumerate(q):          # (x^2 - (x1 + x2) x + x1 x2) * q
                src[a + 2] += qa
                src[a + 1] -= (xs[0] + xs[1]) * qa
                src[a] += xs[0] * xs[1] * qa
            ys = [pe(src, x) for x in xs]
            ds = [pe(pd(src), x) for x in xs]
        if has_src and m >= 2 and rng.random() < 0.1:
            # a genuine leading coefficient between a tight zeroing tolerance and the library's default one (1e-10): it is
            # above the tolerance the caller asked for and must survive
            tol = 10.0 ** (-rng.uniform(12, 14))
            src = [complex(rng.uniform(-2, 2), rng.uniform(-2, 2) if cx else 0) for _ in range(deg)] + [complex(rng.uniform(2e-11, 8e-11), 0)]
            ys = [pe(src, x) for x in xs]
            ds = [pe(pd(src), x) for x in xs]
        cz = lambda z: c11.cz(z.real, z.imag)
        cases.append({"kind": kind, "cx": cx, "xs": [cz(x) for x in xs], "ys": [cz(y) for y in ys], "ds": [cz(d) for d in ds],
                      "tol": fp(tol), "src": [cz(s) for s in src], "has_src": has_src, "mismatch": False})
    return cases


def brief(c):
    return {k: c[k] for k in ("id", "kind", "cx", "xs", "ys", "ds", "tol", "src", "has_src", "mismatch") if k in c}


def judge(ctx, cases):
    for k, c in enumerate(cases):
        c["id"] = k + 1
    rows = fncommon.observe(ctx, "interp", cases, "itp", nproc=4)
    viols = fncommon.validate(ctx, rows, "Val_C15", "itp", nshards=12)
    # design level (drift, not a violation): every hermite() call replayed through module HermiteDD over doubles - the
    # divided-difference table, the Horner assembly and the cleaning, coefficient by coefficient, bit for bit
    hrows = [{"id": r["id"], "kind": r["kind"], "cx": r["cx"], "xs": r["xs"], "ys": r["ys"], "ds": r["ds"], "tol": r["tol"],
              "obs": {"st": r["obs"]["st"], "coefs": r["obs"].get("coefs", [])}} for r in rows if r["kind"] == "hermite"]
    if hrows:
        ndrift = len(ctx.drift)
        fncommon.validate(ctx, hrows, "Trace_HermiteDD", "itpdl", nshards=12)
        ctx.traces -= len(hrows)
        st = [x for x in ctx.notes.get("_stat", []) if x and x[0] == "hermite_runs_explained"]
        ctx.notes["_stat"] = [x for x in ctx.notes.get("_stat", []) if not (x and x[0] == "hermite_runs_explained")]
        for key, v in (("validated_against_design", len(hrows)), ("explained_bit_for_bit", sum(x[1] for x in st)),
                       ("drifted", len(ctx.drift) - ndrift)):
            ctx.notes["hermite_runs_%s" % key] = ctx.notes.get("hermite_runs_%s" % key, 0) + v
    # ... and every lagrange() call through module LagrangeNeville (Neville's table of polynomials, cell by cell)
    lrows = [{"id": r["id"], "kind": r["kind"], "cx": r["cx"], "xs": r["xs"], "ys": r["ys"], "tol": r["tol"],
              "obs": {"st": r["obs"]["st"], "coefs": r["obs"].get("coefs", [])}} for r in rows if r["kind"] == "lagrange"]
    if lrows:
        ndrift = len(ctx.drift)
        fncommon.validate(ctx, lrows, "Trace_LagrangeNeville", "itpdn", nshards=12)
        ctx.traces -= len(lrows)
        st = [x for x in ctx.notes.get("_stat", []) if x and x[0] == "lagrange_runs_explained"]
        ctx.notes["_stat"] = [x for x in ctx.notes.get("_stat", []) if not (x and x[0] == "lagrange_runs_explained")]
        for key, v in (("validated_against_design", len(lrows)), ("explained_bit_for_bit", sum(x[1] for x in st)),
                       ("drifted", len(ctx.drift) - ndrift)):
            ctx.notes["lagrange_runs_%s" % key] = ctx.notes.get("lagrange_runs_%s" % key, 0) + v
    for c in cases:
        ctx.count_case(brief(c), len(c["xs"]) >= 2)
    for c in cases[:: max(1, len(cases) // 3)][:3]:
        ctx.sample(brief(c))
    for row, payload in viols:
        for conj in payload:
            ctx.violation(row["kind"] + ("_complex" if row["cx"] else "_real"), conj, brief(row),
                          {"st": row["obs"].get("st"), "order": row["obs"].get("order"), "coefs": vlib.decode(row["obs"].get("coefs"))})


def run(ctx):
    rng = random.Random(ctx.seed)
    # E1: the design model of hermite() (divided-difference table, Horner assembly, cleaning) over exact rationals: values and
    # derivatives matched up to what the cleaning may remove, exactly at a zero tolerance; Err exactly for mismatched lengths
    vlib.e1(ctx, "MC_HermiteDD", "HermiteDD", ["Begin", "Cell", "Horner", "Finish"],
            cfg="MC_HermiteDD.cfg" if ctx.tier == "quick" else "MC_HermiteDD_thorough.cfg", workers=4, timeout=3000)
    vlib.e1(ctx, "MC_LagrangeNeville", "LagrangeNeville", ["Begin", "Cell", "Clean"], cfg="MC_LagrangeNeville.cfg", workers=4, timeout=3000)
    cases = fncommon.gen_tlc(ctx, "Gen_C15", "c15", timeout=1800)
    n = len(cases)
    cases += seeded(ctx, rng, 400 if ctx.tier == "quick" else 4000)
    judge(ctx, cases)
    ctx.notes["exhaustive_lattice_cases"] = n
    ctx.rule = ("TLC: every ordered tuple of 1..3 (thorough 4) distinct half-integer nodes in [-2,2] x every source polynomial with n "
                "coefficients over {-1,0,2} (Lagrange) / a family of sources with 2n coefficients (Hermite), arbitrary integer data, Gaussian "
                "nodes, mismatched lengths; seeded: 1..8 (Hermite 1..5) nodes with separation >= 0.2, zeroing tolerance 1e-14..1e-6; "
                "non-trivial = at least 2 nodes")
    ctx.assumptions += ["conditioning of the node set computed by TLC from the nodes (1-norm bound of the Lagrange basis coefficients)",
                        "data of the exhaustive part are exact (dyadic nodes, integer polynomials)"]


def replay(ctx, body):
    c = dict(body["case"])
    judge(ctx, [c, c])
