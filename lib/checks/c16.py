"""C16 - cubic splines interpolate, are C2, and honour their end conditions.
E2/E3: knots from dyadic lattices (2-6 knots over small spacings, exhaustively enumerated here as inputs) and seeded
(up to 40 knots, spacing ratio up to 50), integer / Gaussian-integer / random ordinates and end slopes. The harness
probes every piece near both ends and at three interior points, plus outside the range. TLC (Val_C16, module Spline)
checks the characterisation of the unique free/clamped spline: interpolation, C1, C2 (second derivatives from each
piece's Hermite data), end conditions, exact reproduction of cubics (clamped) and lines (free), error cases."""
import itertools
import random

import fncommon
import vlib
from checks import c11
from vlib import float_to_pair as fp

LEVEL = "exploration"
KS = "4096"


def probes(xs):
    pts = list(xs)
    for i in range(len(xs) - 1):
        L, h = xs[i], xs[i + 1] - xs[i]
        e = h * 2.0 ** -20
        pts += [L + e, L + h / 4 - e, L + h / 2 - e, L + 3 * h / 4 - e, xs[i + 1] - e]
    pts += [xs[0] - 1.0, xs[-1] + 1.0]
    return pts


def pe(c, x):
    acc = 0
    for v in reversed(c):
        acc = acc * x + v
    return acc


def make(kind, cx, xs, ys, f0, fn, src=None, err_case="none", tol=1e-12):
    cz = lambda z: c11.cz(complex(z).real, complex(z).imag)
    good_xs = sorted(set(xs)) if err_case != "none" else xs
    return {"kind": kind, "cx": cx, "xs": [fp(x) for x in xs], "ys": [cz(y) for y in ys], "f0": cz(f0), "fn": cz(fn),
            "tol": fp(tol), "probe": [fp(p) for p in (probes(xs) if err_case == "none" and len(xs) >= 2 else [0.0])],
            "src": [cz(c) for c in (src or [0])], "has_src": src is not None, "err_case": err_case}


def lattice(ctx):
    cases = []
    spacings = [0.5, 1.0, 2.0, 0.25]
    for n in (2, 3, 4) if ctx.tier == "quick" else (2, 3, 4, 5, 6):
        combos = list(itertools.product(spacings[:3], repeat=n - 1))
        if n > 4:
            combos = combos[:: 7]
        for hs in combos:
            for x0 in (-2.0, 0.0, 1.5):
                xs = [x0]
                for h in hs:
                    xs.append(xs[-1] + h)
                for variant in range(3):
                    ys = [float(((k * 7 + variant * 3) % 5) - 2) for k in range(n)]
                    cases.append(make("free", False, xs, ys, 0, 0))
                    cases.append(make("clamped", False, xs, ys, float(variant - 1), float(1 - variant) * 2))
                # exact reproduction
                cub = [1.0, -2.0, 0.5, 0.25]
                cases.append(make("clamped", False, xs, [pe(cub, x) for x in xs], pe([-2.0, 1.0, 0.75], xs[0]), pe([-2.0, 1.0, 0.75], xs[-1]), src=cub))
                lin = [0.5, -1.5]
                cases.append(make("free", False, xs, [pe(lin, x) for x in xs], 0, 0, src=lin))
                ysc = [complex(((k * 3) % 5) - 2, ((k * 2) % 3) - 1) for k in range(n)]
                cases.append(make("free", True, xs, ysc, 0, 0))
                cases.append(make("clamped", True, xs, ysc, 1 - 1j, 0.5j))
    return cases


def seeded(ctx, rng, n):
    cases = []
    for k in range(n):
        m = rng.randint(2, 40)
        cx = rng.random() < 0.3
        base = rng.uniform(0.02, 0.4)
        hs = [base * rng.uniform(1.0, 50.0) if rng.random() < 0.3 else base * rng.uniform(1.0, 3.0) for _ in range(m - 1)]
        total = sum(hs)
        if total > 19.0:
            hs = [h * 19.0 / total for h in hs]
        x0 = rng.uniform(-10, 10 - sum(hs))
        xs = [x0]
        for h in hs:
            xs.append(xs[-1] + h)
        kind = rng.choice(["free", "clamped"])
        r = rng.random()
        src = None
        if r < 0.2 and kind == "clamped":
            src = [complex(rng.uniform(-2, 2), rng.uniform(-1, 1) if cx else 0) * s for s in (1, 0.5, 0.1, 0.02)]
            ys = [pe(src, x) for x in xs]
            d = [src[1], 2 * src[2], 3 * src[3]]
            f0, fn = pe(d, xs[0]), pe(d, xs[-1])
        elif r < 0.3 and kind == "free":
            src = [complex(rng.uniform(-2, 2), rng.uniform(-1, 1) if cx else 0), complex(rng.uniform(-1, 1), rng.uniform(-1, 1) if cx else 0)]
            ys = [pe(src, x) for x in xs]
            f0 = fn = 0
        else:
            ys = [complex(rng.uniform(-3, 3), rng.uniform(-3, 3) if cx else 0) for _ in xs]
            f0 = complex(rng.uniform(-2, 2), rng.uniform(-2, 2) if cx else 0)
            fn = complex(rng.uniform(-2, 2), rng.uniform(-2, 2) if cx else 0)
        cases.append(make(kind, cx, xs, ys, f0, fn, src=src))
    # error cases
    for kind in ("free", "clamped"):
        cases.append(make(kind, False, [1.0], [2.0], 0, 0, err_case="short"))
        cases.append(make(kind, False, [], [], 0, 0, err_case="short"))
        cases.append(make(kind, False, [0.0, 1.0, 2.0], [1.0, 2.0], 0, 0, err_case="mismatch"))
        cases.append(make(kind, False, [0.0, 1.0], [1.0, 2.0, 3.0], 0, 0, err_case="mismatch"))
        cases.append(make(kind, False, [0.0, 2.0, 1.0, 3.0], [1.0, 2.0, 0.0, 1.0], 0, 0, err_case="decreasing"))
        cases.append(make(kind, True, [3.0, 2.0], [1j, 2.0], 0, 0, err_case="decreasing"))
    return cases


def brief(c):
    return {k: c[k] for k in ("id", "kind", "cx", "xs", "ys", "f0", "fn", "tol", "src", "has_src", "err_case") if k in c}


def judge(ctx, cases):
    for k, c in enumerate(cases):
        c["id"] = k + 1
    rows = fncommon.observe(ctx, "spline", cases, "spl", nproc=8)
    viols = fncommon.validate(ctx, rows, "Val_C16", "spl", nshards=12, env={"VH_KS": KS}, timeout=1500)
    # design level (drift, not a violation): the sweeps of module SplineSweep over doubles on the recorded data; its pieces
    # must agree with the values and slopes the real spline returned inside every piece, within the contract's rounding allowance
    drows = [{k: r[k] for k in ("id", "kind", "cx", "xs", "ys", "f0", "fn", "err_case", "obs")} for r in rows]
    ndrift = len(ctx.drift)
    fncommon.validate(ctx, drows, "Trace_Spline", "spldl", nshards=12, env={"VH_KS": KS}, timeout=1500)
    ctx.traces -= len(drows)
    st = [x for x in ctx.notes.get("_stat", []) if x and x[0] == "spline_runs_explained"]
    ctx.notes["_stat"] = [x for x in ctx.notes.get("_stat", []) if not (x and x[0] == "spline_runs_explained")]
    for key, v in (("validated_against_design", len(drows)), ("explained", sum(x[1] for x in st)), ("drifted", len(ctx.drift) - ndrift)):
        ctx.notes["spline_runs_%s" % key] = ctx.notes.get("spline_runs_%s" % key, 0) + v
    for c in cases:
        xs = [vlib.pair_to_float(x) for x in c["xs"]]
        hs = [b - a for a, b in zip(xs, xs[1:])]
        ctx.count_case(brief(c), len(xs) >= 3 and c["err_case"] == "none" and max(hs) > 1.01 * min(hs))
    for c in cases[:: max(1, len(cases) // 3)][:3]:
        ctx.sample(brief(c))
    for row, payload in viols:
        for conj in payload:
            ctx.violation("spline_" + row["kind"] + ("_complex" if row["cx"] else "_real"), conj, brief(row), {"st": row["obs"]["st"]})


def run(ctx):
    rng = random.Random(ctx.seed)
    # E1: the design model of the two constructors (right-hand sides, forward sweep, closing row, back substitution) over
    # exact rationals: what the sweeps leave is the spline of the contract, for every small knot vector / data / end slopes
    vlib.e1(ctx, "MC_SplineSweep", "SplineSweep", ["Begin", "Forward", "Close", "Back"],
            cfg="MC_SplineSweep.cfg" if ctx.tier == "quick" else "MC_SplineSweep_thorough.cfg", workers=4, timeout=1800)
    lat = lattice(ctx)
    judge(ctx, lat + seeded(ctx, rng, 400 if ctx.tier == "quick" else 4000))
    ctx.notes["lattice_cases"] = len(lat)
    ctx.rule = ("lattice: 2-4 (thorough 2-6) knots, every combination of spacings {0.5,1,2} from three origins, integer and Gaussian-integer "
                "ordinates, free and clamped, exact-reproduction cases; seeded: 2-40 knots in [-10,10] with spacing ratio up to 50, random "
                "real/complex ordinates and end slopes; error cases; non-trivial = >= 3 knots with unequal spacing")
    ctx.assumptions += ["characterisation + uniqueness theorem stands in for an independent dense solve (DESIGN §4 C16)",
                        "tolerance eps*scale*max(%s*(hmax/hmin)^2*(1+xmax)^3, 64*(1+xmax/hmin)^3): cubics are stored expanded in powers of x" % KS]


def replay(ctx, body):
    c = dict(body["case"])
    xs = [vlib.pair_to_float(x) for x in c["xs"]]
    c["probe"] = [fp(p) for p in (probes(xs) if c["err_case"] == "none" and len(xs) >= 2 else [0.0])]
    judge(ctx, [c, dict(c)])
