"""C17 - least-squares fitting returns the least-squares solution.
E2: linear_fit on every permutation of small integer data sets (enumerated inputs) + seeded real/complex data: TLC checks
the normal equations (residuals orthogonal to 1 and x) and exact reproduction of linear data.
E3: Levenberg-Marquardt (curve_fit with finite differences, curve_fit_jac with analytic Jacobian) with a call-counting
model closure and a hard budget: TLC (Val_C17, module Fit) checks termination, linear-in-parameter models against the
normal-equation solution computed in TLA+, model-generated data against the true parameters, invalid settings -> Err.
E1 + E3 design level: the control skeleton of curve_fit_jac (LmControl: damping search, loop test, which trial point is
kept, where Err can arise) is model-checked over all verdict sequences and every real run's closure-call blocks are
validated against it with the verdicts recomputed by TLC from the recorded model values (Trace_Lm)."""
import itertools
import math
import random

import fncommon
import vlib
from checks import c11
from vlib import float_to_pair as fp

LEVEL = "exploration"
KF = "8"
KS = "4"


def lin_case(xs, ys, cx=False, exact=None, mismatch=False):
    cz = lambda z: c11.cz(complex(z).real, complex(z).imag)
    return {"variant": "linear", "cx": cx, "xs": [cz(x) for x in xs] if cx else [fp(x) for x in xs],
            "ys": [cz(y) for y in ys] if cx else [fp(y) for y in ys],
            "xsc": [cz(x) for x in xs], "ysc": [cz(y) for y in ys],
            "exact": exact is not None, "ea": cz(exact[0] if exact else 0), "eb": cz(exact[1] if exact else 0), "mismatch": mismatch}


def linear_cases(ctx, rng):
    cases = []
    grids = [(-2, 0, 1), (-1, 0, 2, 3), (0, 1, 2, 4)]
    for xs in grids:
        for ys in itertools.product((-2, 0, 3), repeat=len(xs)):
            pts = list(zip(xs, ys))
            perms = itertools.permutations(pts) if len(xs) <= 3 else [pts, pts[::-1], pts[1:] + pts[:1]]
            for perm in perms:
                cases.append(lin_case([p[0] for p in perm], [p[1] for p in perm]))
    for _ in range(300 if ctx.tier == "quick" else 3000):
        m = rng.randint(3, 60)
        cx = rng.random() < 0.3
        xs = [complex(rng.uniform(-2, 2), rng.uniform(-1, 1) if cx else 0) for _ in range(m)]
        if rng.random() < 0.4:
            a = complex(rng.uniform(-2, 2), rng.uniform(-1, 1) if cx else 0)
            b = complex(rng.uniform(-2, 2), rng.uniform(-1, 1) if cx else 0)
            ys = [a * x + b for x in xs]
            cases.append(lin_case([x if cx else x.real for x in xs], [y if cx else y.real for y in ys], cx, exact=(a, b)))
        else:
            ys = [complex(rng.uniform(-3, 3), rng.uniform(-3, 3) if cx else 0) for _ in xs]
            cases.append(lin_case([x if cx else x.real for x in xs], [y if cx else y.real for y in ys], cx))
    cases.append(lin_case([0.0, 1.0, 2.0], [1.0, 2.0], mismatch=True))
    cases.append(lin_case([0.0, 1.0], [1.0, 2.0, 3.0], mismatch=True))
    # the validator reads complex pairs uniformly
    for c in cases:
        c["xs"], c["ys"] = c.pop("xsc"), c.pop("ysc")
        c["xs_real"] = not c["cx"]
    return cases


def model(kind, x, p):
    if kind == "poly":
        return sum(c * x ** k for k, c in enumerate(p))
    if kind == "trig":
        return sum(c * b for c, b in zip(p, [1.0, math.sin(x), math.cos(x), math.sin(2 * x)]))
    if kind == "exp":
        return p[0] * math.exp(p[1] * x)
    if kind == "gauss":
        return p[0] * math.exp(-(x - p[1]) ** 2 / p[2] ** 2)
    return p[0] / (1 + math.exp(-p[1] * (x - p[2])))


def lm_cases(ctx, rng, n):
    cases = []
    for k in range(n):
        kind = rng.choice(["poly", "poly", "trig", "exp", "gauss", "logistic"])
        v = {"poly": rng.randint(1, 4), "trig": rng.randint(1, 4), "exp": 2, "gauss": 3, "logistic": 3}[kind]
        m = rng.randint(max(3, v + 2), 60)
        xs = sorted(rng.uniform(-2, 2) for _ in range(m))
        if kind in ("poly", "trig"):
            truth = [rng.uniform(-2, 2) for _ in range(v)]
        elif kind == "exp":
            truth = [rng.uniform(0.5, 2), rng.uniform(-1, 1)]
        elif kind == "gauss":
            truth = [rng.uniform(0.5, 2), rng.uniform(-0.5, 0.5), rng.uniform(0.8, 1.5)]
        else:
            truth = [rng.uniform(1, 3), rng.uniform(1, 3), rng.uniform(-0.5, 0.5)]
        # noisy data for the non-linear models, too (a third of them): the minimiser is then unknown, and the result is judged
        # by termination, finiteness and by the absence of a better point one Gauss-Newton step away
        noisy = rng.random() < (0.5 if kind in ("poly", "trig") else 0.33)
        ys = [model(kind, x, truth) + (rng.gauss(0, 0.05) if noisy else 0.0) for x in xs]
        init = [t * (1 + rng.uniform(-0.2, 0.2)) + (0.1 * rng.uniform(-1, 1) if abs(t) < 0.05 else 0) for t in truth]
        tol = 10.0 ** (-rng.uniform(6, 12))
        damping = rng.uniform(0.1, 5)
        mult = rng.uniform(1.2, 3)
        h = 10.0 ** (-rng.uniform(2, 5))
        variant = rng.choice(["jac", "fd"])
        c = {"variant": variant, "model": kind, "v": v, "xs": [fp(x) for x in xs], "ys": [fp(y) for y in ys], "init": [fp(x) for x in init],
             "truth": [fp(t) for t in truth], "tol": fp(tol), "damping": fp(damping), "mult": fp(mult), "h": fp(h), "budget": 400000,
             "recover": not noisy, "mustok": kind in ("poly", "trig") or not noisy}
        r = rng.random()
        if r < 0.03:
            c["tol"] = fp(-tol)
        elif r < 0.06:
            c["damping"] = fp(-damping)
        elif r < 0.09 and variant == "fd":
            c["h"] = fp(-h)
        elif r < 0.12:
            c["ys"] = c["ys"][:-1]
        cases.append(c)
    return cases


def brief(c):
    return {k: v for k, v in c.items() if k not in ("st", "lin", "params", "calls")}


def judge(ctx, groups):
    total = 0
    for gi, cases in enumerate(groups):
        for k, c in enumerate(cases):
            c["id"] = total + k + 1
        total += len(cases)
        # linear_fit cases carry complex pairs; the harness wants plain reals for real data
        send = []
        for c in cases:
            if c["variant"] == "linear" and not c["cx"]:
                s = dict(c)
                s["xs"] = [z[0] for z in c["xs"]]
                s["ys"] = [z[0] for z in c["ys"]]
                send.append(s)
            else:
                send.append(c)
        rows = fncommon.observe(ctx, "fit", send, "fit%d" % gi, nproc=8)
        for r, c in zip(rows, cases):
            if c["variant"] == "linear":
                r["xs"], r["ys"] = c["xs"], c["ys"]
        slim = [{k: v for k, v in r.items() if k != "blocks"} for r in rows]
        viols0 = fncommon.validate(ctx, slim, "Val_C17", "fit%d" % gi, nshards=12, env={"VH_KF": KF, "VH_KS": KS}, timeout=1500)
        viols = viols0
        # design level (drift, not a violation): the closure-call blocks of the real curve_fit_jac runs against the control
        # skeleton LmControl, with the verdicts computed by TLC from the recorded model values
        keys = ("id", "variant", "xs", "ys", "init", "tol", "damping", "st", "params", "blocks")
        jrows = []
        for r in rows:
            if r.get("variant") == "jac":
                fb = sum(b["n"] for b in r["blocks"] if b["k"] == "f")
                jrows.append(dict({k: r[k] for k in keys}, blocks_complete=(fb == r["calls"] and len(r["blocks"]) < 800)))
        if jrows:
            ndrift = len(ctx.drift)
            fncommon.validate(ctx, jrows, "Trace_Lm", "dllm%d" % gi, nshards=6, timeout=1500)
            ctx.traces -= len(jrows)
            st = [x for x in ctx.notes.get("_stat", []) if x and x[0] == "lm_runs_explained"]
            ctx.notes["_stat"] = [x for x in ctx.notes.get("_stat", []) if not (x and x[0] == "lm_runs_explained")]
            for key, v in (("validated_against_design", sum(1 for r in jrows if r["blocks_complete"] and r["st"] in ("ok", "err"))),
                           ("explained", sum(x[1] for x in st)), ("drifted", len(ctx.drift) - ndrift)):
                ctx.notes["curve_fit_jac_runs_%s" % key] = ctx.notes.get("curve_fit_jac_runs_%s" % key, 0) + v
        for c in cases:
            ctx.count_case(brief(c), c["variant"] == "linear" and len(c["xs"]) >= 3 or c.get("v", 0) >= 2)
        for c in cases[:: max(1, len(cases) // 2)][:2]:
            ctx.sample(brief(c))
        for row, payload in viols:
            for conj in payload:
                routine = {"linear": "linear_fit", "fd": "curve_fit", "jac": "curve_fit_jac"}[row["variant"]]
                ctx.violation(routine, conj, brief(row), {"st": row["st"], "params": vlib.decode(row.get("params")), "lin": vlib.decode(row.get("lin")),
                                                          "calls": row.get("calls")})


def run(ctx):
    rng = random.Random(ctx.seed)
    vlib.e1(ctx, "MC_LmControl", "LmControl", ["Start", "SearchPass", "MainTest", "MainPass", "SolveFail"], workers=2, timeout=300)
    lin = linear_cases(ctx, rng)
    lm = lm_cases(ctx, rng, 500 if ctx.tier == "quick" else 5000)
    judge(ctx, [lin, lm])
    st = ctx.notes.pop("_stat", [])
    ctx.notes["lm_runs_returning_ok"] = sum(x[1] for x in st)
    ctx.notes["lm_runs_accuracy_judged_well_conditioned"] = sum(x[3] for x in st)
    ctx.notes["linear_cases"] = len(lin)
    ctx.notes["lm_cases"] = len(lm)
    ctx.rule = ("linear_fit: every permutation of integer data on three small grids + seeded real/complex data of 3-60 points (exactly linear "
                "and arbitrary) + mismatched lengths; LM: polynomial / trigonometric bases (1-4 parameters, noise-free and noisy) and "
                "exp / gaussian / logistic models with starts within 20% of the truth, tol 1e-12..1e-6, damping 0.1-5, multiplier 1.2-3, "
                "both variants, invalid settings; non-trivial = >= 3 points (linear) / >= 2 parameters (LM)")
    ctx.assumptions += ["LM accuracy, in the quantity the stopping rule controls: S(result) - S(least-squares or generating parameters) <= %s*tol "
                        "(+ rounding floor), any conditioning; worst ratio of the unchanged code over six seeds: 0.22" % KS,
                        "LM parameter bound %s*(1+|p|)*(sqrt(tol/lam)+1e-7), lam = half the inverse-iteration estimate of lambda_min(J^T J) at the "
                        "target (>= the proven AM-GM lower bound), judged only for designs with lam >= 1e-3 (the property's 'well-conditioned "
                        "designs'); worst ratio of the unchanged code over six seeds: 0.15 of the unit, i.e. K has a 50-fold margin" % KF,
                        "a curve_fit failure is attributed to the known jac_finite_differences sign finding only when the same case passes "
                        "the whole contract through the twin (optimize/mod.rs of the tree under test with that one statement corrected, built by "
                        "harness/build.rs); otherwise it is reported as a fresh violation",
                        "linear least-squares reference by Gaussian elimination of the normal equations in TLA+ (well-conditioned designs only)"]


def replay(ctx, body):
    c = dict(body["case"])
    judge(ctx, [[c, dict(c)]])
