"""C18 - orthogonal polynomial constructors return the exact classical polynomials.
E2: TLC (Gen_C18) enumerates family x n x tolerance x field exhaustively; the harness calls the
constructors; TLC (Val_C18) compares degree and every coefficient with OrthoPoly's closed forms."""
import vlib

LEVEL = "exploration"


def judge(ctx, cases_path):
    obs = ctx.path("obs.ndjson")
    vlib.vh("c18", cases_path, obs)
    r = vlib.tlc("Val_C18", cfg="Val.cfg", env={"VH_OBS": obs}, timeout=600)
    ctx.add_tlc(r)
    rows = vlib.read_ndjson(obs)
    checked = r.tagged("CHECKED")
    if not checked or checked[0][1] != len(rows):
        raise vlib.ToolError("Val_C18 did not consume all observations: %s / %d" % (checked, len(rows)))
    for o in rows:
        case = {k: o[k] for k in ("fam", "n", "tol", "cx")}
        ctx.count_case(case, o["n"] >= 2)
    for s in rows[::max(1, len(rows) // 4)][:4]:
        ctx.sample({k: s[k] for k in ("fam", "n", "tol", "cx", "st", "order")})
    for v in r.tagged("VIOL"):
        o = rows[v[1] - 1]
        for conj in v[2]:
            ctx.violation(o["fam"], conj, {k: o[k] for k in ("id", "fam", "n", "tol", "cx")},
                          {"order": o.get("order"), "st": o.get("st")})
    ctx.traces += len(rows)


def run(ctx):
    nmax = 20
    cases = ctx.path("cases.ndjson")
    g = vlib.tlc("Gen_C18", cfg="Gen.cfg", env={"VH_CASES": cases, "VH_NMAX": nmax}, timeout=300)
    ctx.add_tlc(g)
    judge(ctx, cases)
    ctx.exhaustive = True
    ctx.rule = ("all 5 families x n=0..20 x zero tolerance in {1e-14,1e-12,1e-10,1e-8,1e-6} x {real,complex} "
                "(enumerated by TLC from Gen_C18); a case is non-trivial when n >= 2; distinct by (family,n,tol,field)")
    ctx.assumptions += ["F64.java / JVM arithmetic; OrthoPoly closed forms (self-checked by TLC against the "
                        "three-term recurrences and normalisations in RefSelfCheck)",
                        "rounding allowance 256*eps*(n+1)*max|coefficient|"]


def replay(ctx, body):
    cases = ctx.path("replay-case.ndjson")
    vlib.write_ndjson(cases, [body["case"]])
    judge(ctx, cases)
