"""C19 - finite-difference derivatives are exact on low-degree polynomials.
E2: TLC (Gen_C19) enumerates polynomials of degree <= 6 x dyadic points x dyadic steps; seeded random
polynomials and a transcendental catalogue come from the generator below; TLC (Val_C19) evaluates the exact
derivative plus the closed-form truncation term (polynomials) or the classical remainder bound (smooth functions)."""
import math
import random

import fncommon
import vlib
from checks import c11
from vlib import float_to_pair as fp

LEVEL = "exploration"


def seeded(ctx, rng, n):
    cases = []
    for k in range(n):
        cx = rng.random() < 0.4
        x = rng.uniform(-3, 3)
        h = math.exp(rng.uniform(math.log(1e-3), math.log(0.5)))
        if k % 2 == 0:
            deg = rng.randint(0, 6)
            c = [c11.cz(rng.uniform(-2, 2), rng.uniform(-2, 2) if cx else 0.0) for _ in range(deg + 1)]
            f = {"k": "poly", "c": c, "p": []}
        else:
            kind = rng.choice(["sin", "exp"] if not cx else ["cis"])
            if kind == "exp":
                p = [rng.uniform(0.5, 2), rng.uniform(-1.5, 1.5)]
            else:
                p = [rng.uniform(0.5, 2), rng.uniform(0.3, 4), rng.uniform(0, 6.28)]
            f = {"k": kind, "c": [c11.cz(0.0)], "p": [fp(v) for v in p]}
        cases.append({"cx": cx, "f": f, "x": fp(x), "h": fp(h)})
    return cases


def brief(c):
    return {k: c[k] for k in ("id", "cx", "f", "x", "h") if k in c}


def judge(ctx, cases):
    for k, c in enumerate(cases):
        c["id"] = k + 1
    rows = fncommon.observe(ctx, "fd", cases, "fd", nproc=4)
    viols = fncommon.validate(ctx, rows, "Val_C19", "fd", nshards=8)
    for c in cases:
        ctx.count_case(brief(c), c["f"]["k"] != "poly" or len(c["f"]["c"]) >= 2)
    for c in cases[:: max(1, len(cases) // 3)][:3]:
        ctx.sample(brief(c))
    for row, payload in viols:
        for conj in payload:
            ctx.violation("derivative" if conj.startswith("first") else "second_derivative", conj, brief(row),
                          {"d1": vlib.decode(row["d1"]), "d2": vlib.decode(row["d2"])})


def run(ctx):
    rng = random.Random(ctx.seed)
    cases = fncommon.gen_tlc(ctx, "Gen_C19", "c19")
    n = len(cases)
    cases += seeded(ctx, rng, 600 if ctx.tier == "quick" else 6000)
    judge(ctx, cases)
    ctx.notes["exhaustive_lattice_cases"] = n
    ctx.rule = ("TLC lattice: monomials, two-term and dense polynomials of degree <= 6 (real and complex) x dyadic points in [-3,3] x steps "
                "2^-1..2^-10; seeded: random polynomials of degree <= 6 and sin/exp/e^{i.} functions, x in [-3,3], h in [1e-3,0.5]; "
                "non-trivial = non-constant function")
    ctx.assumptions += ["rounding allowance 16*eps*F/h (F/h^2), F = sum|a_k|(|x|+2h)^k or the function's amplitude"]


def replay(ctx, body):
    c = dict(body["case"])
    judge(ctx, [c, c])
