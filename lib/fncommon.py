"""Driver for function-style checks: cases -> harness (one observation line per case) -> TLC validator
(one state per observation, VIOL lines) -> violations mapped back to cases."""
import os
from concurrent.futures import ThreadPoolExecutor

import vlib


def observe(ctx, task, cases, tag, nproc=8, timeout=1800):
    """run `vh <task>` on the cases in nproc chunks; returns the observation rows in case order"""
    nproc = max(1, min(nproc, len(cases)))
    n = len(cases)
    bounds = [(k * n // nproc, (k + 1) * n // nproc) for k in range(nproc)]
    paths = []
    for k, (a, b) in enumerate(bounds):
        cp = ctx.path("%s-cases-%d.ndjson" % (tag, k))
        op = ctx.path("%s-obs-%d.ndjson" % (tag, k))
        vlib.write_ndjson(cp, cases[a:b])
        paths.append((cp, op))
    with ThreadPoolExecutor(max_workers=nproc) as ex:
        list(ex.map(lambda p: vlib.vh(task, p[0], p[1], timeout=timeout), paths))
    rows = []
    for cp, op in paths:
        rows += vlib.read_ndjson(op)
        os.remove(cp)
        os.remove(op)
    if len(rows) != len(cases):
        raise vlib.ToolError("vh %s returned %d observations for %d cases" % (task, len(rows), len(cases)))
    return rows


def validate(ctx, rows, module, tag, nshards=8, env=None, timeout=1800, xmx="4g"):
    """returns [(row, payload)] for every VIOL line"""
    if not rows:
        return []
    nshards = max(1, min(nshards, len(rows)))
    n = len(rows)
    bounds = [(k * n // nshards, (k + 1) * n // nshards) for k in range(nshards)]
    jobs = []
    for k, (a, b) in enumerate(bounds):
        p = ctx.path("%s-shard-%d.ndjson" % (tag, k))
        vlib.write_ndjson(p, rows[a:b])
        e = {"VH_OBS": p}
        if env:
            e.update(env)
        jobs.append({"module": module, "cfg": "Val.cfg", "env": e, "timeout": timeout, "xmx": xmx,
                     "metadir": ctx.path("md-%s-%d" % (tag, k))})
    results = vlib.tlc_parallel(jobs, max_procs=nshards)
    viols = []
    for (a, b), r in zip(bounds, results):
        ctx.add_tlc(r)
        chk = r.tagged("CHECKED")
        if not chk or chk[0][1] != b - a:
            raise vlib.ToolError("%s consumed %s of %d observations" % (module, chk, b - a))
        for v in r.tagged("VIOL"):
            viols.append((rows[a + v[1] - 1], v[2]))
        for st in r.tagged("STAT"):
            ctx.notes.setdefault("_stat", []).append(st[1:])
        for d in r.tagged("DRIFT"):
            ctx.drift.append({"case": vlib.decode(rows[a + d[1] - 1]).get("id"), "what": d[2]})
    for k in range(len(bounds)):
        try:
            os.remove(ctx.path("%s-shard-%d.ndjson" % (tag, k)))
        except OSError:
            pass
    ctx.traces += len(rows)
    return viols


def gen_tlc(ctx, module, tag, env=None, timeout=900, xmx="4g"):
    p = ctx.path("%s-gen.ndjson" % tag)
    e = {"VH_CASES": p, "VH_TIER": ctx.tier, "VH_SEED": ctx.seed}
    if env:
        e.update(env)
    g = vlib.tlc(module, cfg="Gen.cfg", env=e, timeout=timeout, xmx=xmx)
    ctx.add_tlc(g)
    rows = vlib.read_ndjson(p)
    os.remove(p)
    for k, r in enumerate(rows):
        r["id"] = k + 1
    return rows
