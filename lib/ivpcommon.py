"""Common driver for IVP trace validation: run cases through the harness, shard the event trace
at run boundaries, validate every shard with TLC (Val_Ivp / other trace modules), map VIOL lines
back to cases."""
import os

import vlib


def shard_events(events, nshards):
    """split a list of events into <= nshards lists, cutting only at `reset` events"""
    runs, cur = [], []
    for e in events:
        if e.get("ev") == "reset" and e.get("pair") not in ("B", "CB") and cur:
            runs.append(cur)
            cur = []
        cur.append(e)
    if cur:
        runs.append(cur)
    nshards = max(1, min(nshards, len(runs)))
    shards = [[] for _ in range(nshards)]
    sizes = [0] * nshards
    for r in sorted(runs, key=len, reverse=True):
        k = sizes.index(min(sizes))
        shards[k] += r
        sizes[k] += len(r)
    return [s for s in shards if s]


def harness_runs(ctx, cases, tag="ivp", task="ivp", nproc=8, timeout=3000):
    """run the cases through `vh <task>` in nproc parallel processes; returns all events"""
    from concurrent.futures import ThreadPoolExecutor
    units = []
    for c in cases:
        if c.get("pair") in ("B", "CB") and units:
            units[-1].append(c)       # a B run stays right behind its A run
        else:
            units.append([c])
    nproc = max(1, min(nproc, len(units)))
    chunks = [[c for u in units[k::nproc] for c in u] for k in range(nproc)]
    paths = []
    for k, ch in enumerate(chunks):
        cp = ctx.path("%s-cases-%d.ndjson" % (tag, k))
        op = ctx.path("%s-obs-%d.ndjson" % (tag, k))
        vlib.write_ndjson(cp, ch)
        paths.append((cp, op))
    with ThreadPoolExecutor(max_workers=nproc) as ex:
        list(ex.map(lambda p: vlib.vh(task, p[0], p[1], timeout=timeout), paths))
    events = []
    for cp, op in paths:
        events += vlib.read_ndjson(op)
        os.remove(op)
        os.remove(cp)
    return events


def validate(ctx, events, module, tag="ivp", nshards=8, env=None, timeout=1500, cfg="Val.cfg"):
    """returns list of (event, conjunct-set) for every VIOL line; accounts TLC states"""
    shards = shard_events(events, nshards)
    jobs = []
    for k, sh in enumerate(shards):
        p = ctx.path("%s-shard-%d.ndjson" % (tag, k))
        vlib.write_ndjson(p, sh)
        e = {"VH_OBS": p}
        if env:
            e.update(env)
        jobs.append({"module": module, "cfg": cfg, "env": e, "timeout": timeout,
                     "metadir": ctx.path("md-%s-%d" % (tag, k))})
    results = vlib.tlc_parallel(jobs, max_procs=nshards)
    viols = []
    for sh, r in zip(shards, results):
        ctx.add_tlc(r)
        chk = r.tagged("CHECKED")
        if not chk or chk[0][1] != len(sh):
            raise vlib.ToolError("%s consumed %s of %d events" % (module, chk, len(sh)))
        for v in r.tagged("VIOL"):
            viols.append((sh[v[1] - 1], v[2], v[3:] if len(v) > 3 else None))
        for st in r.tagged("STAT"):
            ctx.notes.setdefault("_stat", []).append(st[1:])
        for a in r.tagged("ACT"):
            key = "%s!%s" % (module, a[1])
            ctx.actions.setdefault(key, [0, 0])[0] += 1
        for d in r.tagged("DRIFT"):
            ctx.drift.append({"event": vlib.decode(sh[d[1] - 1]), "what": d[2]})
    for k in range(len(shards)):
        try:
            os.remove(ctx.path("%s-shard-%d.ndjson" % (tag, k)))
        except OSError:
            pass
    return viols


def run_stats(events):
    """per case id: items, nones, errs, last time, calls, completed"""
    st = {}
    for e in events:
        c = e.get("c")
        s = st.setdefault(c, {"items": 0, "none": 0, "err": None, "calls": 0, "snaps": 0, "panic": False, "builderr": None})
        ev = e["ev"]
        if ev == "item":
            s["items"] += 1
        elif ev == "none":
            s["none"] += 1
        elif ev == "err":
            s["err"] = e["kind"]
        elif ev == "end":
            s["calls"] = e["calls"]
        elif ev == "snap":
            s["snaps"] += 1
        elif ev == "panic":
            s["panic"] = True
        elif ev == "builderr":
            s["builderr"] = e["kind"]
    return st


def case_brief(case):
    keys = ("id", "solver", "dim", "dyn", "cx", "t0", "t1", "dtmin", "dtmax", "tol", "rhs", "y0", "fail_at", "lip", "acc", "pair", "min_first")
    return {k: case[k] for k in keys if k in case}


def annotate_snaps(events):
    """pure look-ahead annotation of step() snapshots for Trace_IvpProtocol: what the call made the iterator do and
    the next snapshot of the same run; returns the events (reset / snap / item / none / err only)"""
    import vlib as _v
    zero = _v.float_to_pair(0.0)
    out = []
    run = []

    def flush():
        # derivative-evaluation times recorded between two snapshots belong to the earlier step() call
        has_evals = any(e["ev"] == "eval" for e in run)
        cur = None
        for e in run:
            if e["ev"] == "snap":
                cur = e
                e["ets"] = []
                e["has_evals"] = has_evals
            elif e["ev"] == "eval" and cur is not None:
                cur["ets"].append(e["t"])
        ev = [e for e in run if e["ev"] in ("reset", "snap", "item", "none", "err")]
        snaps = [k for k, e in enumerate(ev) if e["ev"] == "snap"]
        for idx, p in enumerate(snaps):
            e = ev[p]
            nx = ev[p + 1] if p + 1 < len(ev) else {"ev": "none"}
            e["nxt"] = {"snap": "redo"}.get(nx["ev"], nx["ev"])
            e["nt"] = nx["t"] if nx["ev"] == "item" else zero
            e["errkind"] = nx.get("kind", "") if nx["ev"] == "err" else ""
            if idx + 1 < len(snaps):
                n = ev[snaps[idx + 1]]
                e.update({"has_next": True, "n_time": n["time"], "n_dt": n["dt"], "n_ym": n["ym"], "n_vlen": n["vlen"]})
            else:
                e.update({"has_next": False, "n_time": zero, "n_dt": zero, "n_ym": 0, "n_vlen": 0})
        out.extend(ev)

    for e in events:
        if e["ev"] == "reset" and run:
            flush()
            run = []
        run.append(dict(e))
    if run:
        flush()
    return out


def validate_design(ctx, events, tag="dsn", nshards=8, timeout=1500):
    """validate annotated snapshot traces against IvpProtocol over F64; returns list of drifting runs
    [(case id, event)] - a run that the design does not explain is removed and the rest re-validated"""
    import os as _os
    shards = shard_events(events, nshards)
    drifts = []
    total_runs = 0
    for sh in shards:
        total_runs += sum(1 for e in sh if e["ev"] == "reset")
    for rnd in range(6):
        jobs = []
        live = [sh for sh in shards if sh]
        if not live:
            break
        for k, sh in enumerate(live):
            p = ctx.path("%s-shard-%d.ndjson" % (tag, k))
            vlib.write_ndjson(p, sh)
            jobs.append({"module": "Trace_IvpProtocol", "cfg": "Trace_IvpProtocol.cfg", "env": {"VH_OBS": p}, "timeout": timeout,
                         "metadir": ctx.path("md-%s-%d" % (tag, k)), "workers": 1})
        results = vlib.tlc_parallel(jobs, max_procs=nshards)
        nxt = []
        for sh, r in zip(live, results):
            ctx.add_tlc(r)
            reached = r.tagged("REACHED")
            if not reached:
                raise vlib.ToolError("Trace_IvpProtocol printed no REACHED line")
            got, n = reached[0][1], reached[0][2]
            if got >= n:
                nxt.append([])
                continue
            bad = sh[got]                     # first event that no design action explains (0-based index = got)
            cid = bad["c"]
            drifts.append((cid, bad))
            nxt.append([e for e in sh if e["c"] != cid])
        shards = nxt
    for k in range(nshards):
        try:
            _os.remove(ctx.path("%s-shard-%d.ndjson" % (tag, k)))
        except OSError:
            pass
    return drifts, total_runs
