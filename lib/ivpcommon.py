"""Common driver for IVP trace validation: run cases through the harness, shard the event trace
at run boundaries, validate every shard with TLC (Val_Ivp / other trace modules), map VIOL lines
back to cases."""
import os

import vlib


def shard_events(events, nshards):
    """split a list of events into <= nshards lists, cutting only at `reset` events"""
    runs, cur = [], []
    for e in events:
        if e.get("ev") == "reset" and e.get("pair") != "B" and cur:
            runs.append(cur)
            cur = []
        cur.append(e)
    if cur:
        runs.append(cur)
    nshards = max(1, min(nshards, len(runs)))
    shards = [[] for _ in range(nshards)]
    sizes = [0] * nshards
    for r in sorted(runs, key=len, reverse=True):
        k = sizes.index(min(sizes))
        shards[k] += r
        sizes[k] += len(r)
    return [s for s in shards if s]


def harness_runs(ctx, cases, tag="ivp", task="ivp", nproc=8, timeout=3000):
    """run the cases through `vh <task>` in nproc parallel processes; returns all events"""
    from concurrent.futures import ThreadPoolExecutor
    units = []
    for c in cases:
        if c.get("pair") == "B" and units:
            units[-1].append(c)       # a B run stays right behind its A run
        else:
            units.append([c])
    nproc = max(1, min(nproc, len(units)))
    chunks = [[c for u in units[k::nproc] for c in u] for k in range(nproc)]
    paths = []
    for k, ch in enumerate(chunks):
        cp = ctx.path("%s-cases-%d.ndjson" % (tag, k))
        op = ctx.path("%s-obs-%d.ndjson" % (tag, k))
        vlib.write_ndjson(cp, ch)
        paths.append((cp, op))
    with ThreadPoolExecutor(max_workers=nproc) as ex:
        list(ex.map(lambda p: vlib.vh(task, p[0], p[1], timeout=timeout), paths))
    events = []
    for cp, op in paths:
        events += vlib.read_ndjson(op)
        os.remove(op)
        os.remove(cp)
    return events


def validate(ctx, events, module, tag="ivp", nshards=8, env=None, timeout=1500, cfg="Val.cfg"):
    """returns list of (event, conjunct-set) for every VIOL line; accounts TLC states"""
    shards = shard_events(events, nshards)
    jobs = []
    for k, sh in enumerate(shards):
        p = ctx.path("%s-shard-%d.ndjson" % (tag, k))
        vlib.write_ndjson(p, sh)
        e = {"VH_OBS": p}
        if env:
            e.update(env)
        jobs.append({"module": module, "cfg": cfg, "env": e, "timeout": timeout,
                     "metadir": ctx.path("md-%s-%d" % (tag, k))})
    results = vlib.tlc_parallel(jobs, max_procs=nshards)
    viols = []
    for sh, r in zip(shards, results):
        ctx.add_tlc(r)
        chk = r.tagged("CHECKED")
        if not chk or chk[0][1] != len(sh):
            raise vlib.ToolError("%s consumed %s of %d events" % (module, chk, len(sh)))
        for v in r.tagged("VIOL"):
            viols.append((sh[v[1] - 1], v[2], v[3:] if len(v) > 3 else None))
        for st in r.tagged("STAT"):
            ctx.notes.setdefault("_stat", []).append(st[1:])
        for a in r.tagged("ACT"):
            key = "%s!%s" % (module, a[1])
            ctx.actions.setdefault(key, [0, 0])[0] += 1
        for d in r.tagged("DRIFT"):
            ctx.drift.append({"event": vlib.decode(sh[d[1] - 1]), "what": d[2]})
    for k in range(len(shards)):
        try:
            os.remove(ctx.path("%s-shard-%d.ndjson" % (tag, k)))
        except OSError:
            pass
    return viols


def run_stats(events):
    """per case id: items, nones, errs, last time, calls, completed"""
    st = {}
    for e in events:
        c = e.get("c")
        s = st.setdefault(c, {"items": 0, "none": 0, "err": None, "calls": 0, "snaps": 0, "panic": False, "builderr": None})
        ev = e["ev"]
        if ev == "item":
            s["items"] += 1
        elif ev == "none":
            s["none"] += 1
        elif ev == "err":
            s["err"] = e["kind"]
        elif ev == "end":
            s["calls"] = e["calls"]
        elif ev == "snap":
            s["snaps"] += 1
        elif ev == "panic":
            s["panic"] = True
        elif ev == "builderr":
            s["builderr"] = e["kind"]
    return st


def case_brief(case):
    keys = ("id", "solver", "dim", "dyn", "cx", "t0", "t1", "dtmin", "dtmax", "tol", "rhs", "y0", "fail_at", "lip", "acc", "pair")
    return {k: case[k] for k in keys if k in case}
