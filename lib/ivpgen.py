"""Seeded generators of IVP cases (inputs only - no expected outcomes are computed here; the
oracles are in the TLA+ modules).  Floats travel as [hi, lo] bit pairs (F64 representation)."""
import math
import random

from vlib import float_to_pair as fp

SOLVERS = ["euler", "rk45", "rk23", "adams5", "adams3", "bdf6", "bdf2"]
ADAPTIVE = SOLVERS[1:]
STARTUP = {"adams5": 4, "adams3": 2, "bdf6": 7, "bdf2": 3}


def cpair(re, im=0.0):
    return [fp(re), fp(im)]


def block(rng, kind, span, grow_ok=True, amp=1.0):
    """returns (block dict, list of initial values (floats), width, growth rate, lipschitz)"""
    if kind == "zero":
        return {"k": "zero", "p": []}, [rng.uniform(-1, 1)], 1, 0.0, 0.0
    if kind == "lin":
        lam = rng.uniform(0.2, 2.0) * rng.choice([-1, 1])
        if lam > 0 and lam * span > 4.0:
            lam = -lam
        b = rng.uniform(-1, 1)
        return {"k": "lin", "p": [fp(lam), fp(b)]}, [amp * rng.uniform(0.3, 1.5) * rng.choice([-1, 1])], 1, max(lam, 0), abs(lam)
    if kind == "grow":    # y' = lam y with lam > 0: steps are accepted with small estimates, doubled, and sometimes rejected
        lam = rng.uniform(0.5, 1.5)
        return {"k": "lin", "p": [fp(lam), fp(0.0)]}, [amp * rng.uniform(0.5, 1.5) * rng.choice([-1, 1])], 1, lam, lam
    if kind == "rot":
        a = rng.uniform(-1.0, 0.5)
        if a > 0 and a * span > 4.0:
            a = -a
        w = rng.uniform(0.5, 3.0)
        return {"k": "rot", "p": [fp(a), fp(w)]}, [amp * rng.uniform(0.3, 1.5), amp * rng.uniform(-1, 1)], 2, max(a, 0), math.hypot(a, w)
    if kind == "tv":
        a = rng.uniform(-1, 1)
        b = rng.uniform(-1, 1)
        return {"k": "tv", "p": [fp(a), fp(b)]}, [rng.uniform(0.3, 1.5)], 1, None, None   # checked by caller
    if kind == "logistic":
        r = rng.uniform(0.5, 2.0)
        K = rng.uniform(1.0, 3.0)
        return {"k": "logistic", "p": [fp(r), fp(K)]}, [K * rng.uniform(0.1, 0.9)], 1, 0.0, r
    if kind == "recip":
        c = rng.uniform(0.5, 2.0)
        y0 = rng.uniform(0.5, 2.0)
        return {"k": "recip", "p": [fp(c)]}, [y0], 1, 0.0, 2 * c * y0
    if kind == "forcing":
        al = rng.uniform(0.5, 2.0)
        om = rng.uniform(0.5, 4.0)
        ph = rng.uniform(0, 2 * math.pi)
        return {"k": "forcing", "p": [fp(al), fp(om), fp(ph)]}, [rng.uniform(-1, 1)], 1, 0.0, om
    if kind == "rough":   # fast forcing: forces rejections
        al = rng.uniform(2.0, 6.0)
        om = rng.uniform(8.0, 40.0)
        ph = rng.uniform(0, 2 * math.pi)
        return {"k": "forcing", "p": [fp(al), fp(om), fp(ph)]}, [rng.uniform(-1, 1)], 1, 0.0, om
    if kind == "relax":
        kk = rng.uniform(0.5, 3.0)
        c = rng.uniform(-1, 1)
        return {"k": "relax", "p": [fp(kk), fp(c)]}, [c + rng.choice([0.0, 0.0, 1.0]) * rng.uniform(-1, 1)], 1, 0.0, kk
    if kind == "rest":    # solution at rest
        kk = rng.uniform(0.5, 3.0)
        c = rng.uniform(-1, 1)
        return {"k": "relax", "p": [fp(kk), fp(c)]}, [c], 1, 0.0, kk
    raise ValueError(kind)


SMOOTH_KINDS = ["lin", "rot", "tv", "logistic", "recip", "forcing", "relax", "rest"]


def system(rng, dim, span, t0, kinds=None, amp=1.0):
    """block-diagonal smooth system of dimension dim; returns (rhs, y0 complex pairs, lipschitz bound)"""
    kinds = kinds or SMOOTH_KINDS
    blocks, y0, lip = [], [], 0.0
    left = dim
    while left > 0:
        kind = rng.choice([k for k in kinds if not (k == "rot" and left < 2)] or ["lin"])
        b, init, width, growth, L = block(rng, kind, span, amp=amp)
        if kind == "tv":
            # y' = (a + b t) y ; keep the exponent bounded over [t0, t0+span]
            a = rng.uniform(-1, 1)
            bb = rng.uniform(-1, 1)
            t1 = t0 + span
            expo = max(abs(a * (t1 - t0) + bb * (t1 * t1 - t0 * t0) / 2), abs(a * span / 2 + bb * ((t0 + span / 2) ** 2 - t0 * t0) / 2))
            if expo > 4.0:
                sc = 4.0 / expo
                a *= sc
                bb *= sc
            b = {"k": "tv", "p": [fp(a), fp(bb)]}
            L = abs(a) + abs(bb) * max(abs(t0), abs(t1))
        blocks.append(b)
        y0 += [cpair(v) for v in init]
        lip = max(lip, L or 0.0)
        left -= width
    return {"fam": "blocks", "blocks": blocks}, y0, lip


def base_case(cid, solver, dim, t0, t1, dtmin, dtmax, tol, rhs, y0, **kw):
    c = {"id": cid, "solver": solver, "dim": dim, "dyn": False, "cx": False,
         "t0": fp(t0), "t1": fp(t1), "dtmin": fp(dtmin), "dtmax": fp(dtmax), "tol": fp(tol),
         "rhs": rhs, "y0": y0, "fail_at": 0, "work": False, "budget": 400000, "extra_next": 2,
         "max_items": 20000, "snaps": False, "evals": False, "min_first": False}
    c.update(kw)
    return c


def random_config(rng, solver, long_ok=True):
    t0 = rng.choice([0.0, 0.0, rng.uniform(-2, 2), -1.0, 0.5])
    dtmax = math.exp(rng.uniform(math.log(1e-3), math.log(0.5)))
    dtmin = dtmax * 10.0 ** (-rng.randint(2, 8))
    tol = 10.0 ** (-rng.uniform(3, 10))
    r = rng.random()
    if r < 0.35:
        steps = rng.uniform(1 / 3.0, 12.0)          # around the start-up boundaries
    elif r < 0.8 or not long_ok:
        steps = rng.uniform(12.0, 200.0)
    else:
        steps = rng.uniform(200.0, 2000.0)
    span = steps * dtmax
    if rng.random() < 0.15:
        # the interval ends much closer to zero than one step is long: time + (end - time) is then not
        # exact in floating point, and the final point must still be the ending time itself
        t1 = rng.choice([1.0, -1.0]) * dtmax * 10.0 ** (-rng.uniform(0.3, 3.0))
        return t1 - span, t1, dtmin, dtmax, tol, span
    return t0, t0 + span, dtmin, dtmax, tol, span


def generic_system(rng, dim):
    """generic non-linear non-autonomous coupled family for C03 (no closed form needed)"""
    def co(lo=0.1, hi=1.0):
        return rng.uniform(lo, hi) * rng.choice([-1, 1])
    sc = 1.0 / dim
    rhs = {"fam": "generic",
           "a": [[fp(co() * sc) for _ in range(dim)] for _ in range(dim)],
           "beta": [fp(co() * 0.5) for _ in range(dim)],
           "gamma": [fp(co()) for _ in range(dim)],
           "delta": [fp(co()) for _ in range(dim)],
           "omega": [fp(rng.uniform(0.5, 3.0)) for _ in range(dim)],
           "eps": [fp(co()) for _ in range(dim)],
           "eta": [fp(0.0) for _ in range(dim)], "kappa": [fp(0.0) for _ in range(dim)], "tc": [fp(0.0) for _ in range(dim)]}
    y0 = [cpair(rng.uniform(0.2, 1.0) * rng.choice([-1, 1])) for _ in range(dim)]
    return rhs, y0


def add_switch_on(rng, rhs, t1):
    """one component of a generic system gets a forcing eta exp(kappa (t - tc)) that switches on sharply shortly
    before the end of the interval (it reaches at most e^3 eta there)"""
    i = rng.randrange(len(rhs["eta"]))
    kappa = rng.uniform(20.0, 60.0)
    rhs["eta"][i] = fp(rng.uniform(0.5, 2.0) * rng.choice([-1, 1]))
    rhs["kappa"][i] = fp(kappa)
    rhs["tc"][i] = fp(t1 - rng.uniform(0.5, 3.0) / kappa)
    return rhs


HIGH = {"rk45", "adams5", "bdf6"}


def accuracy_case(rng, solver, kinds, tol, dim=None, span=None, cx=False, amp=1.0):
    """C02/C04 case: dtmax tied to the tolerance by the property's precondition
    (rate*dtmax <= 2 tol^(1/5) for the high-order solvers, <= tol^(1/3) for the low-order ones)"""
    dim = dim or rng.randint(1, 4)
    span = span or rng.uniform(0.5, 2.5)
    t0 = rng.choice([0.0, rng.uniform(-1, 1)])
    if cx:
        blocks, y0, rate = [], [], 0.0
        for _ in range(dim):
            a = rng.uniform(-1.0, 0.3)
            b = rng.uniform(0.5, 3.0) * rng.choice([-1, 1])
            c = (rng.uniform(-1, 1), rng.uniform(-1, 1))
            blocks.append({"k": "clin", "p": [fp(a), fp(b), fp(c[0]), fp(c[1])]})
            y0.append(cpair(rng.uniform(0.3, 1.5), rng.uniform(-1, 1)))
            rate = max(rate, math.hypot(a, b))
        rhs = {"fam": "blocks", "blocks": blocks}
    else:
        rhs, y0, rate = system(rng, dim, span, t0, kinds=kinds, amp=amp)
    rate = max(rate, 0.3)
    # the terms the estimator cannot see (unverified start-up and clipped steps) scale with the size of the state:
    # the property's step bound is stated for states of order one, so the tolerance is taken relative to amp here
    teff = tol / max(1.0, amp)
    lim = 2 * teff ** 0.2 / rate if solver in HIGH else teff ** (1.0 / 3) / rate
    dtmax = min(0.5, lim)
    dtmin = dtmax * 1e-7
    c = base_case(0, solver, dim, t0, t0 + span, dtmin, dtmax, tol, rhs, y0, cx=cx,
                  lip=fp(rate), acc="both", pair="", budget=3000000, max_items=200000)
    return c
