#!/usr/bin/env python3
"""Regenerates /verif/MANIFEST.json from the table below (single source of truth)."""
import json
import os
import subprocess

VERIF = os.path.dirname(os.path.dirname(os.path.abspath(__file__)))

# id -> (category, technique, level text, level note, design ref)
CHECKS = {
    "C18": ("exploration",
            "TLC-generated exhaustive cases (Gen_C18) replayed on the constructors; TLC (Val_C18) compares with OrthoPoly closed forms over F64",
            "Exhaustive over the property's whole quantifier (5 families x n=0..20 x 5 tolerances x real/complex): degree and every "
            "coefficient are compared by TLC with closed-form coefficients written in TLA+ (OrthoPoly), themselves self-checked by TLC "
            "against recurrences and normalisations. Not a proof about all n; the property only quantifies n<=20.",
            "Trusted: F64.java (IEEE ops via java.lang.Math), TLC evaluator, harness recording; rounding allowance 256*eps*(n+1)*max|coef|.",
            "DESIGN.md §4 C18"),
}

CHECKS["C01"] = ("model_checking",
    "TLC exhaustive model checking of the stepper design (IvpProtocol) against the contract (IvpContract) over integer ticks; "
    "the model's configurations replayed on the real solvers; recorded paths validated by TLC against IvpContract over IEEE doubles",
    "E1: every behaviour of the design model (all verdict sequences, controller choices, fault points, all configurations in scope) "
    "satisfies the contract and terminates. E2/E3: each real path (model configurations and seeded random ones) is checked event by "
    "event by TLC against the same contract instantiated over doubles. The model is an abstraction (integer ticks, nondeterministic "
    "numerics); the binding to the code is per observed execution.",
    "Trusted: TLC, F64.java, harness recording, the cfg(bacon_verif) hooks; integer-tick abstraction valid while steps >= 1 tick.",
    "DESIGN.md §4 C01, App. B")
CHECKS["C03"] = ("model_checking",
    "trace validation with action disambiguation: TLC (Val_IvpMethods) explains every yielded point by RK4-start or the advertised "
    "multistep/RK formula from IvpMethods.tla (literature constants, self-checked by TLC)",
    "Every point of every recorded path (7 solvers, generic non-linear non-autonomous systems) must be reproduced to 1e-10 by the "
    "published formula written in TLA+, with the embedded / predictor-corrector estimate within tolerance and the first-trial "
    "accept/reject decision matching the reference estimate. Per observed execution, not a proof over all inputs.",
    "Trusted: F64.java, TLC evaluator, IvpMethods constants (order conditions checked by TLC in MC_IvpMethods).",
    "DESIGN.md §4 C03")

NOT_YET = {}

NA = {
    "C20": "Fidelity of a build-time generated static table to a text file: no state, transitions or case analysis for a TLA+ "
           "specification to model; checking it would be a diff written in TLA+, i.e. a different technique (DESIGN.md §5).",
}


def main():
    props = [json.loads(l)["id"] for l in open(os.path.join(VERIF, "properties.jsonl")) if l.strip()]
    hook_commits = subprocess.run(["git", "-C", "/repo", "log", "--format=%h", "--grep=^verif hooks"],
                                  stdout=subprocess.PIPE, text=True).stdout.split()
    checks = []
    for pid in props:
        if pid in CHECKS:
            cat, tech, text, note, ref = CHECKS[pid]
            checks.append({
                "property_id": pid,
                "quick_cmd": "bin/check %s --tier quick" % pid,
                "thorough_cmd": "bin/check %s --tier thorough" % pid,
                "evidence_file": "/verif/evidence/%s.json" % pid,
                "replay_cmd_template": "bin/check replay {path}",
                "engine": "tla-conformance",
                "level_claimed": {"category": cat, "text": text, "design_ref": ref},
                "level_note": note,
                "technique": tech,
            })
    na = []
    for pid in props:
        if pid in CHECKS:
            continue
        na.append({"property_id": pid,
                   "reason": NA.get(pid) or NOT_YET.get(pid) or
                   "Check not built yet in this round (planned with the TLA+ machinery, see DESIGN.md §4); not claimed."})
    m = {
        "version": 1,
        "setup_cmd": "bin/check setup",
        "hooks": {
            "guard": "cfg(bacon_verif)",
            "enable": "harness/.cargo/config.toml passes --cfg bacon_verif to rustc for the path dependency on /repo "
                      "(RUSTFLAGS='--cfg bacon_verif'); off by default",
            "baseline_off_cmd": "cd /repo && cargo test --workspace --no-fail-fast --offline",
            "source_commits": hook_commits,
            "add_only": True,
        },
        "engines": [
            {"name": "tla-conformance", "path": "/verif/bin/check",
             "serves_properties": sorted(CHECKS.keys()),
             "kind_free_text": "TLA+ specifications under /verif/spec checked with TLC: E1 exhaustive model checking of design/contract "
                               "modules over integers, E2 TLC-generated cases replayed on the real code by the Rust harness, E3 traces "
                               "recorded from the real code validated by TLC against the specification (F64 IEEE override)."},
        ],
        "checks": checks,
        "not_applicable": na,
        "notes": "Every check rebuilds /verif/harness against /repo's working tree with --cfg bacon_verif. Exit 0 / 1 (VIOLATION line + "
                 "replay file under /verif/out/replay) / 2 (tool failure). known-findings.txt lists known and fixed defects.",
    }
    with open(os.path.join(VERIF, "MANIFEST.json"), "w") as f:
        json.dump(m, f, indent=1)
    print("MANIFEST.json: %d checks, %d not_applicable" % (len(checks), len(na)))


if __name__ == "__main__":
    main()
