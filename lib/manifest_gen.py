#!/usr/bin/env python3
"""Regenerates /verif/MANIFEST.json from the table below (single source of truth)."""
import json
import os
import subprocess

VERIF = os.path.dirname(os.path.dirname(os.path.abspath(__file__)))

# id -> (category, technique, level text, level note, design ref)
CHECKS = {
    "C18": ("exploration",
            "TLC-generated exhaustive cases (Gen_C18) replayed on the constructors; TLC (Val_C18) compares with OrthoPoly closed forms over F64",
            "Exhaustive over the property's whole quantifier (5 families x n=0..20 x 5 tolerances x real/complex): degree and every "
            "coefficient are compared by TLC with closed-form coefficients written in TLA+ (OrthoPoly), themselves self-checked by TLC "
            "against recurrences and normalisations. Not a proof about all n; the property only quantifies n<=20.",
            "Trusted: F64.java (IEEE ops via java.lang.Math), TLC evaluator, harness recording; rounding allowance 256*eps*(n+1)*max|coef|.",
            "DESIGN.md §4 C18"),
}

CHECKS["C01"] = ("model_checking",
    "TLC exhaustive model checking of the stepper design (IvpProtocol) against the contract (IvpContract) over integer ticks; "
    "the model's configurations replayed on the real solvers; recorded paths validated by TLC against IvpContract over IEEE doubles; "
    "step() snapshots and every derivative-evaluation time of a third of the runs validated against the same IvpProtocol over doubles",
    "E1: every behaviour of the design model (all verdict sequences, controller choices, fault points, all configurations in scope) "
    "satisfies the contract and terminates. E2/E3: each real path (model configurations and seeded random ones) is checked event by "
    "event by TLC against the same contract instantiated over doubles. The model is an abstraction (integer ticks, nondeterministic "
    "numerics); the binding to the code is per observed execution.",
    "Trusted: TLC, F64.java, harness recording, the cfg(bacon_verif) hooks; integer-tick abstraction valid while steps >= 1 tick.",
    "DESIGN.md §4 C01, App. B")
CHECKS["C03"] = ("model_checking",
    "trace validation with inferred unlogged state: TLC (Val_IvpMethods) explains every yielded point by RK4-start or the advertised "
    "multistep/RK formula from IvpMethods.tla (literature constants, self-checked by TLC), carrying the set of candidate Adams "
    "derivative histories",
    "Every point of every recorded path (7 solvers, generic non-linear non-autonomous systems) must be reproduced to 1e-10 by the "
    "published formula written in TLA+, with the embedded / predictor-corrector estimate within tolerance and the first-trial "
    "accept/reject decision matching the reference estimate. Per observed execution, not a proof over all inputs.",
    "Trusted: F64.java, TLC evaluator, IvpMethods constants (order conditions checked by TLC in MC_IvpMethods).",
    "DESIGN.md §4 C03")

TRUST = "Trusted: F64.java (IEEE ops via java.lang.Math), TLC evaluator, harness recording; constants K are calibrated, not derived."
CHECKS["C02"] = ("exploration",
    "recorded paths validated by TLC against closed-form flows written in TLA+ (IvpMethods / Val_IvpAccuracy)",
    "For every consecutive pair of items of every recorded path TLC evaluates the exact flow restarted from the previous point and requires "
    "the local error to be within KL*tol*h (KLB*tol for BDF). Exploration over seeded problems; nothing is proved about the error control.",
    TRUST, "DESIGN.md §4 C02")
CHECKS["C04"] = ("exploration",
    "recorded paths validated by TLC against closed-form solutions (real and complex) and static/dynamic pairs compared item by item",
    "Every yielded state is compared by TLC with the closed-form solution at that time (bound KG*tol*G, Euler: first-order bound), complex "
    "linear problems against the complex closed form, and each dynamic-dimension run against its static twin to 1e-12.",
    TRUST, "DESIGN.md §4 C04")
CHECKS["C05"] = ("exploration",
    "derivative-call counting with a hard budget; TLC (Val_Ivp) checks completion, exact end time and the work bound; termination of the "
    "protocol for every verdict sequence is model-checked in MC_IvpProtocol",
    "Seeded smooth problems (incl. at rest, relaxing, hard starts): TLC requires every run to complete without error within the budget and "
    "its evaluation count to be <= 100*(L/dtmax + L*tol^(-1/p)) + 200. The constant is wide by design.",
    TRUST, "DESIGN.md §4 C05")
CHECKS["C06"] = ("model_checking",
    "TLC model-checks the builder contract (MC_IvpBuilder) and generates all call sequences in scope, replayed on the seven builders and "
    "judged by TLC (Val_IvpBuilder); fault enumeration over every derivative call of reference runs judged against IvpContract",
    "Builder: exhaustive over call sequences in small scope (both contracts, all constructor/dimension combinations, 9 preambles), each call's "
    "Ok/error variant compared with the TLA+ contract. Faults: the derivative fails at call k for every k (capped) - exactly one Err item "
    "carrying that error, then None, also through collect_vec.",
    TRUST + " Hooks: verif_params() accessor (drift reporting only).", "DESIGN.md §4 C06")
CHECKS["C07"] = ("model_checking",
    "TLC model-checks lattice designs of bisection, ITP and Brent (MC_Bisect, MC_ItpP, MC_Brent - Brent also with ANY interpolated "
    "point) against the contract; lattice and seeded runs of the three real solvers with a recording function are judged by TLC against "
    "the contract module Bracket; every abscissa of every real brent() and bisection() run is validated bit for bit against the same "
    "Brent / Bisect modules over doubles (Trace_Brent, Trace_Bisect), and every abscissa of every real itp() run must be admitted by the "
    "abstract design ItpP in its current state (Trace_Itp, refinement)",
    "E1: every bracket/root position/sign/tolerance on the lattices (abscissae inside, sign change kept, iteration/evaluation bounds, "
    "result near a root or sign change). E2/E3: every recorded run of the three real solvers (abscissae seen, evaluation count, result) "
    "checked against the contract with root sets written in TLA+. Design-level trace validation reports drift, never a violation. "
    "BrentLemmas.tla and BisectLemmas.tla (dead inverse-quadratic branch, points inside the bracket, halving bound) are proved by TLAPS in the self-test.",
    TRUST, "DESIGN.md §4 C07, §11")
CHECKS["C08"] = ("exploration",
    "TLC-generated exhaustive affine systems + seeded systems/polynomials/contractions run on the real routines; TLC (Val_C08) judges each "
    "run against the contract Iterative (cap, finite, distance to root / residual, Err for singular); the Steffensen, Newton and secant (Broyden) "
    "designs are model-checked over exact rationals (MC_Steffensen, MC_NewtonP, MC_SecantP); every map evaluation of the real steffensen() "
    "runs is validated bit for bit (Trace_Steffensen) and every closure call of the real newton() / secant() runs against the Newton "
    "equation, Broyden's defining equations and the stopping rules over doubles (Trace_Newton, Trace_Secant, refinement)",
    "Exhaustive in small scope for affine systems (exact expected root), exploration elsewhere. The contract (not a convergence proof) is "
    "evaluated by TLC on every run. Design-level trace validation reports drift, never a violation.",
    TRUST, "DESIGN.md §4 C08, §11")
CHECKS["C11"] = ("exploration",
    "TLC-generated exhaustive operand pairs + seeded large shapes through 32 operator forms; TLC (Val_C11, Val_C11Dft) compares with the exact "
    "coefficient algebra of module Poly",
    "Exhaustive in small scope over Z and Z[i] (exact expected coefficients), seeded up to degree 128 with the statement's rounding bound, "
    "degree clause, pointwise agreement, dft = values at roots of unity, idft round trip.",
    TRUST, "DESIGN.md §4 C11")
CHECKS["C12"] = ("exploration",
    "TLC model-checks the design model of Polynomial::divide (PolyDivide over exact rationals: Euclidean identity up to the tolerance after "
    "every pass, remainder degree, bound on the passes, termination - zero tolerance included); TLC constructs dividends exactly as q*d+r, the "
    "harness divides under a deadline, TLC (Val_C12) checks reconstruction, remainder degree and (q, r), and replays every call through the "
    "design model over doubles bit for bit (Trace_PolyDivide)",
    "Exhaustive in small scope with exact expected quotient and remainder (each third case again at a zero tolerance), seeded shapes with the "
    "backward-error bound of the statement over tolerances 0, 1e-14, 1e-10, 1e-6; the design model is exhaustive over small rational inputs.",
    TRUST, "DESIGN.md §4 C12")
CHECKS["C13"] = ("model_checking",
    "TLC explores the coefficient-editing state machine (MC_Poly) and enumerates all histories in scope, replayed on the real Polynomial and "
    "compared by TLC after every step (Val_C13Hist); evaluation/calculus cases compared with term-wise calculus (Val_C13Fn)",
    "Histories: every operation sequence in scope (powers up to and beyond the length) from five initial polynomials, the real coefficient "
    "map compared with the model after each step. Functions: exhaustive small scope + seeded degree <= 30.",
    TRUST, "DESIGN.md §4 C13")
CHECKS["C15"] = ("exploration",
    "TLC enumerates ordered node tuples (all permutations) with data sampled from integer polynomials; TLC (Val_C15) checks degree bound, "
    "reproduction and recovery of the source polynomial with a per-case conditioning bound; the design models of hermite() (HermiteDD: "
    "divided-difference table, Horner assembly, cleaning) and lagrange() (LagrangeNeville: Neville's table of polynomials) are model-checked "
    "over exact rationals and every real call is replayed through them over doubles bit for bit (Trace_HermiteDD, Trace_LagrangeNeville)",
    "Exhaustive on a half-integer lattice (exact data), seeded up to 8 nodes; uniqueness is checked by comparing with the sampled polynomial.",
    TRUST, "DESIGN.md §4 C15")
CHECKS["C19"] = ("exploration",
    "TLC enumerates polynomials x dyadic points x dyadic steps; TLC (Val_C19) evaluates exact derivative + closed-form truncation term",
    "For polynomials of degree <= 6 the truncation error of both stencils is known in closed form, so every weight of the stencil is pinned; "
    "smooth functions against the classical remainder bound.",
    TRUST, "DESIGN.md §4 C19")
CHECKS["C09"] = ("exploration",
    "TLC model-checks the explicit-stack Simpson design (SimpsonStack), the Gaussian and tanh-sinh stopping rules (GaussStop, "
    "TanhSinhStop) and the Romberg tableau over exact rationals (RombergP); "
    "recorded runs of the eight routines are judged by TLC (Val_C09) against closed-form integrals written in Quad.tla and against the "
    "textbook Simpson recursion run by TLC; the abscissae, verdicts and returned values of the real-valued runs of all eight routines are "
    "validated bit for bit against the model-checked design modules over doubles, fed with the shipped tables where the routine uses "
    "them (Trace_Simpson, Trace_Romberg, Trace_Gauss, Trace_TanhSinh)",
    "E1: every accept/split verdict tree to depth 3 (thorough 4): pending + accepted panels tile the interval, each frame carries its own "
    "panel's estimate. E3: seeded integrands with closed forms; result within KQ*tol, Err for bad intervals/tolerances, abscissae inside, "
    "Romberg exact on degree <= 2n-1, Simpson evaluations <= 2x textbook + 8. Design-level trace validation reports drift, never a violation.",
    TRUST, "DESIGN.md §4 C09, §11")
CHECKS["C10"] = ("exploration",
    "the shipped tables are compiled from the working tree and every row is checked by TLC (QuadTables): expansion count, domain, "
    "positivity, all moments 0..2n-1 against closed forms, tanh-sinh pairs against the double-exponential formula",
    "Exhaustive over the finite data (251 Gaussian rows, 7 tanh-sinh levels, ~11,000 pairs).",
    TRUST + " Moments to relative 1e-12 (Legendre, Chebyshev) / 2e-10 (Hermite, Laguerre: precision of the shipped digits on the largest rows).", "DESIGN.md §4 C10")
CHECKS["C14"] = ("exploration",
    "polynomials built from known separated roots (lattice + seeded) and orthogonal-polynomial zeros; TLC (Val_C14, PolyRoots/OrthoPoly) checks "
    "count, residuals, one-to-one matching with the generating roots, and sign-change brackets of the exact polynomials",
    "Completeness and accuracy of the returned multiset are stated against the generating roots; exploration over shapes, no proof of "
    "convergence of Laguerre/deflation/polishing.",
    TRUST, "DESIGN.md §4 C14")
CHECKS["C16"] = ("exploration",
    "splines on lattice and seeded knots probed on both sides of every knot and inside every piece; TLC (Val_C16, Spline) checks the "
    "characterisation of the unique free/clamped spline (interpolation, C1, C2 via Hermite data, end conditions, reproduction, error cases); "
    "the design model of the constructors' sweeps (SplineSweep over exact rationals) is model-checked against the same conjuncts",
    "By the uniqueness theorem the characterisation is equivalent to coinciding with the independently defined spline; it is evaluated by "
    "TLC on every recorded spline.",
    TRUST, "DESIGN.md §4 C16")
CHECKS["C17"] = ("exploration",
    "linear_fit on all permutations of small integer data sets + seeded data (normal equations checked by TLC); Levenberg-Marquardt runs with "
    "a counting model closure judged by TLC (Val_C17, Fit) against the normal-equation solution / the generating parameters; the control "
    "skeleton of curve_fit_jac (LmControl) is model-checked and every real run's closure-call blocks are validated against it (Trace_Lm)",
    "Exhaustive small scope for linear_fit, exploration for LM. curve_fit (finite-difference variant) has a known, unfixable-under-the-rules "
    "defect listed in known-findings.txt by call site: a failure is attributed to it only when the same case passes the whole contract "
    "through a counterfactual twin of optimize/mod.rs (that one statement corrected, built from the tree under test); any other failure "
    "is a violation. curve_fit_jac and linear_fit are checked with full force. Accuracy is judged on well-conditioned designs "
    "(lower bound of lambda_min(J^T J) computed in TLA+).",
    TRUST, "DESIGN.md §4 C17")

NOT_YET = {}

NA = {
    "C20": "Fidelity of a build-time generated static table to a text file: no state, transitions or case analysis for a TLA+ "
           "specification to model; checking it would be a diff written in TLA+, i.e. a different technique (DESIGN.md §5).",
}


def main():
    props = [json.loads(l)["id"] for l in open(os.path.join(VERIF, "properties.jsonl")) if l.strip()]
    hook_commits = subprocess.run(["git", "-C", "/repo", "log", "--format=%h", "--grep=^verif hooks"],
                                  stdout=subprocess.PIPE, text=True).stdout.split()
    checks = []
    for pid in props:
        if pid in CHECKS:
            cat, tech, text, note, ref = CHECKS[pid]
            checks.append({
                "property_id": pid,
                "quick_cmd": "bin/check %s --tier quick" % pid,
                "thorough_cmd": "bin/check %s --tier thorough" % pid,
                "evidence_file": "/verif/evidence/%s.json" % pid,
                "replay_cmd_template": "bin/check replay {path}",
                "engine": "tla-conformance",
                "level_claimed": {"category": cat, "text": text, "design_ref": ref},
                "level_note": note,
                "technique": tech,
            })
    na = []
    for pid in props:
        if pid in CHECKS:
            continue
        na.append({"property_id": pid,
                   "reason": NA.get(pid) or NOT_YET.get(pid) or
                   "Check not built yet in this round (planned with the TLA+ machinery, see DESIGN.md §4); not claimed."})
    m = {
        "version": 1,
        "setup_cmd": "bin/check setup",
        "hooks": {
            "guard": "cfg(bacon_verif)",
            "enable": "harness/.cargo/config.toml passes --cfg bacon_verif to rustc for the path dependency on /repo "
                      "(RUSTFLAGS='--cfg bacon_verif'); off by default",
            "baseline_off_cmd": "cd /repo && cargo test --workspace --no-fail-fast --offline",
            "source_commits": hook_commits,
            "add_only": True,
        },
        "engines": [
            {"name": "tla-conformance", "path": "/verif/bin/check",
             "serves_properties": sorted(CHECKS.keys()),
             "kind_free_text": "TLA+ specifications under /verif/spec checked with TLC: E1 exhaustive model checking of design/contract "
                               "modules over integers, E2 TLC-generated cases replayed on the real code by the Rust harness, E3 traces "
                               "recorded from the real code validated by TLC against the specification (F64 IEEE override)."},
        ],
        "checks": checks,
        "not_applicable": na,
        "notes": "Every check rebuilds /verif/harness against /repo's working tree with --cfg bacon_verif. Exit 0 / 1 (VIOLATION line + "
                 "replay file under /verif/out/replay) / 2 (tool failure). known-findings.txt lists known and fixed defects.",
    }
    with open(os.path.join(VERIF, "MANIFEST.json"), "w") as f:
        json.dump(m, f, indent=1)
    print("MANIFEST.json: %d checks, %d not_applicable" % (len(checks), len(na)))


if __name__ == "__main__":
    main()
