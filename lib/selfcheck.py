"""setup-time parsing of every specification module, and the machinery's own self-tests."""
import glob
import os
import vlib


def sany_all():
    bad = 0
    cp = ":".join([vlib.CLASSES, vlib.TLA_JAR, vlib.DEPS_JAR])
    for f in sorted(glob.glob(os.path.join(vlib.SPEC, "*.tla"))):
        p = vlib.sh(["java", "-cp", cp, "tla2sany.SANY", os.path.basename(f)], cwd=vlib.SPEC, check=False, timeout=120)
        if p.returncode != 0 or "Semantic errors" in p.stdout or "*** Errors" in p.stdout or "Fatal" in p.stdout:
            print("SANY FAILED: %s\n%s" % (f, p.stdout[-1500:]))
            bad += 1
    print("setup: %d modules parsed, %d failed" % (len(glob.glob(os.path.join(vlib.SPEC, "*.tla"))), bad))
    return 2 if bad else 0


def run():
    r = vlib.tlc("F64Test", cfg="Gen.cfg", timeout=120)
    ok = any("F64Test ok" in l for l in r.out.splitlines())
    print("selftest F64: %s" % ("ok" if ok else "FAILED"))
    return 0 if ok else 2
