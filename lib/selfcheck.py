"""setup-time parsing of every specification module, and the machinery's own self-tests:
   * F64 override against exact integer arithmetic; literature constants of IvpMethods (order conditions)
   * defect switches of the design models must produce TLC counterexamples
   * binding demonstrations: a clean recorded trace is accepted; the same trace with one field corrupted,
     one event dropped or two events swapped is rejected at that event
   * vacuity: every explaining action of the C03 trace specification is taken"""
import copy
import glob
import json
import os
import random

import vlib


def sany_all():
    bad = 0
    cp = ":".join([vlib.CLASSES, vlib.TLA_JAR, vlib.DEPS_JAR])
    mods = sorted(glob.glob(os.path.join(vlib.SPEC, "*.tla")))
    for f in mods:
        p = vlib.sh(["java", "-cp", cp, "tla2sany.SANY", os.path.basename(f)], cwd=vlib.SPEC, check=False, timeout=120)
        if p.returncode != 0 or "Semantic errors" in p.stdout or "*** Errors" in p.stdout or "Fatal" in p.stdout:
            print("SANY FAILED: %s\n%s" % (f, p.stdout[-1500:]))
            bad += 1
    print("setup: %d modules parsed, %d failed" % (len(mods), bad))
    return 2 if bad else 0


class T:
    def __init__(self):
        self.fail = 0

    def check(self, name, ok, extra=""):
        print("selftest %-62s %s %s" % (name, "ok" if ok else "FAILED", extra), flush=True)
        if not ok:
            self.fail += 1


def expect_counterexample(t, name, module, cfg_text, invariant_hint=None):
    path = os.path.join(vlib.SPEC, "_selftest.cfg")
    open(path, "w").write(cfg_text)
    try:
        r = vlib.tlc(module, cfg="_selftest.cfg", workers=4, timeout=600, deque=False, check=False)
    finally:
        os.remove(path)
    viol = [l for l in r.out.splitlines() if "is violated" in l]
    t.check(name, bool(viol), (viol[0].strip() if viol else "no counterexample"))


def validate_events(module, events, env=None, cfg="Val.cfg"):
    path = os.path.join(vlib.VERIF, "work", "selftest-obs.ndjson")
    os.makedirs(os.path.dirname(path), exist_ok=True)
    vlib.write_ndjson(path, events)
    e = {"VH_OBS": path}
    e.update(env or {})
    r = vlib.tlc(module, cfg=cfg, env=e, timeout=600)
    ok = bool(r.tagged("CHECKED")) and r.tagged("CHECKED")[0][1] == len(events)
    return r.tagged("VIOL"), ok


def copy_row(r):
    import copy
    return copy.deepcopy(r)


def bump(pair, k=1):
    """next representable double (k ulps up) of a [hi, lo] pair"""
    x = vlib.pair_to_float(pair)
    import struct
    bits = struct.unpack(">q", struct.pack(">d", x))[0]
    bits += k if x >= 0 else -k
    return vlib.float_to_pair(struct.unpack(">d", struct.pack(">q", bits))[0])


def run():
    import ivpcommon
    import ivpgen
    t = T()
    r = vlib.tlc("F64Test", cfg="Gen.cfg", timeout=120)
    t.check("F64 override agrees with exact integer arithmetic", any("F64Test ok" in l for l in r.out.splitlines()))
    r = vlib.tlc("MC_IvpMethods", cfg="Gen.cfg", timeout=300)
    t.check("IvpMethods constants: order conditions, flows vs rhs", any("MC_IvpMethods ok" in l for l in r.out.splitlines()))

    # ---- defect switches must give counterexamples ------------------------------------------------
    base = open(os.path.join(vlib.SPEC, "MC_IvpProtocol.cfg")).read()
    expect_counterexample(t, "IvpProtocol{ClipBeforeHandOver,ShortenToEnd} violates the contract", "MC_IvpProtocol",
                          base.replace("Defects = {}", 'Defects = {"ClipBeforeHandOver", "ShortenToEnd"}').replace("PROPERTY Terminates", ""))
    sbase = open(os.path.join(vlib.SPEC, "MC_SimpsonStack.cfg")).read()
    expect_counterexample(t, "SimpsonStack{StaleLeftEstimate} violates OwnEstimate", "SimpsonStack",
                          sbase.replace("StaleLeftEstimate = FALSE", "StaleLeftEstimate = TRUE"))

    bbase = open(os.path.join(vlib.SPEC, "MC_Bisect.cfg")).read().replace("PROPERTY Terminates", "")
    expect_counterexample(t, "Bisect{FirstMidpointOutside} evaluates outside the bracket", "MC_Bisect",
                          bbase.replace("Defects = {}", 'Defects = {"FirstMidpointOutside"}'))
    expect_counterexample(t, "Bisect{StopWhenMidpointSmall} returns a non-root", "MC_Bisect",
                          bbase.replace("Defects = {}", 'Defects = {"StopWhenMidpointSmall"}'))
    brbase = open(os.path.join(vlib.SPEC, "MC_Brent_any.cfg")).read().replace("PROPERTY Terminates", "").replace("W = 24", "W = 12")
    expect_counterexample(t, "Brent{NoRangeSafeguard} evaluates outside the bracket", "MC_Brent",
                          brbase.replace("Defects = {}", 'Defects = {"NoRangeSafeguard"}'))
    expect_counterexample(t, "Brent{ReturnSAlways} returns a non-root", "MC_Brent",
                          brbase.replace("Defects = {}", 'Defects = {"ReturnSAlways"}'))
    expect_counterexample(t, "PolyDivide{cancelled_term_kept_unless_below_tolerance} loops at a zero tolerance", "MC_PolyDivide",
                          open(os.path.join(vlib.SPEC, "MC_PolyDivide_defect.cfg")).read())
    expect_counterexample(t, "PolyDivide{zero_divisor_test_strict} divides by the zero polynomial at a zero tolerance", "MC_PolyDivide",
                          open(os.path.join(vlib.SPEC, "MC_PolyDivide_defect2.cfg")).read())
    expect_counterexample(t, "SplineSweep{sweep_uses_the_row_s_own_interval} breaks the continuity of the slope", "MC_SplineSweep",
                          open(os.path.join(vlib.SPEC, "MC_SplineSweep_defect.cfg")).read())
    expect_counterexample(t, "HermiteDD{purge_leading_with_default_tolerance} loses a leading coefficient above the caller's tolerance", "MC_HermiteDD",
                          open(os.path.join(vlib.SPEC, "MC_HermiteDD_defect.cfg")).read())
    # ---- unbounded lemmas of the Brent design (TLAPS) -----------------------------------------------------
    import shutil
    import tempfile
    tmp = tempfile.mkdtemp(prefix="tlaps", dir=os.path.join(vlib.VERIF, "work"))
    try:
        for mod, what in (("BrentLemmas", "dead inverse-quadratic branch, points inside the bracket"),
                          ("BisectLemmas", "midpoint inside, halving bound, the pinned first midpoint outside")):
            shutil.copy(os.path.join(vlib.SPEC, mod + ".tla"), tmp)
            p = vlib.sh(["timeout", "300", "tlapm", "--threads", "4", mod + ".tla"], cwd=tmp, check=False, timeout=400)
            t.check("TLAPS proves %s (%s)" % (mod, what), "All 3 obligations proved" in p.stdout,
                    p.stdout.strip().splitlines()[-1][:80] if p.stdout.strip() else "")
        # inductive invariants of the two stopping rules, for every table length (spec/proofs)
        for mod, base, what, nob in (("GaussStopLemmas", "GaussStop", "never before the second rule, every N", 18),
                                     ("TanhSinhLemmas", "TanhSinhStop", "never before the third level, every N", 18),
                                     ("LmControlLemmas", "LmControl", "block accounting and search bound, every cap", 36)):
            shutil.copy(os.path.join(vlib.SPEC, base + ".tla"), tmp)
            shutil.copy(os.path.join(vlib.SPEC, "proofs", mod + ".tla"), tmp)
            p = vlib.sh(["timeout", "300", "tlapm", "--threads", "4", mod + ".tla"], cwd=tmp, check=False, timeout=400)
            t.check("TLAPS proves %s (%s)" % (mod, what), "All %d obligations proved" % nob in p.stdout,
                    ([l for l in p.stdout.strip().splitlines() if "obligations" in l] or [""])[-1][:80])
    finally:
        shutil.rmtree(tmp, ignore_errors=True)
    # ---- binding: design-level traces of brent() and integrate_simpson() ---------------------------------
    import fncommon
    from checks import c07, c09
    ctx0 = vlib.Ctx("SELFTEST", "quick", 1, "other")
    rng0 = random.Random(11)
    bc = [c for c in c07.seeded(ctx0, rng0, 90) if c["solver"] == "brent"][:25]
    for k, c in enumerate(bc):
        c["id"] = k + 1
    keys = ("id", "solver", "a", "b", "tol", "n_max", "evals", "n", "ret", "x")
    brows = [{k: r[k] for k in keys} for r in fncommon.observe(ctx0, "bracket", bc, "stb", nproc=1)]
    fncommon.validate(ctx0, brows, "Trace_Brent", "stb", nshards=1)
    from checks import c12
    dcases = c12.seeded(ctx0, random.Random(5), 40)
    for k, c in enumerate(dcases):
        c["id"] = k + 1
    drows = [{k: r[k] for k in ("id", "cx", "a", "d", "ta", "st", "q", "r")} for r in fncommon.observe(ctx0, "poly-div", dcases, "std", nproc=1)]
    nd0 = len(ctx0.drift)
    fncommon.validate(ctx0, drows, "Trace_PolyDivide", "std", nshards=1)
    t.check("clean divide() results explained bit for bit by PolyDivide over doubles", len(ctx0.drift) == nd0 and len(drows) >= 40, "%d runs" % len(drows))
    victim = next(r for r in drows if r["st"] == "ok" and len(r["d"]) >= 2 and len(r["q"]) >= 2)
    bent = dict(victim, q=[[bump(z[0]), z[1]] if j == 0 else z for j, z in enumerate(victim["q"])])
    fncommon.validate(ctx0, [bent], "Trace_PolyDivide", "std2", nshards=1)
    t.check("a quotient coefficient moved by one ulp is rejected by Trace_PolyDivide", len(ctx0.drift) == nd0 + 1)
    del ctx0.drift[nd0:]
    from checks import c15
    hcases = [c for c in c15.seeded(ctx0, random.Random(9), 120) if c["kind"] == "hermite" and len(c["xs"]) >= 2][:25]
    for k, c in enumerate(hcases):
        c["id"] = k + 1
    hrows = [{"id": r["id"], "kind": r["kind"], "cx": r["cx"], "xs": r["xs"], "ys": r["ys"], "ds": r["ds"], "tol": r["tol"],
              "obs": {"st": r["obs"]["st"], "coefs": r["obs"].get("coefs", [])}} for r in fncommon.observe(ctx0, "interp", hcases, "sth", nproc=1)]
    nd0 = len(ctx0.drift)
    fncommon.validate(ctx0, hrows, "Trace_HermiteDD", "sth", nshards=1)
    t.check("clean hermite() results explained bit for bit by HermiteDD over doubles", len(ctx0.drift) == nd0 and len(hrows) == 25, "%d runs" % len(hrows))
    hb = copy_row(hrows[0])
    hb["obs"]["coefs"][0] = [bump(hb["obs"]["coefs"][0][0]), hb["obs"]["coefs"][0][1]]
    fncommon.validate(ctx0, [hb], "Trace_HermiteDD", "sth2", nshards=1)
    t.check("a Hermite coefficient moved by one ulp is rejected by Trace_HermiteDD", len(ctx0.drift) == nd0 + 1)
    del ctx0.drift[nd0:]
    lcases = [c for c in c15.seeded(ctx0, random.Random(10), 120) if c["kind"] == "lagrange" and len(c["xs"]) >= 3][:25]
    for k, c in enumerate(lcases):
        c["id"] = k + 1
    lrows = [{"id": r["id"], "kind": r["kind"], "cx": r["cx"], "xs": r["xs"], "ys": r["ys"], "tol": r["tol"],
              "obs": {"st": r["obs"]["st"], "coefs": r["obs"].get("coefs", [])}} for r in fncommon.observe(ctx0, "interp", lcases, "stl", nproc=1)]
    nd0 = len(ctx0.drift)
    fncommon.validate(ctx0, lrows, "Trace_LagrangeNeville", "stl", nshards=1)
    t.check("clean lagrange() results explained bit for bit by LagrangeNeville over doubles", len(ctx0.drift) == nd0 and len(lrows) == 25, "%d runs" % len(lrows))
    lb = copy_row(lrows[0])
    lb["obs"]["coefs"][-1] = [bump(lb["obs"]["coefs"][-1][0]), lb["obs"]["coefs"][-1][1]]
    fncommon.validate(ctx0, [lb], "Trace_LagrangeNeville", "stl2", nshards=1)
    t.check("a Lagrange coefficient moved by one ulp is rejected by Trace_LagrangeNeville", len(ctx0.drift) == nd0 + 1)
    del ctx0.drift[nd0:]
    from checks import c16
    scases = [c for c in c16.seeded(ctx0, random.Random(7), 60) if c["err_case"] == "none" and len(c["xs"]) >= 3][:20]
    for k, c in enumerate(scases):
        c["id"] = k + 1
    srows = [{k: r[k] for k in ("id", "kind", "cx", "xs", "ys", "f0", "fn", "err_case", "obs")} for r in fncommon.observe(ctx0, "spline", scases, "sts", nproc=1)]
    nd0 = len(ctx0.drift)
    fncommon.validate(ctx0, srows, "Trace_Spline", "sts", nshards=1, env={"VH_KS": c16.KS})
    t.check("clean splines agree with the sweeps of SplineSweep over doubles", len(ctx0.drift) == nd0 and len(srows) == 20, "%d splines" % len(srows))
    import copy
    # (a lattice case - three knots a unit apart near the origin - so that the conditioning allowance is a few hundred ulps)
    lcase = next(c for c in c16.lattice(ctx0) if c["err_case"] == "none" and len(c["xs"]) == 3)
    lcase["id"] = 1
    lrow = fncommon.observe(ctx0, "spline", [lcase], "sts3", nproc=1)[0]
    bent = copy.deepcopy({k: lrow[k] for k in ("id", "kind", "cx", "xs", "ys", "f0", "fn", "err_case", "obs")})
    n0 = len(bent["xs"])
    v = bent["obs"]["pts"][n0 + 2]["v"]
    bent["obs"]["pts"][n0 + 2]["v"] = [vlib.float_to_pair(vlib.pair_to_float(v[0]) + 1e-6 * (1 + abs(vlib.pair_to_float(v[0])))), v[1]]
    fncommon.validate(ctx0, [bent], "Trace_Spline", "sts2", nshards=1, env={"VH_KS": c16.KS})
    t.check("a recorded spline value moved by 1e-6 is rejected by Trace_Spline", len(ctx0.drift) == nd0 + 1)
    del ctx0.drift[nd0:]
    t.check("clean brent() abscissa traces explained bit for bit by Brent over doubles", not ctx0.drift and len(brows) == 25, "%d runs" % len(brows))
    j = next(k for k, r in enumerate(brows) if r["n"] >= 6 and r["ret"] == "ok")
    b2 = copy.deepcopy(brows)
    b2[j]["evals"][4][0] = bump(b2[j]["evals"][4][0], 1)
    ctx0.drift = []
    fncommon.validate(ctx0, b2, "Trace_Brent", "stb", nshards=1)
    t.check("one brent abscissa changed by one ulp -> that run is rejected (drift)", [d["case"] for d in ctx0.drift] == [brows[j]["id"]])
    b2 = copy.deepcopy(brows)
    del b2[j]["evals"][3]
    b2[j]["n"] -= 1
    ctx0.drift = []
    fncommon.validate(ctx0, b2, "Trace_Brent", "stb", nshards=1)
    t.check("one brent evaluation removed -> that run is rejected (drift)", [d["case"] for d in ctx0.drift] == [brows[j]["id"]])
    ic = [c for c in c07.seeded(ctx0, rng0, 90) if c["solver"] == "bisection"][:25]
    for k, c in enumerate(ic):
        c["id"] = k + 1
    irows = [{k: r[k] for k in keys} for r in fncommon.observe(ctx0, "bracket", ic, "sti", nproc=1)]
    ctx0.drift = []
    fncommon.validate(ctx0, irows, "Trace_Bisect", "sti", nshards=1)
    t.check("clean bisection() abscissa traces explained bit for bit by Bisect over doubles", not ctx0.drift and len(irows) == 25, "%d runs" % len(irows))
    j = next(k for k, r in enumerate(irows) if r["n"] >= 6 and r["ret"] == "ok")
    b2 = copy.deepcopy(irows)
    b2[j]["x"] = bump(b2[j]["x"], 1)
    ctx0.drift = []
    fncommon.validate(ctx0, b2, "Trace_Bisect", "sti", nshards=1)
    t.check("returned bisection midpoint changed by one ulp -> that run is rejected (drift)", [d["case"] for d in ctx0.drift] == [irows[j]["id"]])
    tcs = [c for c in c07.seeded(ctx0, rng0, 90) if c["solver"] == "itp"][:25]
    for k, c in enumerate(tcs):
        c["id"] = k + 1
    trs = [{k: r[k] for k in keys + ("k1", "k2", "n0")} for r in fncommon.observe(ctx0, "bracket", tcs, "stp", nproc=1)]
    ctx0.drift = []
    fncommon.validate(ctx0, trs, "Trace_Itp", "stp", nshards=1)
    t.check("clean itp() abscissa traces admitted step by step by ItpP over doubles (refinement)", not ctx0.drift and len(trs) == 25, "%d runs" % len(trs))
    j = next(k for k, r in enumerate(trs) if r["n"] >= 7 and r["ret"] == "ok")
    b2 = copy.deepcopy(trs)
    far = vlib.float_to_pair(vlib.pair_to_float(b2[j]["a"]) - 1.0 if vlib.pair_to_float(b2[j]["a"]) < vlib.pair_to_float(b2[j]["b"]) else vlib.pair_to_float(b2[j]["a"]) + 1.0)
    b2[j]["evals"][4][0] = far
    ctx0.drift = []
    fncommon.validate(ctx0, b2, "Trace_Itp", "stp", nshards=1)
    t.check("one itp abscissa moved outside the bracket -> that run is rejected (drift)", [d["case"] for d in ctx0.drift] == [trs[j]["id"]])
    # an abscissa of an earlier, wider bracket repeated: the run and the abscissa are chosen so that it lies strictly outside the
    # bracket the first five evaluations leave (computed here from the recorded signs)
    def stale(run):
        ev = [(vlib.pair_to_float(e[0]), vlib.pair_to_float(e[1])) for e in run["evals"]]
        if len(ev) < 7 or run["ret"] != "ok":
            return None
        (xa, fa), (xb, fb) = ev[0], ev[1]
        for x, f in ev[2:5]:
            if f == 0.0:
                return None
            if (f > 0) == (fa > 0):
                xa, fa = x, f
            else:
                xb, fb = x, f
        lo, hi = min(xa, xb), max(xa, xb)
        for q in range(5):
            if not (lo <= ev[q][0] <= hi):
                return q
        return None
    j, q = next((k, stale(r)) for k, r in enumerate(trs) if stale(r) is not None)
    b2 = copy.deepcopy(trs)
    b2[j]["evals"] = b2[j]["evals"][:5] + [b2[j]["evals"][q]] + b2[j]["evals"][5:]
    b2[j]["n"] += 1
    ctx0.drift = []
    fncommon.validate(ctx0, b2, "Trace_Itp", "stp", nshards=1)
    t.check("an earlier itp abscissa replayed later (outside the current bracket) -> rejected (drift)", [d["case"] for d in ctx0.drift] == [trs[j]["id"]])
    sc = [c for c in c09.gen(ctx0, rng0, 400) if c["routine"] == "simpson" and not c["cx"] and c["n"] == 40][:15]
    for k, c in enumerate(sc):
        c["id"] = k + 1
    keys = ("id", "routine", "cx", "a", "b", "tol", "n", "evals", "calls", "ret", "val")
    srows = [{k: r[k] for k in keys} for r in fncommon.observe(ctx0, "quad", sc, "sts", nproc=1)]
    srows = [r for r in srows if r["calls"] <= len(r["evals"])]
    ctx0.drift = []
    fncommon.validate(ctx0, srows, "Trace_Simpson", "sts", nshards=1, env={"VH_NMAX": 40})
    t.check("clean integrate_simpson() traces explained bit for bit through SimpsonStack's actions", not ctx0.drift and len(srows) >= 10, "%d runs" % len(srows))
    j = next(k for k, r in enumerate(srows) if r["calls"] >= 9 and r["ret"] == "ok")
    s2 = copy.deepcopy(srows)
    s2[j]["val"][0] = bump(s2[j]["val"][0], 1)
    ctx0.drift = []
    fncommon.validate(ctx0, s2, "Trace_Simpson", "sts", nshards=1, env={"VH_NMAX": 40})
    t.check("returned area changed by one ulp -> that run is rejected (drift)", [d["case"] for d in ctx0.drift] == [srows[j]["id"]])
    s2 = copy.deepcopy(srows)
    s2[j]["evals"][5], s2[j]["evals"][6] = s2[j]["evals"][6], s2[j]["evals"][5]
    ctx0.drift = []
    fncommon.validate(ctx0, s2, "Trace_Simpson", "sts", nshards=1, env={"VH_NMAX": 40})
    t.check("two simpson evaluations swapped -> that run is rejected (drift)", [d["case"] for d in ctx0.drift] == [srows[j]["id"]])
    gc = [c for c in c09.gen(ctx0, rng0, 400) if c["routine"] in ("hermite", "romberg") and not c["cx"]][:30]
    for k, c in enumerate(gc):
        c["id"] = k + 1
    grows = [{k: r[k] for k in keys} for r in fncommon.observe(ctx0, "quad", gc, "stg", nproc=1)]
    grows = [r for r in grows if r["calls"] <= len(r["evals"])]
    tab = os.path.join(vlib.VERIF, "work", "selftest-tables2.ndjson")
    vlib.vh("tables", tab)
    henv = {"VH_FAMILY": "hermite", "VH_TABLES": tab}
    hrows = [r for r in grows if r["routine"] == "hermite"]
    rrows = [r for r in grows if r["routine"] == "romberg"]
    ctx0.drift = []
    fncommon.validate(ctx0, hrows, "Trace_Gauss", "stg", nshards=1, env=henv)
    fncommon.validate(ctx0, rrows, "Trace_Romberg", "stg", nshards=1)
    t.check("clean integrate_hermite() / integrate_fixed() traces explained through GaussStop + tables / RombergP", not ctx0.drift and len(hrows) >= 5 and len(rrows) >= 5,
            "%d + %d runs" % (len(hrows), len(rrows)))
    j = next(k for k, r in enumerate(hrows) if r["calls"] >= 6 and r["ret"] == "ok")
    h2 = copy.deepcopy(hrows)
    h2[j]["evals"][4][0] = bump(h2[j]["evals"][4][0], 1)
    ctx0.drift = []
    fncommon.validate(ctx0, h2, "Trace_Gauss", "stg", nshards=1, env=henv)
    t.check("one Gauss-Hermite abscissa changed by one ulp (a changed table digit) -> that run is rejected (drift)", [d["case"] for d in ctx0.drift] == [hrows[j]["id"]])
    h2 = copy.deepcopy(hrows)
    h2[j]["evals"] = h2[j]["evals"][:-1]
    h2[j]["calls"] -= 1
    ctx0.drift = []
    fncommon.validate(ctx0, h2, "Trace_Gauss", "stg", nshards=1, env=henv)
    t.check("Gauss-Hermite run cut short (stops one evaluation early) -> that run is rejected (drift)", [d["case"] for d in ctx0.drift] == [hrows[j]["id"]])
    j = next(k for k, r in enumerate(rrows) if r["calls"] >= 5 and r["ret"] == "ok")
    r2 = copy.deepcopy(rrows)
    r2[j]["val"][0] = bump(r2[j]["val"][0], 1)
    ctx0.drift = []
    fncommon.validate(ctx0, r2, "Trace_Romberg", "stg", nshards=1)
    t.check("returned Romberg value changed by one ulp -> that run is rejected (drift)", [d["case"] for d in ctx0.drift] == [rrows[j]["id"]])
    tc = [c for c in c09.gen(ctx0, rng0, 300) if c["routine"] == "tanhsinh" and not c["cx"]][:20]
    for k, c in enumerate(tc):
        c["id"] = k + 1
        c["keep"] = 6000
    trows = [{k: r[k] for k in keys} for r in fncommon.observe(ctx0, "quad", tc, "stt", nproc=1)]
    tenv = {"VH_TABLES": tab}
    ctx0.drift = []
    fncommon.validate(ctx0, trows, "Trace_TanhSinh", "stt", nshards=1, env=tenv)
    t.check("clean integrate() (tanh-sinh) traces explained through TanhSinhStop + the shipped table", not ctx0.drift and len(trows) == 20, "%d runs" % len(trows))
    j = next(k for k, r in enumerate(trows) if r["calls"] >= 20 and r["ret"] == "ok")
    t2 = copy.deepcopy(trows)
    t2[j]["evals"] = t2[j]["evals"][:-6]
    t2[j]["calls"] -= 6
    ctx0.drift = []
    fncommon.validate(ctx0, t2, "Trace_TanhSinh", "stt", nshards=1, env=tenv)
    t.check("tanh-sinh run cut short by three node pairs -> that run is rejected (drift)", [d["case"] for d in ctx0.drift] == [trows[j]["id"]])
    from checks import c08
    sc8 = c08.steff(rng0, 12)
    for k, c in enumerate(sc8):
        c["id"] = k + 1
    s8 = fncommon.observe(ctx0, "iter", sc8, "sts8", nproc=1)
    s8 = [{"id": r["id"], "method": r["method"], "start": r["start"], "tol": r["tol"], "n_max": r["n_max"], "obs": r["obs"]} for r in s8]
    ctx0.drift = []
    fncommon.validate(ctx0, s8, "Trace_Steffensen", "sts8", nshards=1)
    t.check("clean steffensen() traces explained bit for bit by Steffensen over doubles", not ctx0.drift and len(s8) == 24, "%d runs" % len(s8))
    j = next(k for k, r in enumerate(s8) if r["obs"]["nf"] >= 4 and r["obs"]["ret"] == "ok")
    s82 = copy.deepcopy(s8)
    s82[j]["obs"]["gevals"][2][0] = bump(s82[j]["obs"]["gevals"][2][0], 1)
    ctx0.drift = []
    fncommon.validate(ctx0, s82, "Trace_Steffensen", "sts8", nshards=1)
    t.check("one steffensen abscissa changed by one ulp -> that run is rejected (drift)", [d["case"] for d in ctx0.drift] == [s8[j]["id"]])
    from checks import c17
    lmc = [c for c in c17.lm_cases(ctx0, rng0, 60) if c["variant"] == "jac"][:15]
    for k, c in enumerate(lmc):
        c["id"] = k + 1
    lkeys = ("id", "variant", "xs", "ys", "init", "tol", "damping", "st", "params", "blocks")
    lrows = []
    for r_ in fncommon.observe(ctx0, "fit", lmc, "stl", nproc=1):
        fb = sum(b["n"] for b in r_["blocks"] if b["k"] == "f")
        lrows.append(dict({k: r_[k] for k in lkeys}, blocks_complete=(fb == r_["calls"] and len(r_["blocks"]) < 800)))
    ctx0.drift = []
    fncommon.validate(ctx0, lrows, "Trace_Lm", "stl", nshards=1)
    t.check("clean curve_fit_jac() closure-call traces explained by the control skeleton LmControl", not ctx0.drift and len(lrows) == 15, "%d runs" % len(lrows))
    j = next(k for k, r_ in enumerate(lrows) if r_["st"] == "ok" and len(r_["blocks"]) >= 11)
    l2 = copy.deepcopy(lrows)
    l2[j]["blocks"] = l2[j]["blocks"][:-3]              # as if the loop had stopped one pass early
    ctx0.drift = []
    fncommon.validate(ctx0, l2, "Trace_Lm", "stl", nshards=1)
    t.check("last main pass removed (loop stopped early) -> that run is rejected (drift)", [d["case"] for d in ctx0.drift] == [lrows[j]["id"]])
    l2 = copy.deepcopy(lrows)
    bl = l2[j]["blocks"]
    q = max(k for k, b in enumerate(bl) if b["k"] == "j")
    bl[q]["p"] = bl[q - 1]["p"] if bl[q]["p"] != bl[q - 1]["p"] else bl[q - 2]["p"]     # Jacobian taken at the other trial point
    ctx0.drift = []
    fncommon.validate(ctx0, l2, "Trace_Lm", "stl", nshards=1)
    t.check("Jacobian taken at the trial point that was not kept -> that run is rejected (drift)", [d["case"] for d in ctx0.drift] == [lrows[j]["id"]])
    nwc = [c for c in c08.systems(rng0, 60) if c["method"] == "newton" and c["dim"] >= 2][:15]
    for k, c in enumerate(nwc):
        c["id"] = k + 1
    nws = [{"id": r_["id"], "method": r_["method"], "dim": r_["dim"], "start": r_["start"], "tol": r_["tol"], "n_max": r_["n_max"], "obs": r_["obs"]}
           for r_ in fncommon.observe(ctx0, "iter", nwc, "stn", nproc=1)]
    ctx0.drift = []
    fncommon.validate(ctx0, nws, "Trace_Newton", "stn", nshards=1)
    t.check("clean newton() closure-call traces admitted pass by pass by NewtonP over doubles (refinement)", not ctx0.drift and len(nws) == 15, "%d runs" % len(nws))
    j = next(k for k, r_ in enumerate(nws) if r_["obs"]["ret"] == "ok" and len(r_["obs"]["calls"]) >= 6)
    n2 = copy.deepcopy(nws)
    xq = n2[j]["obs"]["calls"][2]["x"]
    moved = [vlib.float_to_pair(vlib.pair_to_float(xq[0]) + 1e-3)] + xq[1:]
    n2[j]["obs"]["calls"][2]["x"] = moved
    n2[j]["obs"]["calls"][3]["x"] = moved
    ctx0.drift = []
    fncommon.validate(ctx0, n2, "Trace_Newton", "stn", nshards=1)
    t.check("second newton iterate moved by 1e-3 (not the Newton point) -> that run is rejected (drift)", [d["case"] for d in ctx0.drift] == [nws[j]["id"]])
    n2 = copy.deepcopy(nws)
    n2[j]["obs"]["calls"] = n2[j]["obs"]["calls"][:-2]
    n2[j]["obs"]["nf"] -= 1
    n2[j]["obs"]["nj"] -= 1
    ctx0.drift = []
    fncommon.validate(ctx0, n2, "Trace_Newton", "stn", nshards=1)
    t.check("newton run stopped one pass early (step still above tol) -> that run is rejected (drift)", [d["case"] for d in ctx0.drift] == [nws[j]["id"]])
    scc = [c for c in c08.systems(rng0, 80) if c["method"] == "secant" and c["dim"] >= 2 and not c.get("singular")][:15]
    for k, c in enumerate(scc):
        c["id"] = k + 1
    scs = [{"id": r_["id"], "method": r_["method"], "dim": r_["dim"], "start": r_["start"], "h": r_["h"], "tol": r_["tol"], "n_max": r_["n_max"], "obs": r_["obs"]}
           for r_ in fncommon.observe(ctx0, "iter", scc, "stsc", nproc=1)]
    ctx0.drift = []
    fncommon.validate(ctx0, scs, "Trace_Secant", "stsc", nshards=1)
    t.check("clean secant() traces admitted by Broyden's defining equations (SecantP over doubles, refinement)", not ctx0.drift and len(scs) == 15, "%d runs" % len(scs))
    j = next(k for k, r_ in enumerate(scs) if r_["obs"]["ret"] == "ok" and len(r_["obs"]["calls"]) >= 2 * r_["dim"] + 4)
    sc2 = copy.deepcopy(scs)
    q = 2 * sc2[j]["dim"] + 2                      # the second loop pass: its argument is the guess after one Broyden update
    xq = sc2[j]["obs"]["calls"][q]["x"]
    sc2[j]["obs"]["calls"][q]["x"] = [vlib.float_to_pair(vlib.pair_to_float(xq[0]) * (1 + 1e-3) + 1e-3)] + xq[1:]
    ctx0.drift = []
    fncommon.validate(ctx0, sc2, "Trace_Secant", "stsc", nshards=1)
    t.check("one secant guess moved by 1e-3 (not the Broyden step) -> that run is rejected (drift)", [d["case"] for d in ctx0.drift] == [scs[j]["id"]])
    # ---- binding: IVP contract trace -----------------------------------------------------------------
    ctx = vlib.Ctx("SELFTEST", "quick", 1, "other")
    rng = random.Random(7)
    cases = []
    for solver in ("adams5", "rk45", "bdf2", "euler"):
        rhs, y0, _ = ivpgen.system(rng, 2, 1.0, 0.0, kinds=["lin", "rot"])
        cases.append(ivpgen.base_case(len(cases) + 1, solver, 2, 0.0, 1.0, 1e-6 if solver != "euler" else 0.05, 0.05, 1e-5, rhs, y0))
    events = ivpcommon.harness_runs(ctx, cases, tag="st", nproc=1)
    viols, ok = validate_events("Val_Ivp", events)
    t.check("clean IVP trace accepted by Val_Ivp", ok and not viols, "%d events" % len(events))
    items = [k for k, e in enumerate(events) if e["ev"] == "item" and e["c"] == 1]
    ev2 = copy.deepcopy(events)
    ev2[items[-1]]["t"] = bump(ev2[items[-1]]["t"], -1)
    viols, ok = validate_events("Val_Ivp", ev2)
    t.check("last item time changed by one ulp -> rejected", any("ends_exactly_at_end_time" in v[2] for v in viols))
    ev2 = copy.deepcopy(events)
    ev2[items[3]], ev2[items[4]] = ev2[items[4]], ev2[items[3]]
    viols, ok = validate_events("Val_Ivp", ev2)
    t.check("two items swapped -> rejected at that event", any("times_strictly_increasing" in v[2] for v in viols))
    ev2 = [e for k, e in enumerate(events) if k != items[5]]
    ev2 = [e for k, e in enumerate(ev2) if not (e["ev"] == "item" and e["c"] == 1 and k in range(items[5], items[5] + 3))]
    viols, ok = validate_events("Val_Ivp", ev2)
    t.check("items dropped (gap > max step) -> rejected", any("gap_le_max_step" in v[2] for v in viols))
    # ---- binding: method trace ------------------------------------------------------------------------
    cases = []
    for solver in ("adams5", "rk45", "bdf6", "adams3", "rk23", "bdf2", "euler"):
        rhs, y0 = ivpgen.generic_system(rng, 2)
        cases.append(ivpgen.base_case(len(cases) + 1, solver, 2, 0.0, 0.8, 1e-7 if solver != "euler" else 0.02, 0.1 if solver != "euler" else 0.02,
                                      1e-6, rhs, y0, max_items=300))
    events = [e for e in ivpcommon.harness_runs(ctx, cases, tag="st", nproc=1) if e["ev"] in ("reset", "item")]
    path = os.path.join(vlib.VERIF, "work", "selftest-obs.ndjson")
    vlib.write_ndjson(path, events)
    r = vlib.tlc("Val_IvpMethods", cfg="Val.cfg", env={"VH_OBS": path}, timeout=600)
    acts = {}
    for a in r.tagged("ACT"):
        acts[a[1]] = acts.get(a[1], 0) + 1
    t.check("clean method trace accepted by Val_IvpMethods", not r.tagged("VIOL"), "%d events" % len(events))
    t.check("vacuity: Pc, Bdf and Rk4Start explanations all taken", all(acts.get(a, 0) > 0 for a in ("Pc", "Bdf", "Rk4Start")), str(acts))
    k = [j for j, e in enumerate(events) if e["ev"] == "item" and e["c"] == 1][6]
    ev2 = copy.deepcopy(events)
    ev2[k]["y"][0][0] = vlib.float_to_pair(vlib.pair_to_float(ev2[k]["y"][0][0]) * (1 + 1e-7))
    vlib.write_ndjson(path, ev2)
    r = vlib.tlc("Val_IvpMethods", cfg="Val.cfg", env={"VH_OBS": path}, timeout=600)
    t.check("one state component changed by 1e-7 -> point unexplained", any(v[1] in (k + 1, k + 2) for v in r.tagged("VIOL")))
    # ---- binding: design-level trace (step() snapshots from the cfg(bacon_verif) hook) -----------------------------
    cases = []
    for solver in ("adams5", "rk23", "bdf2", "euler"):
        rhs, y0, _ = ivpgen.system(rng, 2, 1.0, 0.0, kinds=["lin", "rough"])
        cases.append(ivpgen.base_case(len(cases) + 1, solver, 2, 0.0, 1.2, 1e-7 if solver != "euler" else 0.05, 0.08, 1e-6, rhs, y0,
                                      snaps=True, evals=True, max_items=1000000))
    ann = ivpcommon.annotate_snaps(ivpcommon.harness_runs(ctx, cases, tag="st", nproc=1))
    nsnap = sum(1 for e in ann if e["ev"] == "snap")
    drifts, nruns = ivpcommon.validate_design(ctx, ann, tag="st", nshards=1)
    nev_ = sum(len(e.get("ets", [])) for e in ann if e["ev"] == "snap")
    t.check("clean step() snapshot trace (with derivative-evaluation times) explained by IvpProtocol over doubles", nsnap > 50 and nev_ > 100 and not drifts,
            "%d snapshots, %d evaluation times, %d runs" % (nsnap, nev_, nruns))
    ann2 = copy.deepcopy(ann)
    ks = [j for j, e in enumerate(ann2) if e["ev"] == "snap" and e["c"] == 1]
    ann2[ks[7]]["dt"] = bump(ann2[ks[7]]["dt"], 1)
    ann2[ks[6]]["n_dt"] = ann2[ks[7]]["dt"]
    drifts, _ = ivpcommon.validate_design(ctx, ann2, tag="st", nshards=1)
    t.check("one snapshot's dt changed by one ulp -> that run is rejected (drift)", [c for c, _ in drifts] == [1])
    ann2 = copy.deepcopy(ann)
    kq = next(j for j in ks if len(ann2[j]["ets"]) >= 1)
    ann2[kq]["ets"][-1] = bump(ann2[kq]["ets"][-1], 1)
    drifts, _ = ivpcommon.validate_design(ctx, ann2, tag="st", nshards=1)
    t.check("one derivative-evaluation time changed by one ulp -> that run is rejected (drift)", [c for c, _ in drifts] == [1])
    ann2 = copy.deepcopy(ann)
    kq = next(j for j in ks if len(ann2[j]["ets"]) >= 4)
    del ann2[kq]["ets"][2]
    drifts, _ = ivpcommon.validate_design(ctx, ann2, tag="st", nshards=1)
    t.check("one derivative evaluation missing from a step -> that run is rejected (drift)", [c for c, _ in drifts] == [1])
    ann2 = [e for j, e in enumerate(ann) if j != ks[9]]          # as if the hook line were missing for one call
    drifts, _ = ivpcommon.validate_design(ctx, ivpcommon.annotate_snaps(ann2), tag="st", nshards=1)
    t.check("one snapshot removed (a missing hook call) -> that run is rejected (drift)", [c for c, _ in drifts] == [1])
    # ---- binding: builder trace ------------------------------------------------------------------------
    bc = [{"id": 1, "solver": "rk45", "static": True, "ctor": "new", "size": 2,
           "calls": [{"call": "min", "v": 4}, {"call": "max", "v": 2}, {"call": "tol", "v": 0}, {"call": "solve", "v": 0}]}]
    events = ivpcommon.harness_runs(ctx, bc, tag="st", task="ivp-builders", nproc=1)
    viols, ok = validate_events("Val_IvpBuilder", events)
    t.check("clean builder trace accepted by Val_IvpBuilder", ok and not viols)
    ev2 = copy.deepcopy(events)
    for e in ev2:
        if e["ev"] == "bcall" and not e["ok"]:
            e["kind"] = "TimeDeltaOOB"
    viols, ok = validate_events("Val_IvpBuilder", ev2)
    t.check("error variant altered -> rejected", any("rejected_with_its_dedicated_error" in v[2] for v in viols))
    # ---- binding: table rows -------------------------------------------------------------------------
    tab = os.path.join(vlib.VERIF, "work", "selftest-tables.ndjson")
    vlib.vh("tables", tab)
    rows = [r_ for r_ in vlib.read_ndjson(tab) if r_["table"] in ("legendre", "tanhsinh")][:14]
    viols, ok = validate_events("Val_C10", rows, env={"VH_RELG": "2e-10", "VH_RELB": "1e-12", "VH_RELDE": "1e-13"})
    t.check("clean table rows accepted by Val_C10", ok and not viols)
    rows2 = copy.deepcopy(rows)
    rows2[9]["pairs"][1][1] = vlib.float_to_pair(vlib.pair_to_float(rows2[9]["pairs"][1][1]) * (1 + 1e-8))
    viols, ok = validate_events("Val_C10", rows2, env={"VH_RELG": "2e-10", "VH_RELB": "1e-12", "VH_RELDE": "1e-13"})
    t.check("one weight changed by 1e-8 -> row rejected", any(v[1] == 10 for v in viols))
    print("selftest: %d failures" % t.fail)
    return 0 if t.fail == 0 else 2
