"""Shared driver code for /verif/bin/check: builds the harness from /repo's working tree, runs
TLC (with the F64 override on the classpath), collects VIOL lines printed by the validator
specifications, matches them against known-findings.txt, writes evidence and replay files.

Exit codes of a check: 0 = property held on everything explored (KNOWN-FINDING lines allowed),
1 = VIOLATION (with replay file), 2 = tool failure / timeout (never reported as a violation).
"""
import hashlib
import json
import os
import re
import struct
import subprocess
import sys
import time

VERIF = os.path.dirname(os.path.dirname(os.path.abspath(__file__)))
SPEC = os.path.join(VERIF, "spec")
HARNESS = os.path.join(VERIF, "harness")
CLASSES = os.path.join(VERIF, "build", "classes")
TLA_JAR = "/opt/veriftools/tla/tla2tools.jar"
DEPS_JAR = "/opt/veriftools/tla/CommunityModules-deps.jar"
VH = os.path.join(HARNESS, "target", "release", "vh")
KNOWN = os.path.join(VERIF, "known-findings.txt")
REPO = "/repo"


class ToolError(Exception):
    pass


def log(*a):
    print(*a, flush=True)


# ---------------------------------------------------------------------------- floats <-> pairs
def pair_to_float(p):
    hi, lo = p
    return struct.unpack(">d", struct.pack(">II", hi & 0xFFFFFFFF, lo & 0xFFFFFFFF))[0]


def float_to_pair(x):
    hi, lo = struct.unpack(">ii", struct.pack(">d", float(x)))
    return [hi, lo]


def decode(v):
    """recursively turn [hi,lo] int pairs into floats, for human-readable replay files"""
    if isinstance(v, list):
        if len(v) == 2 and all(isinstance(x, int) and not isinstance(x, bool) for x in v) and (
                abs(v[0]) > 1 << 16 or v == [0, 0]):
            return pair_to_float(v)
        return [decode(x) for x in v]
    if isinstance(v, dict):
        return {k: decode(x) for k, x in v.items()}
    return v


# ---------------------------------------------------------------------------- building
def sh(cmd, cwd=None, env=None, timeout=None, check=True):
    e = dict(os.environ)
    if env:
        e.update(env)
    try:
        p = subprocess.run(cmd, cwd=cwd, env=e, timeout=timeout, stdout=subprocess.PIPE,
                           stderr=subprocess.STDOUT, text=True)
    except subprocess.TimeoutExpired as ex:
        raise ToolError("timeout after %ss: %s" % (timeout, " ".join(cmd[:6])))
    if check and p.returncode != 0:
        raise ToolError("command failed (%d): %s\n%s" % (p.returncode, " ".join(cmd[:8]), p.stdout[-4000:]))
    return p


def build_java():
    src = os.path.join(VERIF, "java", "F64.java")
    cls = os.path.join(CLASSES, "F64.class")
    if not os.path.exists(cls) or os.path.getmtime(cls) < os.path.getmtime(src):
        os.makedirs(CLASSES, exist_ok=True)
        sh(["javac", "-cp", TLA_JAR, "-d", CLASSES, src])


def build_harness():
    """cargo rebuilds bacon-sci (path dependency on /repo, cfg bacon_verif on) whenever the
    working tree changed"""
    lock = os.path.join(HARNESS, "Cargo.lock")
    if not os.path.exists(lock):
        import shutil
        shutil.copy(os.path.join(REPO, "Cargo.lock"), lock)
    env = {"CARGO_NET_OFFLINE": "true"}
    p = sh(["cargo", "build", "--release", "--offline"], cwd=HARNESS, env=env, timeout=1200, check=False)
    if p.returncode != 0:
        raise ToolError("harness build failed:\n" + p.stdout[-6000:])


def vh(task, *args, timeout=1200, env=None):
    p = sh([VH, task] + [str(a) for a in args], timeout=timeout, check=False, env=env)
    if p.returncode != 0:
        raise ToolError("vh %s failed (%d):\n%s" % (task, p.returncode, p.stdout[-4000:]))
    return p.stdout


def read_ndjson(path):
    out = []
    with open(path) as f:
        for line in f:
            line = line.strip()
            if line:
                out.append(json.loads(line))
    return out


def write_ndjson(path, rows):
    with open(path, "w") as f:
        for r in rows:
            f.write(json.dumps(r, separators=(",", ":")) + "\n")


# ---------------------------------------------------------------------------- TLC
class TlcResult:
    def __init__(self, out):
        self.out = out
        self.generated = 0
        self.distinct = 0
        self.ok = "Model checking completed. No error has been found." in out or \
                  "Finished computing initial states" in out and "Error:" not in out
        m = re.findall(r"(\d+) states generated, (\d+) distinct states found", out)
        if m:
            self.generated, self.distinct = int(m[-1][0]), int(m[-1][1])
        self.prints = []
        buf = None
        for line in out.splitlines():
            t = line.strip()
            if buf is None:
                if t.startswith("<<"):
                    buf = t
                else:
                    continue
            else:
                buf += " " + t
            if buf.count("<<") <= buf.count(">>") and buf.count("{") <= buf.count("}"):
                v = parse_tla(buf)
                if v is not None and isinstance(v, list) and v and isinstance(v[0], str):
                    self.prints.append(v)
                buf = None
            elif len(buf) > 2000000:
                buf = None
        self.errors = [l for l in out.splitlines() if l.startswith("Error:")]
        self.coverage = {}
        for m in re.finditer(r"^<(\w+) line \d+, col \d+ to line \d+, col \d+ of module (\w+)>: (\d+):(\d+)", out, re.M):
            self.coverage[m.group(2) + "!" + m.group(1)] = (int(m.group(3)), int(m.group(4)))

    def tagged(self, tag):
        return [p for p in self.prints if p and p[0] == tag]

    def definition_coverage(self, module):
        """from `-coverage 1` output: for every top-level definition of spec/<module>.tla, the largest evaluation
        count TLC reports for an occurrence of a primed variable inside it (an assignment or a constraint on the
        next state is evaluated only after the guards before it held) - 0 means the action was never taken in
        this TLC run (vacuity); definitions without primed variables are not listed"""
        path = os.path.join(SPEC, module + ".tla")
        lines = open(path).read().splitlines()
        starts = [(k + 1, m.group(1)) for k, l in enumerate(lines) for m in [re.match(r"^(\w+)(\([^)]*\))?\s*==", l)] if m]
        hits = {}
        for m in re.finditer(r"^\s*\|*line (\d+), col (\d+) to line \d+, col \d+ of module %s: (\d+)" % module, self.out, re.M):
            ln, col, c = int(m.group(1)), int(m.group(2)), int(m.group(3))
            if 1 <= ln <= len(lines) and re.match(r"\w+'", lines[ln - 1][col - 1:]):
                hits[ln] = max(hits.get(ln, 0), c)
        res = {}
        for idx, (ln, name) in enumerate(starts):
            end = starts[idx + 1][0] - 1 if idx + 1 < len(starts) else len(lines)
            inside = [hits[k] for k in range(ln, end + 1) if k in hits]
            has_primed = any(re.search(r"\w'", lines[k - 1]) and not lines[k - 1].lstrip().startswith("\\*") for k in range(ln, end + 1))
            if has_primed:
                res[name] = max(inside + [0])
        return res


def parse_tla(s):
    """parse the subset of TLA+ values our specifications print: tuples, sets, strings, ints, booleans"""
    t = s
    t = t.replace("<<", "[").replace(">>", "]").replace("{", "[").replace("}", "]")
    t = re.sub(r"\bTRUE\b", "true", t)
    t = re.sub(r"\bFALSE\b", "false", t)
    try:
        return json.loads(t)
    except Exception:
        return None


def tlc(module, cfg=None, env=None, workers=1, timeout=900, metadir=None, extra=None, xmx="4g",
        deque=True, check=True):
    build_java()
    cfg = cfg or (module + ".cfg")
    metadir = metadir or os.path.join(VERIF, "work", "md", module + "-" + str(os.getpid()))
    os.makedirs(metadir, exist_ok=True)
    jopts = ["-XX:+UseParallelGC", "-Xmx" + xmx, "-Xss1g"]
    if deque:
        jopts.append("-Dtlc2.tool.queue.IStateQueue=StateDeque")
    cmd = ["java"] + jopts + ["-cp", ":".join([CLASSES, TLA_JAR, DEPS_JAR]), "tlc2.TLC",
                              "-workers", str(workers), "-metadir", metadir, "-cleanup",
                              "-noGenerateSpecTE", "-config", cfg] + (extra or []) + [module + ".tla"]
    e = dict(os.environ)
    e.pop("JAVA_TOOL_OPTIONS", None)
    if env:
        e.update({k: str(v) for k, v in env.items()})
    t0 = time.time()
    try:
        p = subprocess.run(cmd, cwd=SPEC, env=e, timeout=timeout, stdout=subprocess.PIPE,
                           stderr=subprocess.STDOUT, text=True)
    except subprocess.TimeoutExpired:
        raise ToolError("TLC timeout after %ss on %s" % (timeout, module))
    finally:
        import shutil
        shutil.rmtree(metadir, ignore_errors=True)
    r = TlcResult(p.stdout)
    r.wall = time.time() - t0
    r.rc = p.returncode
    if check and (p.returncode != 0 or r.errors):
        tail = "\n".join([l for l in p.stdout.splitlines() if not l.startswith("Loading ")][-40:])
        raise ToolError("TLC failed on %s (rc=%d):\n%s" % (module, p.returncode, tail))
    return r


def tlc_parallel(jobs, max_procs=8):
    """jobs: list of dicts of tlc() kwargs; run up to max_procs at a time; returns results in order"""
    from concurrent.futures import ThreadPoolExecutor
    with ThreadPoolExecutor(max_workers=max_procs) as ex:
        futs = [ex.submit(lambda kw=kw: tlc(**kw)) for kw in jobs]
        return [f.result() for f in futs]


def e1(ctx, module, design, actions, cfg=None, **kw):
    """exhaustive TLC run of an E1 model with `-coverage 1`; records how often each named action of the design module
    was taken (evidence: e1_action_counts) and treats an action that was never taken as a failure of the machinery
    (vacuity), not as a pass"""
    extra = list(kw.pop("extra", [])) + ["-coverage", "1"]
    r = tlc(module, cfg=cfg, extra=extra, deque=False, **kw)
    ctx.add_tlc(r, e1=True)
    # named disjuncts of the model's Next are counted by TLC itself (<Name ...>: distinct:generated); actions that exist
    # only as definitions of the design module are looked up in the expression-level coverage
    cov = r.definition_coverage(design)
    counts = {}
    for a in actions:
        named = [v for k, v in r.coverage.items() if k.endswith("!" + a)]
        counts[a] = max([v[1] for v in named]) if named else cov.get(a, 0)
    ctx.notes.setdefault("e1_action_counts", {})["%s (%s)" % (design, cfg or module)] = counts
    dead = [a for a, c in counts.items() if c == 0]
    if dead:
        raise ToolError("vacuity: actions never taken in %s: %s" % (module, dead))
    return r


# ---------------------------------------------------------------------------- known findings
def load_known():
    """lines:  known: property=C17 sig=<routine>:<conjunct> <free text>
               fixed: property=C03 <commit> <free text>          (suppresses nothing)"""
    known = []
    if os.path.exists(KNOWN):
        for line in open(KNOWN):
            line = line.strip()
            m = re.match(r"known:\s+property=(\S+)\s+sig=(\S+)\s+(.*)", line)
            if m:
                known.append({"property": m.group(1), "sig": m.group(2), "text": m.group(3)})
    return known


# ---------------------------------------------------------------------------- per-check context
class Ctx:
    def __init__(self, prop, tier, seed, level):
        self.prop, self.tier, self.seed, self.level = prop, tier, seed, level
        self.t0 = time.time()
        self.work = os.path.join(VERIF, "work", prop)
        os.makedirs(self.work, exist_ok=True)
        self.states = 0
        self.transitions = 0
        self.e1_states = 0
        self.e1_transitions = 0
        self.traces = 0
        self.evaluations = 0
        self.nontrivial = set()
        self.samples = []
        self.violations = []      # dicts: sig, case, detail
        self.drift = []
        self.notes = {}
        self.assumptions = []
        self.rule = ""
        self.exhaustive = False
        self.actions = {}
        self.known = [k for k in load_known() if k["property"] == prop]

    def path(self, name):
        return os.path.join(self.work, name)

    # -- accounting
    def add_tlc(self, r, e1=False):
        self.states += r.distinct
        self.transitions += r.generated
        if e1:
            self.e1_states += r.distinct
            self.e1_transitions += r.generated
        for k, v in r.coverage.items():
            a = self.actions.setdefault(k, [0, 0])
            a[0] += v[0]
            a[1] += v[1]

    def count_case(self, case, nontrivial):
        self.evaluations += 1
        if nontrivial:
            self.nontrivial.add(hashlib.sha1(json.dumps(case, sort_keys=True).encode()).hexdigest())

    def sample(self, s):
        if len(self.samples) < 5:
            self.samples.append(s)

    def violation(self, routine, conjunct, case, detail=None):
        self.violations.append({"sig": "%s:%s" % (routine, conjunct), "case": case, "detail": detail})

    # -- finishing
    def finish(self):
        wall = time.time() - self.t0
        fresh, known_hit = [], {}
        for v in self.violations:
            k = next((k for k in self.known if k["sig"] == v["sig"]), None)
            if k is None:
                fresh.append(v)
            else:
                known_hit.setdefault(k["sig"], [k, 0])
                known_hit[k["sig"]][1] += 1
        for k in self.known:
            n = known_hit.get(k["sig"], [k, 0])[1]
            log("KNOWN-FINDING: property=%s sig=%s (%d occurrences in this run) %s" % (self.prop, k["sig"], n, k["text"]))
        replay_paths = []
        by_sig = {}
        for v in fresh:
            by_sig.setdefault(v["sig"], []).append(v)
        os.makedirs(os.path.join(VERIF, "out", "replay"), exist_ok=True)
        for sig, vs in sorted(by_sig.items()):
            v = vs[0]
            body = {"property": self.prop, "sig": sig, "tier": self.tier, "seed": self.seed,
                    "occurrences": len(vs), "case": v["case"], "case_decoded": decode(v["case"]),
                    "detail": v["detail"],
                    "rerun": "bin/check replay <this file>"}
            h = hashlib.sha1(json.dumps(body, sort_keys=True, default=str).encode()).hexdigest()[:10]
            path = os.path.join(VERIF, "out", "replay", "%s-%s.json" % (self.prop, h))
            with open(path, "w") as f:
                json.dump(body, f, indent=1, default=str)
            replay_paths.append(path)
            log("VIOLATION property=%s replay=%s" % (self.prop, path))
            log("  sig=%s occurrences=%d detail=%s" % (sig, len(vs), json.dumps(v["detail"], default=str)[:300]))
        cov = {
            "evaluations": self.evaluations,
            "distinct_nontrivial": len(self.nontrivial),
            "rule": self.rule,
            "samples": [decode(s) for s in self.samples] or ["(no cases)"],
            "states": self.states,
            "transitions": self.transitions,
            "traces_validated_against_impl": self.traces,
            "exhaustive": self.exhaustive,
            "e1_design_states": self.e1_states,
            "e1_design_transitions": self.e1_transitions,
            "drift": self.drift[:20],
            "drift_count": len(self.drift),
            "known_findings_hit": sorted(known_hit.keys()),
            "spec_action_coverage": {k: v for k, v in sorted(self.actions.items())[:80]},
        }
        cov.update(self.notes)
        ev = {"property_id": self.prop, "tier": self.tier, "seed": self.seed, "level": self.level,
              "coverage": cov, "assumptions": self.assumptions, "wall_s": round(wall, 2),
              "violations": len(fresh)}
        os.makedirs(os.path.join(VERIF, "evidence"), exist_ok=True)
        with open(os.path.join(VERIF, "evidence", self.prop + ".json"), "w") as f:
            json.dump(ev, f, indent=1, default=str)
        log("%s tier=%s seed=%d: evaluations=%d nontrivial=%d tlc_states=%d traces=%d violations=%d known=%d drift=%d wall=%.1fs"
            % (self.prop, self.tier, self.seed, self.evaluations, len(self.nontrivial), self.states,
               self.traces, len(fresh), len(known_hit), len(self.drift), wall))
        return 1 if fresh else 0
