-------------------------------- MODULE Bisect --------------------------------
(***************************************************************************)
(* Design model of roots::bisection as it stands in the tree (C07),        *)
(* written over an abstract ordered field for the abscissae and an         *)
(* abstract sort of function values of which only "the product of two      *)
(* values has its sign bit clear" (SignPosProd) is used - so that ONE      *)
(* text is                                                                 *)
(*   - model-checked exhaustively on a dyadic lattice with IEEE signed     *)
(*     zeros as function values (MC_Bisect), and                           *)
(*   - instantiated over IEEE doubles (Trace_Bisect) to validate, one by   *)
(*     one and bit for bit, the abscissae the real bisection() asks for.   *)
(* One action per function evaluation group of the code:                   *)
(*   Begin  - order test, f(left), f(right), sign test, first midpoint     *)
(*   Iter   - one pass of the loop: f(middle), bracket update, new         *)
(*            midpoint, stopping test                                      *)
(*   GiveUp - n > n_max                                                    *)
(* Function values are parameters of the actions (FV).                     *)
(***************************************************************************)
EXTENDS Integers, Sequences, FiniteSets

CONSTANTS Plus(_, _), Minus(_, _), Half(_), Le(_, _), Lt(_, _), AbsV(_), TolAt(_, _), SignPosProd(_, _), Zero,
          Defects      \* {} for the code as it stands; the pinned tree's faults, kept for the self-test of the machinery:
                       \* "FirstMidpointOutside", "StopWhenMidpointSmall"

VARIABLES pc, tol, nmax, a0, b0, left, right, fa, middle, n, nev, inside, result
vars == <<pc, tol, nmax, a0, b0, left, right, fa, middle, n, nev, inside, result>>
(* pc : "idle" | "run" | "ok" | "err";  fa : the function value at `left`;  middle : the next abscissa
   n : the loop counter of the code (starts at 1);  nev : function evaluations so far
   inside : every abscissa so far lies in the closed initial interval;  result : the returned number *)

InInitial(x) == Le(a0, x) /\ Le(x, b0)

Init == /\ pc = "idle" /\ tol = Zero /\ nmax = 0 /\ a0 = Zero /\ b0 = Zero /\ left = Zero /\ right = Zero
        /\ middle = Zero /\ n = 0 /\ nev = 0 /\ inside = TRUE /\ result = Zero /\ fa \in {Zero}

\* bisection((a, b), f, t, nm) up to the first midpoint.  va = f(a), vb = f(b).
Begin(a, b, t, nm, va, vb) ==
  /\ pc = "idle"
  /\ tol' = t /\ nmax' = nm /\ a0' = a /\ b0' = b /\ left' = a /\ right' = b /\ result' = result /\ inside' = TRUE
  /\ IF ~Lt(a, b)                                           \* `if left >= right`
       THEN pc' = "err" /\ nev' = 0 /\ n' = 0 /\ fa' = fa /\ middle' = middle
       ELSE /\ nev' = 2 /\ n' = 1 /\ fa' = va
            /\ IF SignPosProd(va, vb)
                 THEN pc' = "err" /\ middle' = middle
                 ELSE /\ pc' = "run"
                      /\ middle' = (IF "FirstMidpointOutside" \in Defects THEN Plus(a, Half(Minus(a, b)))
                                    ELSE Plus(a, Half(Minus(b, a))))

Iter(FV(_)) ==
  /\ pc = "run" /\ n <= nmax
  /\ LET fp == FV(middle)
         keep == SignPosProd(fp, fa)
         l2 == IF keep THEN middle ELSE left
         r2 == IF keep THEN right ELSE middle
         mnew == Plus(l2, Half(Minus(r2, l2)))
         stop == Le(AbsV(Minus(middle, mnew)), TolAt(tol, mnew))
                   \/ ("StopWhenMidpointSmall" \in Defects /\ Lt(AbsV(mnew), tol))
     IN /\ nev' = nev + 1 /\ inside' = (inside /\ InInitial(middle))
        /\ left' = l2 /\ right' = r2 /\ fa' = (IF keep THEN fp ELSE fa)
        /\ IF stop THEN pc' = "ok" /\ result' = mnew /\ UNCHANGED <<middle, n>>
                   ELSE middle' = mnew /\ n' = n + 1 /\ UNCHANGED <<pc, result>>
  /\ UNCHANGED <<tol, nmax, a0, b0>>

GiveUp == /\ pc = "run" /\ n > nmax /\ pc' = "err"
          /\ UNCHANGED <<tol, nmax, a0, b0, left, right, fa, middle, n, nev, inside, result>>

Done == pc \in {"ok", "err"} /\ UNCHANGED vars
=============================================================================
