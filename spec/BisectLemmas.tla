---------------------------- MODULE BisectLemmas ----------------------------
(***************************************************************************)
(* Unbounded (TLAPS) proofs of the arithmetic facts behind the invariants  *)
(* that MC_Bisect checks on a lattice (module Bisect over the integers,    *)
(* Half(x) = x \div 2).                                                    *)
(*  1. The midpoint left + (right - left) \div 2 of a proper bracket lies  *)
(*     in it, strictly below the right end.                                *)
(*  2. Either half of the bracket is at most half as wide, rounded up: the *)
(*     halving bound.                                                      *)
(*  3. The pinned tree's first midpoint left + (left - right) \div 2 lies  *)
(*     outside the bracket (the defect repaired by 437b26a).               *)
(***************************************************************************)
EXTENDS Integers

\* q stands for (right - left) \div 2, characterised by 2q <= right - left <= 2q + 1
THEOREM MidpointInside ==
  ASSUME NEW left \in Int, NEW right \in Int, NEW q \in Int, left < right,
         2 * q <= right - left, right - left <= 2 * q + 1
  PROVE  left <= left + q /\ left + q < right
  OBVIOUS

\* hw stands for (w + 1) \div 2, w = right - left
THEOREM HalvesAreHalfAsWide ==
  ASSUME NEW left \in Int, NEW right \in Int, NEW q \in Int, NEW hw \in Int, left < right,
         2 * q <= right - left, right - left <= 2 * q + 1,
         2 * hw <= right - left + 1, right - left + 1 <= 2 * hw + 1
  PROVE  (left + q) - left <= hw /\ right - (left + q) <= hw
  OBVIOUS

\* q stands for (left - right) \div 2 (floor division of a negative number)
THEOREM PinnedFirstMidpointOutside ==
  ASSUME NEW left \in Int, NEW right \in Int, NEW q \in Int, left + 2 <= right,
         2 * q <= left - right, left - right <= 2 * q + 1
  PROVE  left + q < left
  OBVIOUS
=============================================================================
