------------------------------ MODULE Bisection ------------------------------
(***************************************************************************)
(* Design model of roots::bisection (after the "fix:" commits) on a dyadic *)
(* lattice: abscissae are integers (units of 2^-D), so midpoints are exact *)
(* while the interval is at least two units wide.  The function is a sign  *)
(* pattern: sign * prod (x - r_i) with roots r_i given in half-units (odd  *)
(* = between lattice points, even = on a lattice point, where the value is *)
(* a signed zero exactly as IEEE arithmetic produces it).                  *)
(*                                                                         *)
(* One action per loop iteration.  Checked by MC_Bisection against the     *)
(* C07 contract: every evaluated abscissa lies in the closed initial       *)
(* interval, the sign change is kept by every update, the loop ends within *)
(* the halving bound, and the result is within the tolerance of a root.    *)
(***************************************************************************)
EXTENDS Integers, Sequences, FiniteSets

CONSTANTS Defects      \* subset of {"FirstMidpointOutside", "StopWhenMidpointSmall"}: the pinned tree's behaviour
VARIABLES cfg, left, right, fa, middle, n, stat, evals, result
vars == <<cfg, left, right, fa, middle, n, stat, evals, result>>
(* cfg = [lo, hi, roots (set of half-unit positions), sign (1/-1), tol (units), nmax] *)

\* IEEE sign of sign * prod (2x - r): TRUE = sign bit set (negative or -0)
NegCount(x, roots) == Cardinality({r \in roots : 2 * x < r})
IsZero(x, roots) == \E r \in roots : 2 * x = r
SignBit(x, c) == ((NegCount(x, c.roots) % 2 = 1) /\ c.sign = 1) \/ ((NegCount(x, c.roots) % 2 = 0) /\ c.sign = -1)
\* f(x): [neg |-> sign bit, zero |-> exact zero]
F(x, c) == [neg |-> SignBit(x, c), zero |-> IsZero(x, c.roots)]
ProductPositive(u, v) == u.neg = v.neg           \* is_sign_positive of the IEEE product (zeros keep sign rules)

Abs(x) == IF x < 0 THEN -x ELSE x
Init(c) ==
  /\ cfg = c /\ left = c.lo /\ right = c.hi /\ n = 1 /\ result = 0
  /\ fa = F(c.lo, c)
  /\ IF c.lo >= c.hi \/ ProductPositive(F(c.lo, c), F(c.hi, c))
       THEN stat = "err" /\ middle = c.lo /\ evals = (IF c.lo >= c.hi THEN {} ELSE {c.lo, c.hi})
       ELSE /\ evals = {c.lo, c.hi}
            /\ middle = (IF "FirstMidpointOutside" \in Defects THEN c.lo + (c.lo - c.hi) \div 2 ELSE c.lo + (c.hi - c.lo) \div 2)
            /\ stat = "run"

Iterate ==
  /\ stat = "run"
  /\ IF n > cfg.nmax THEN stat' = "err" /\ UNCHANGED <<left, right, fa, middle, n, evals, result, cfg>>
     ELSE LET fp == F(middle, cfg)
              l2 == IF ProductPositive(fp, fa) THEN middle ELSE left
              r2 == IF ProductPositive(fp, fa) THEN right ELSE middle
              mnew == l2 + (r2 - l2) \div 2
          IN /\ evals' = evals \cup {middle}
             /\ left' = l2 /\ right' = r2
             /\ fa' = IF ProductPositive(fp, fa) THEN fp ELSE fa
             /\ IF Abs(middle - mnew) <= cfg.tol \/ ("StopWhenMidpointSmall" \in Defects /\ Abs(mnew) < cfg.tol)
                  THEN stat' = "ok" /\ result' = mnew /\ UNCHANGED <<middle, n>>
                  ELSE middle' = mnew /\ n' = n + 1 /\ UNCHANGED <<stat, result>>
             /\ UNCHANGED cfg
Done == stat # "run" /\ UNCHANGED vars

\* ---- the contract's sentences ---------------------------------------------------------------
InsideInitialInterval == \A x \in evals : cfg.lo <= x /\ x <= cfg.hi
\* a sign change (or an exact zero at an end) stays between left and right
SignChangeKept == stat = "run" => (~ProductPositive(F(left, cfg), F(right, cfg)) \/ F(left, cfg).zero \/ F(right, cfg).zero)
ResultNearRoot == stat = "ok" => /\ cfg.lo <= result /\ result <= cfg.hi
                                 /\ \E r \in cfg.roots : Abs(2 * result - r) <= 2 * cfg.tol + 1
=============================================================================
