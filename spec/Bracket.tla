------------------------------- MODULE Bracket -------------------------------
(***************************************************************************)
(* Contract of the bracketing root finders (C07): bisection, Brent, ITP.   *)
(* A run is summarised by its inputs, the abscissae it evaluated (min, max,*)
(* count) and its result.  The function under test comes from a catalogue  *)
(* whose sign-change root sets are written here:                           *)
(*   poly  s * prod (x - r_i)      roots r_i (distinct)                    *)
(*   exp   s * (e^x - c)           root ln c                               *)
(*   sin   s * sin(w x)            roots k pi / w                          *)
(*   flat  s * (x - r)^p, p odd    root r                                  *)
(***************************************************************************)
EXTENDS Integers, Sequences, F64

RECURSIVE ProdX(_, _, _)
ProdX(p, x, j) == IF j > Len(p) THEN F1 ELSE FMul(FSub(x, p[j]), ProdX(p, x, j + 1))
FunEval(f, x) ==
  CASE f.k = "poly" -> FMul(f.p[1], ProdX(f.p, x, 2))
    [] f.k = "exp" -> FMul(f.p[1], FSub(FExp(x), f.p[2]))
    [] f.k = "sin" -> FMul(f.p[1], FSin(FMul(f.p[2], x)))
    [] f.k = "flat" -> FMul(f.p[1], FPowI(FSub(x, f.p[2]), FToInt(f.p[3])))
\* distance from x to the nearest sign-change root
RECURSIVE MinDist(_, _, _)
MinDist(p, x, j) == IF j > Len(p) THEN FOfDec("1e300") ELSE FMin(FAbs(FSub(x, p[j])), MinDist(p, x, j + 1))
RootDist(f, x) ==
  CASE f.k = "poly" -> MinDist(f.p, x, 2)
    [] f.k = "exp" -> FAbs(FSub(x, FLn(f.p[2])))
    [] f.k = "sin" -> LET q == FDiv(FPi, f.p[2])
                          k == FFloor(FAdd(FDiv(x, q), FHalf))
                      IN FAbs(FSub(x, FMul(k, q)))
    [] f.k = "flat" -> FAbs(FSub(x, f.p[2]))

Lo(o) == FMin(o.a, o.b)
Hi(o) == FMax(o.a, o.b)
Log2Ceil(x) == IF FLe(x, F1) THEN 0 ELSE FToInt(FCeil(FDiv(FLn(x), FLn(F2))))
Halvings(o) == Log2Ceil(FDiv(FSub(Hi(o), Lo(o)), o.tol))
EvalBound(o) ==
  CASE o.solver = "bisection" -> Halvings(o) + 5
    [] o.solver = "itp" -> Halvings(o) + FToInt(FCeil(FMax(o.n0, F0))) + 5
    [] o.solver = "brent" -> (Halvings(o) + 2) * (Halvings(o) + 2) + 10

GoldenPlus1 == FAdd(F1, FMul(FHalf, FAdd(F1, FSqrt(FOfInt(5)))))
ParamsValid(o) ==
  /\ FGt(o.tol, F0)
  /\ o.solver = "itp" => (FGt(o.k1, F0) /\ FGt(o.k2, F1) /\ FLt(o.k2, GoldenPlus1) /\ FGe(o.n0, F0))
OppositeSigns(o) == LET fa == FunEval(o.f, o.a) fb == FunEval(o.f, o.b)
                    IN (FLt(fa, F0) /\ FGt(fb, F0)) \/ (FGt(fa, F0) /\ FLt(fb, F0))
SameSigns(o) == LET fa == FunEval(o.f, o.a) fb == FunEval(o.f, o.b)
                IN (FLt(fa, F0) /\ FLt(fb, F0)) \/ (FGt(fa, F0) /\ FGt(fb, F0))

Width(o) == LET w == IF o.solver = "bisection" THEN FMul(o.tol, FMax(F1, FAbs(o.x))) ELSE o.tol
            IN FAdd(FMul(w, FOfDec("1.000000001")), FMul(FOfInt(8), FMul(FEps, FMax(F1, FAbs(o.x)))))

Bad(o) ==
  (IF o.n > 0 /\ (o.xnan \/ FLt(o.xmin, Lo(o)) \/ FGt(o.xmax, Hi(o))) THEN {"evaluates_only_inside_the_closed_interval"} ELSE {})
  \cup (IF o.ret = "panic" THEN {"never_panics"} ELSE {})
  \cup (IF o.ret = "budget" \/ (ParamsValid(o) /\ o.n > EvalBound(o)) THEN {"terminates_within_bounded_evaluations"} ELSE {})
  \cup (IF ~ParamsValid(o) /\ o.ret = "ok" THEN {"invalid_tolerance_or_parameters_give_err"} ELSE {})
  \cup (IF ParamsValid(o) /\ SameSigns(o) /\ o.ret = "ok" THEN {"same_sign_ends_give_err"} ELSE {})
  \cup (IF ParamsValid(o) /\ OppositeSigns(o) /\ o.ret = "err" /\ (o.solver # "bisection" \/ FLt(o.a, o.b))
          THEN {"returns_a_root_for_a_valid_bracket"} ELSE {})
  \cup (IF ParamsValid(o) /\ OppositeSigns(o) /\ o.ret = "ok"
          THEN (IF ~(FIsFinite(o.x) /\ FLe(Lo(o), o.x) /\ FLe(o.x, Hi(o))) THEN {"result_inside_the_interval"} ELSE {})
               \* a point where the function *as evaluated* is exactly zero is a root of the function under test
               \* (tiny amplitudes and flat roots underflow to 0 on a whole neighbourhood of the real root)
               \cup (IF FIsFinite(o.x) /\ ~(FLe(RootDist(o.f, o.x), Width(o)) \/ FEq(o.fx, F0) \/ (o.solver = "brent" /\ FLt(FAbs(o.fx), o.tol)))
                       THEN {"sign_change_within_tolerance_of_result"} ELSE {})
          ELSE {})
=============================================================================
