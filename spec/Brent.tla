-------------------------------- MODULE Brent --------------------------------
(***************************************************************************)
(* Design model of roots::brent as it stands in the tree (C07), written    *)
(* over an abstract ordered field so that ONE text is                      *)
(*   - model-checked exhaustively over the integers (MC_Brent: every       *)
(*     bracket / root position / tolerance on a lattice, and - with        *)
(*     SSet(v) = all lattice points - EVERY value the interpolation        *)
(*     formulas could possibly produce), and                               *)
(*   - instantiated over IEEE doubles (Trace_Brent) to validate the        *)
(*     abscissae the real brent() asks for, one by one and bit for bit.    *)
(* One action per function evaluation of the code:                         *)
(*   Begin  - f(a), f(b), ordering swap, bracket test, first secant point  *)
(*   First  - f(s) before the loop                                         *)
(*   Iter   - one pass of the while loop: interpolation, the five          *)
(*            safeguards, f(s), bracket update, ordering swap              *)
(*   Exit   - loop condition false: the returned value                     *)
(* Function values are parameters of the actions (FV): the lattice model   *)
(* passes its function, the trace specification the logged value.          *)
(***************************************************************************)
EXTENDS Integers, Sequences, FiniteSets

CONSTANTS Plus(_, _), Minus(_, _), Times(_, _), Quot(_, _), Lt(_, _), Le(_, _), AbsV(_), SignNeg(_), Num(_),
          Defects      \* {} for the code as it stands; seeded design faults for the self-test of the machinery:
                       \* "NoRangeSafeguard" (first safeguard dropped), "ReturnSAlways" (Exit returns s unconditionally)

VARIABLES pc, tol, a0, b0, left, right, fl, fr, c, fc, d, s, fs, mflag, n, inside, iqi
vars == <<pc, tol, a0, b0, left, right, fl, fr, c, fc, d, s, fs, mflag, n, inside, iqi>>
(* pc     : "idle" | "first" (f(s) pending before the loop) | "loop" | "ok" | "err"
   left, right, fl, fr : the bracket, right being the better end (|fr| <= |fl|)
   c, fc, d : the previous and the one-before-previous value of `right`
   s, fs  : the latest trial abscissa and its value;  after Exit, s is the returned number
   n      : function evaluations so far
   inside : every abscissa so far lies in the closed initial interval
   iqi    : the inverse-quadratic branch has been taken at least once *)

Ge(x, y) == Le(y, x)
Between(x, lo, hi) == Le(lo, x) /\ Le(x, hi)
InInitial(x) == IF Le(a0, b0) THEN Between(x, a0, b0) ELSE Between(x, b0, a0)
Secant(l, r, vl, vr) == Minus(r, Quot(Times(vr, Minus(r, l)), Minus(vr, vl)))
Iqi(l, r, cc, vl, vr, vc) ==
  Plus(Plus(Quot(Times(Times(l, vr), vc), Times(Minus(vl, vr), Minus(vl, vc))),
            Quot(Times(Times(r, vl), vc), Times(Minus(vr, vl), Minus(vr, vc)))),
       Quot(Times(Times(cc, vl), vr), Times(Minus(vc, vl), Minus(vc, vr))))

Init == /\ pc = "idle" /\ tol = Num(0) /\ a0 = Num(0) /\ b0 = Num(0) /\ left = Num(0) /\ right = Num(0)
        /\ fl = Num(0) /\ fr = Num(0) /\ c = Num(0) /\ fc = Num(0) /\ d = Num(0) /\ s = Num(0) /\ fs = Num(0)
        /\ mflag = TRUE /\ n = 0 /\ inside = TRUE /\ iqi = FALSE

\* brent((a, b), f, t) up to the first secant point.  fa = f(a), fb = f(b).
Begin(a, b, t, fa, fb) ==
  /\ pc = "idle"
  /\ tol' = t /\ a0' = a /\ b0' = b /\ iqi' = FALSE /\ inside' = TRUE /\ mflag' = TRUE
  /\ IF SignNeg(t)
       THEN /\ pc' = "err" /\ n' = 0
            /\ UNCHANGED <<left, right, fl, fr, c, fc, d, s, fs>>
       ELSE LET sw == Lt(AbsV(fa), AbsV(fb))                 \* make `left` the end with the larger value
                l == IF sw THEN b ELSE a   r == IF sw THEN a ELSE b
                vl == IF sw THEN fb ELSE fa vr == IF sw THEN fa ELSE fb
            IN /\ n' = 2
               /\ left' = l /\ right' = r /\ fl' = vl /\ fr' = vr
               /\ IF ~SignNeg(Times(vl, vr))
                    THEN pc' = "err" /\ UNCHANGED <<c, fc, d, s, fs>>
                    ELSE /\ pc' = "first" /\ c' = l /\ fc' = vl /\ d' = l
                         /\ s' = Secant(l, r, vl, vr) /\ fs' = fs

\* f_s = f(s) before the loop
First(FV(_)) ==
  /\ pc = "first"
  /\ fs' = FV(s) /\ n' = n + 1 /\ inside' = (inside /\ InInitial(s))
  /\ pc' = "loop"
  /\ UNCHANGED <<tol, a0, b0, left, right, fl, fr, c, fc, d, s, mflag, iqi>>

Stop == Lt(AbsV(fr), tol) \/ Lt(AbsV(fs), tol) \/ Lt(AbsV(Minus(left, right)), tol)

UseIqi == Lt(AbsV(Minus(fl, fc)), tol) /\ Lt(AbsV(Minus(fr, fc)), tol)
\* the five safeguards, for a proposed point x
Reject(x) ==
  \/ ("NoRangeSafeguard" \notin Defects /\ ~(Ge(x, Quot(Plus(Times(Num(3), left), right), Num(4))) /\ Le(x, right)))
  \/ (mflag /\ Ge(AbsV(Minus(x, right)), Quot(Minus(right, c), Num(2))))
  \/ (~mflag /\ Ge(AbsV(Minus(x, right)), Quot(AbsV(Minus(c, d)), Num(2))))
  \/ (mflag /\ Lt(AbsV(Minus(right, c)), tol))
  \/ (~mflag /\ Lt(AbsV(Minus(c, d)), tol))

\* one pass of the loop.  SSet(v): the values admitted for the interpolated point when the formula gives v
\* ({v} for the code as written; a larger set over-approximates any interpolation).
Iter(FV(_), SSet(_)) ==
  /\ pc = "loop" /\ ~Stop
  /\ \E x \in SSet(IF UseIqi THEN Iqi(left, right, c, fl, fr, fc) ELSE Secant(left, right, fl, fr)) :
       LET rej == Reject(x)
           sn == IF rej THEN Quot(Plus(left, right), Num(2)) ELSE x
           v == FV(sn)
           toRight == SignNeg(Times(fl, v))
           l1 == IF toRight THEN left ELSE sn    vl1 == IF toRight THEN fl ELSE v
           r1 == IF toRight THEN sn ELSE right   vr1 == IF toRight THEN v ELSE fr
           sw == Lt(AbsV(vl1), AbsV(vr1))
       IN /\ s' = sn /\ fs' = v /\ mflag' = rej
          /\ d' = c /\ c' = right /\ fc' = fr
          /\ left' = (IF sw THEN r1 ELSE l1) /\ fl' = (IF sw THEN vr1 ELSE vl1)
          /\ right' = (IF sw THEN l1 ELSE r1) /\ fr' = (IF sw THEN vl1 ELSE vr1)
          /\ n' = n + 1 /\ inside' = (inside /\ InInitial(sn))
  /\ iqi' = (iqi \/ UseIqi)
  /\ UNCHANGED <<pc, tol, a0, b0>>

\* the returned number: s if its value is below the tolerance, else `right`
Exit ==
  /\ pc = "loop" /\ Stop
  /\ pc' = "ok"
  /\ s' = (IF Lt(AbsV(fs), tol) \/ "ReturnSAlways" \in Defects THEN s ELSE right)
  /\ fs' = (IF Lt(AbsV(fs), tol) \/ "ReturnSAlways" \in Defects THEN fs ELSE fr)
  /\ UNCHANGED <<tol, a0, b0, left, right, fl, fr, c, fc, d, mflag, n, inside, iqi>>

Done == pc \in {"ok", "err"} /\ UNCHANGED vars
=============================================================================
