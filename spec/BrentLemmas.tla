---------------------------- MODULE BrentLemmas ----------------------------
(***************************************************************************)
(* Unbounded (TLAPS) proofs of two facts about the design module Brent     *)
(* that MC_Brent checks on a lattice.                                      *)
(*  1. The inverse-quadratic branch is dead: while the loop runs, the      *)
(*     values at the two ends have opposite signs and magnitude >= tol,    *)
(*     so they cannot both be within tol of a third value.                 *)
(*  2. A trial point accepted by the first safeguard lies in the current   *)
(*     bracket, and the bisection point lies in it too.                    *)
(* Integers stand for any ordered ring here; the proofs use only order     *)
(* and addition.                                                           *)
(***************************************************************************)
EXTENDS Integers

Abs(x) == IF x < 0 THEN -x ELSE x

THEOREM IqiDead ==
  ASSUME NEW fl \in Int, NEW fr \in Int, NEW fc \in Int, NEW tol \in Int,
         tol > 0, Abs(fr) >= tol, Abs(fl) >= Abs(fr),
         (fl > 0 /\ fr < 0) \/ (fl < 0 /\ fr > 0)
  PROVE  ~(Abs(fl - fc) < tol /\ Abs(fr - fc) < tol)
  BY DEF Abs

\* first safeguard with exact division by four: 4 s >= 3 left + right and s <= right  (left <= right)
THEOREM AcceptedPointInsideBracket ==
  ASSUME NEW left \in Int, NEW right \in Int, NEW s \in Int,
         left <= right, 4 * s >= 3 * left + right, s <= right
  PROVE  left <= s /\ s <= right
  OBVIOUS

THEOREM MidpointInsideBracket ==
  ASSUME NEW left \in Int, NEW right \in Int, NEW m \in Int,
         2 * m <= left + right, left + right <= 2 * m + 1
  PROVE  (left <= right => left <= m /\ m <= right) /\ (right <= left => right <= m /\ m <= left)
  OBVIOUS
=============================================================================
