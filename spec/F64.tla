------------------------------- MODULE F64 -------------------------------
(***************************************************************************)
(* IEEE-754 binary64 arithmetic for TLC.  A number is the pair <<hi, lo>>  *)
(* of 32-bit integers holding its bit pattern.  Every operator below is    *)
(* overridden by /verif/java/F64.java (class F64 on the classpath); the    *)
(* TLA+ bodies are unbounded CHOOSEs so that a missing override is a loud  *)
(* TLC error instead of a silent wrong value.                              *)
(*                                                                         *)
(* Trusted base: F64.java, java.lang.Math, the JVM.  + - * / sqrt are      *)
(* correctly rounded (IEEE) in both Java and Rust.                         *)
(***************************************************************************)
LOCAL INSTANCE Integers
LOCAL INSTANCE Sequences

FAdd(a, b) == CHOOSE x : TRUE
FSub(a, b) == CHOOSE x : TRUE
FMul(a, b) == CHOOSE x : TRUE
FDiv(a, b) == CHOOSE x : TRUE
FNeg(a) == CHOOSE x : TRUE
FAbs(a) == CHOOSE x : TRUE
FSqrt(a) == CHOOSE x : TRUE
FMax(a, b) == CHOOSE x : TRUE
FMin(a, b) == CHOOSE x : TRUE
FFma(a, b, c) == CHOOSE x : TRUE

FLe(a, b) == CHOOSE x \in BOOLEAN : TRUE
FLt(a, b) == CHOOSE x \in BOOLEAN : TRUE
FEq(a, b) == CHOOSE x \in BOOLEAN : TRUE
FIsFinite(a) == CHOOSE x \in BOOLEAN : TRUE
FIsNaN(a) == CHOOSE x \in BOOLEAN : TRUE
FSignBit(a) == CHOOSE x \in BOOLEAN : TRUE

FOfInt(n) == CHOOSE x : TRUE
FOfRat(n, m) == CHOOSE x : TRUE      \* correctly rounded n/m for |n|,|m| < 2^31
FScale(n, e) == CHOOSE x : TRUE      \* n * 2^e, exact
FOfDec(s) == CHOOSE x : TRUE         \* decimal literal given as a string
FStr(a) == CHOOSE x : TRUE           \* shortest decimal string (diagnostics only)

FFloor(a) == CHOOSE x : TRUE
FCeil(a) == CHOOSE x : TRUE
FToInt(a) == CHOOSE x \in Int : TRUE
FUlp(a) == CHOOSE x : TRUE

FExp(a) == CHOOSE x : TRUE
FLn(a) == CHOOSE x : TRUE
FSin(a) == CHOOSE x : TRUE
FCos(a) == CHOOSE x : TRUE
FTanh(a) == CHOOSE x : TRUE
FSinh(a) == CHOOSE x : TRUE
FCosh(a) == CHOOSE x : TRUE
FPow(a, b) == CHOOSE x : TRUE
FPowI(a, n) == CHOOSE x : TRUE

FSeq(s) == s                         \* identity; the override evaluates the sequence eagerly and deeply
FSum(s) == CHOOSE x : TRUE           \* left-to-right sum of a sequence
FNorm2(s) == CHOOSE x : TRUE         \* sqrt(sum of squares)
FMaxAbs(s) == CHOOSE x : TRUE        \* max |s[i]|, 0 for <<>>

(***************************************************************************)
(* Derived, pure TLA+.                                                     *)
(***************************************************************************)
\* Bind(x, F) = F(x) with x evaluated exactly once.  TLC evaluates LET-bound expressions
\* lazily and may re-evaluate them at every use, which is exponential in recursive numeric
\* code; a value drawn from the singleton set {x} is computed once.
Bind(x, F(_)) == CHOOSE r \in {F(v) : v \in {x}} : TRUE
F0 == <<0, 0>>
F1 == <<1072693248, 0>>
F2 == <<1073741824, 0>>
FHalf == <<1071644672, 0>>
FEps == <<1018167296, 0>>            \* 2^-52
FPi == <<1074340347, 1413754136>>    \* 0x400921FB54442D18

FGe(a, b) == FLe(b, a)
FGt(a, b) == FLt(b, a)
FR(n, m) == FOfRat(n, m)
FI(n) == FOfInt(n)

\* |a - b| <= tol
FNear(a, b, tol) == FLe(FAbs(FSub(a, b)), tol)
\* |a - b| <= rel * max(1, |a|, |b|)
FClose(a, b, rel) == FLe(FAbs(FSub(a, b)), FMul(rel, FMax(F1, FMax(FAbs(a), FAbs(b)))))

\* vectors: sequences of F64
VAdd(u, v) == FSeq([k \in 1..Len(u) |-> FAdd(u[k], v[k])])
VSub(u, v) == FSeq([k \in 1..Len(u) |-> FSub(u[k], v[k])])
VScale(c, u) == FSeq([k \in 1..Len(u) |-> FMul(c, u[k])])
VAxpy(c, u, v) == FSeq([k \in 1..Len(u) |-> FAdd(FMul(c, u[k]), v[k])])   \* c*u + v
VFinite(u) == \A k \in 1..Len(u) : FIsFinite(u[k])
VDist(u, v) == FNorm2(VSub(u, v))
VDistInf(u, v) == FMaxAbs(VSub(u, v))

\* complex numbers: <<re, im>> with F64 parts
CAdd(a, b) == <<FAdd(a[1], b[1]), FAdd(a[2], b[2])>>
CSub(a, b) == <<FSub(a[1], b[1]), FSub(a[2], b[2])>>
CMul(a, b) == <<FSub(FMul(a[1], b[1]), FMul(a[2], b[2])), FAdd(FMul(a[1], b[2]), FMul(a[2], b[1]))>>
CNeg(a) == <<FNeg(a[1]), FNeg(a[2])>>
CAbs(a) == FNorm2(<<a[1], a[2]>>)
CScale(c, a) == <<FMul(c, a[1]), FMul(c, a[2])>>
COfInt(n) == <<FOfInt(n), F0>>
COfInts(n, m) == <<FOfInt(n), FOfInt(m)>>
CFinite(a) == FIsFinite(a[1]) /\ FIsFinite(a[2])
CDiv(a, b) ==
  LET den == FAdd(FMul(b[1], b[1]), FMul(b[2], b[2]))
  IN <<FDiv(FAdd(FMul(a[1], b[1]), FMul(a[2], b[2])), den),
       FDiv(FSub(FMul(a[2], b[1]), FMul(a[1], b[2])), den)>>
=============================================================================
