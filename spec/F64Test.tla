------------------------------ MODULE F64Test ------------------------------
(* Self-test of the F64 override against exact integer arithmetic (run by bin/check selftest). *)
EXTENDS Integers, Sequences, TLC, F64

ASSUME FAdd(F1, F1) = F2
ASSUME FMul(FHalf, F2) = F1
ASSUME FOfInt(1) = F1 /\ FOfInt(0) = F0
ASSUME \A a \in -20..20, b \in -20..20 : FAdd(FOfInt(a), FOfInt(b)) = FOfInt(a + b)
ASSUME \A a \in -20..20, b \in -20..20 : FEq(FMul(FOfInt(a), FOfInt(b)), FOfInt(a * b))
ASSUME \A a \in -20..20, b \in 1..20 : FEq(FMul(FOfRat(a, b), FOfInt(b)), FOfInt(a)) \/ b \notin {1,2,4,8,16}
ASSUME \A a \in -20..20, b \in -20..20 : FLe(FOfInt(a), FOfInt(b)) = (a <= b)
ASSUME \A a \in -20..20, b \in -20..20 : FLt(FOfInt(a), FOfInt(b)) = (a < b)
ASSUME FSqrt(FOfInt(49)) = FOfInt(7)
ASSUME FScale(3, -2) = FOfRat(3, 4)
ASSUME FOfDec("0.75") = FOfRat(3, 4)
ASSUME FStr(FOfRat(3, 4)) = "0.75"
ASSUME FToInt(FOfRat(7, 2)) = 3
ASSUME ~FIsFinite(FDiv(F1, F0)) /\ FIsNaN(FDiv(F0, F0))
ASSUME FNear(FSin(FPi), F0, FOfDec("1e-15"))
ASSUME FNear(FExp(FLn(F2)), F2, FOfDec("1e-15"))
ASSUME FSum(<<F1, F2, FHalf>>) = FOfRat(7, 2)
ASSUME FNorm2(<<FOfInt(3), FOfInt(4)>>) = FOfInt(5)
ASSUME FMaxAbs(<<FOfInt(-3), FOfInt(2)>>) = FOfInt(3)
ASSUME CMul(COfInts(1, 2), COfInts(3, -1)) = COfInts(5, 5)
ASSUME CDiv(COfInts(5, 5), COfInts(3, -1)) = COfInts(1, 2)
ASSUME FEps = FScale(1, -52)
ASSUME FPi = FOfDec("3.141592653589793")
ASSUME PrintT("F64Test ok")
VARIABLE x
Init == x = 0
Next == UNCHANGED x
=============================================================================
