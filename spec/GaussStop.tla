------------------------------ MODULE GaussStop ------------------------------
(***************************************************************************)
(* Design model of the stopping rule shared by the Gaussian integrators    *)
(* (integrate_gaussian_core, integrate_laguerre, integrate_hermite,        *)
(* the two Chebyshev integrators): walk through the rule table, stop at the  *)
(* first rule whose area differs from the previous rule's by less than tol while *)
(* the previous difference was below tol as well ("two consecutive         *)
(* agreements"); Err when the table is exhausted.                          *)
(*                                                                         *)
(* The areas are abstracted to the verdict sequence                        *)
(*     small[k] == |area_k - area_{k-1}| < tol       (area_0 = 0)          *)
(* chosen up front (it is a function of the integrand), and TLC explores   *)
(* every verdict sequence of length N.                                     *)
(***************************************************************************)
EXTENDS Integers, Sequences

CONSTANTS N
VARIABLES small, k, prevSmall, stat, result
vars == <<small, k, prevSmall, stat, result>>

Init == /\ small \in [1..N -> BOOLEAN] /\ k = 0 /\ stat = "run" /\ result = 0
        /\ prevSmall = FALSE              \* prev_err starts at 1 + tol, which is not below tol
\* one rule with the verdict v of its area (RuleV is used as it is by the trace specification Trace_Gauss,
\* where the verdict is computed from the recorded function values)
RuleV(v) == /\ stat = "run" /\ k < N
            /\ k' = k + 1
            /\ IF v /\ prevSmall
                 THEN stat' = "ok" /\ result' = k + 1
                 ELSE UNCHANGED <<stat, result>>
            /\ prevSmall' = v
            /\ UNCHANGED small
Rule == stat = "run" /\ k < N /\ RuleV(small[k + 1])
Exhausted == stat = "run" /\ k = N /\ stat' = "err" /\ UNCHANGED <<small, k, prevSmall, result>>
Next == Rule \/ Exhausted

NeverBeforeSecondRule == stat = "ok" => result >= 2
\* (the invariants that need the recursively defined "first agreement" are in MC_GaussStop; this module is kept free of
\* RECURSIVE so that TLAPS can read it: StopLemmas proves NeverBeforeSecondRule for every N)
=============================================================================
