------------------------------ MODULE Gen_C07 ------------------------------
(* E2 generator for C07: dyadic lattice brackets x root positions x tolerances, increasing and decreasing
   functions, brackets in either order; midpoints are exact on this lattice. *)
EXTENDS Integers, Sequences, FiniteSets, TLC, Json, IOUtils, SequencesExt, F64
Thorough == IOEnv.VH_TIER = "thorough"
E(n) == FOfRat(n, 8)
Ends == IF Thorough THEN {-24, -8, -4, 0, 2, 8, 12, 16, 32} ELSE {-8, -4, 0, 8, 16}
Roots == IF Thorough THEN {-21, -7, -3, -1, 1, 3, 5, 9, 13, 27} ELSE {-7, -3, 1, 5, 9}
Tols == IF Thorough THEN {-3, -8, -16, -30} ELSE {-4, -12, -30}
Solvers == {"bisection", "brent", "itp"}
Cases ==
  { [solver |-> s, a |-> E(a), b |-> E(b), tol |-> FScale(1, t), n_max |-> 300, k1 |-> FOfRat(1, 10), k2 |-> F2, n0 |-> F1,
     f |-> [k |-> "poly", p |-> <<FOfInt(sg), E(r)>>], budget |-> 5000] :
      s \in Solvers, a \in Ends, b \in Ends, r \in Roots, t \in Tols, sg \in {1, -1} }
  \cup
  { [solver |-> s, a |-> E(a), b |-> E(b), tol |-> FScale(1, t), n_max |-> 300, k1 |-> FOfRat(1, 5), k2 |-> FOfRat(3, 2), n0 |-> F0,
     f |-> [k |-> "poly", p |-> <<FOfInt(sg), E(r), E(r2), E(r3)>>], budget |-> 5000] :
      s \in Solvers, a \in {-8, 0}, b \in {8, 16}, r \in {-3, 1}, r2 \in {5}, r3 \in {9, 27}, t \in Tols, sg \in {1, -1} }
Valid == { c \in Cases : c.a # c.b }
ASSUME ndJsonSerialize(IOEnv.VH_CASES, SetToSeq(Valid))
ASSUME PrintT(<<"GENERATED", Cardinality(Valid)>>)
VARIABLE x
Init == x = 0
Next == UNCHANGED x
=============================================================================
