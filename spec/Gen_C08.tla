------------------------------ MODULE Gen_C08 ------------------------------
(* E2 generator for C08: every affine system A (x - r) with integer entries in -2..2 and non-zero determinant
   (dimension 1-2 exhaustively, a structured family in dimension 3), roots and starts on a small lattice
   including the origin and the root itself, for Newton and secant; plus singular systems. *)
EXTENDS Integers, Sequences, FiniteSets, TLC, Json, IOUtils, SequencesExt, F64
Thorough == IOEnv.VH_TIER = "thorough"
V == IF Thorough THEN {-2, -1, 0, 1, 2} ELSE {-2, 0, 1}
Pts == {-2, 0, 1}
FV(s) == [k \in 1..Len(s) |-> FOfInt(s[k])]
FM(m) == [i \in 1..Len(m) |-> FV(m[i])]
Mats1 == { <<<<a>>>> : a \in V }
Mats2 == { <<<<a, b>>, <<c, d>>>> : a \in V, b \in V, c \in V, d \in V }
Mats3 == { <<<<a, b, 0>>, <<0, c, d>>, <<e, 0, 1>>>> : a \in {1, -2}, b \in {0, 1}, c \in {2, -1}, d \in {0, -1}, e \in {0, 2} }
Det(m) == IF Len(m) = 1 THEN m[1][1]
          ELSE IF Len(m) = 2 THEN m[1][1] * m[2][2] - m[1][2] * m[2][1]
          ELSE m[1][1] * (m[2][2] * m[3][3] - m[2][3] * m[3][2]) - m[1][2] * (m[2][1] * m[3][3] - m[2][3] * m[3][1])
               + m[1][3] * (m[2][1] * m[3][2] - m[2][2] * m[3][1])
RECURSIVE Tuples(_, _)
Tuples(S, n) == IF n = 0 THEN {<<>>} ELSE {Append(s, v) : s \in Tuples(S, n - 1), v \in S}
Case(method, m, r, st) ==
  [method |-> method, dim |-> Len(m), A |-> FM(m), r |-> FV(r), eps |-> F0, g |-> "none", start |-> FV(st),
   tol |-> FOfDec("1e-8"), n_max |-> 60, h |-> FOfRat(1, 16), budget |-> 5000,
   regular |-> Det(m) # 0, singular |-> Det(m) = 0]
Cases ==
  UNION { { Case(me, m, r, st) : me \in {"newton", "secant"}, r \in Tuples(Pts, Len(m)), st \in Tuples(Pts, Len(m)) } :
          m \in Mats1 \cup Mats2 }
  \cup UNION { { Case(me, m, r, st) : me \in {"newton", "secant"}, r \in {<<0, 0, 0>>, <<1, -2, 0>>}, st \in {<<0, 0, 0>>, <<1, -2, 0>>, <<-2, 1, 1>>} } :
          m \in Mats3 }
ASSUME ndJsonSerialize(IOEnv.VH_CASES, SetToSeq(Cases))
ASSUME PrintT(<<"GENERATED", Cardinality(Cases)>>)
VARIABLE x
Init == x = 0
Next == UNCHANGED x
=============================================================================
