------------------------------ MODULE Gen_C11 ------------------------------
(* E2 generator for C11/C12: exhaustive small-scope operand pairs over Z and Z[i], written as F64 pairs. *)
EXTENDS Integers, Sequences, FiniteSets, TLC, Json, IOUtils, SequencesExt, F64, Poly

Thorough == IOEnv.VH_TIER = "thorough"
RVals == IF Thorough THEN {-2, -1, 0, 1, 2} ELSE {-1, 0, 2}
CVals == IF Thorough THEN {<<0, 0>>, <<1, 0>>, <<0, 1>>, <<-1, -1>>, <<2, 1>>} ELSE {<<0, 0>>, <<1, 0>>, <<0, 1>>, <<-1, -1>>}
RMaxLen == IF Thorough THEN 3 ELSE 4
CMaxLen == 3

\* coefficient sequences of length 1..n with non-zero leading coefficient when longer than 1
RECURSIVE SeqsOf(_, _)
SeqsOf(S, n) == IF n = 0 THEN {<<>>} ELSE {Append(s, v) : s \in SeqsOf(S, n - 1), v \in S}
Polys(S, zero, n) == UNION { {s \in SeqsOf(S, m) : m = 1 \/ s[m] # zero} : m \in 1..n }
RPolys == Polys(RVals, 0, RMaxLen)
CPolys == Polys(CVals, <<0, 0>>, CMaxLen)
RC(s) == [k \in 1..Len(s) |-> COfInts(s[k], 0)]
CC(s) == [k \in 1..Len(s) |-> COfInts(s[k][1], s[k][2])]
Tol == FOfDec("1e-10")
Xs == << <<FOfRat(1, 2), F0>>, <<FOfRat(-5, 4), F0>>, <<FOfInt(2), F0>> >>
XsC == << <<FOfRat(1, 2), F0>>, <<FOfRat(-1, 4), FOfRat(3, 4)>>, <<F0, FOfInt(-1)>> >>
RScal == << COfInts(2, 0), COfInts(-1, 0), <<FOfRat(1, 2), F0>> >>
CScal == << COfInts(1, 1), COfInts(0, -2), <<FOfRat(1, 2), F0>> >>

RCases == { [cx |-> FALSE, a |-> RC(a), b |-> RC(b), s |-> RScal[((Len(a) + Len(b)) % 3) + 1], ta |-> Tol, tb |-> Tol, xs |-> Xs] :
              a \in RPolys, b \in RPolys }
CCases == { [cx |-> TRUE, a |-> CC(a), b |-> CC(b), s |-> CScal[((Len(a) + Len(b)) % 3) + 1], ta |-> Tol, tb |-> Tol, xs |-> XsC] :
              a \in CPolys, b \in CPolys }
ASSUME ndJsonSerialize(IOEnv.VH_CASES, SetToSeq(RCases) \o SetToSeq(CCases))
ASSUME PrintT(<<"GENERATED", Cardinality(RCases) + Cardinality(CCases)>>)
VARIABLE x
Init == x = 0
Next == UNCHANGED x
=============================================================================
