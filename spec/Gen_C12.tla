------------------------------ MODULE Gen_C12 ------------------------------
(* E2 generator for C12: (q, d, r) with deg r < deg d, the dividend built exactly as q*d + r by the
   reference algebra; plus constant divisors, divisors of higher degree and the zero polynomial. *)
EXTENDS Integers, Sequences, FiniteSets, TLC, Json, IOUtils, SequencesExt, F64, Poly

Thorough == IOEnv.VH_TIER = "thorough"
RECURSIVE SeqsOf(_, _)
SeqsOf(S, n) == IF n = 0 THEN {<<>>} ELSE {Append(s, v) : s \in SeqsOf(S, n - 1), v \in S}
Tol == FOfDec("1e-10")

\* real: coefficients as integers, divisor's leading coefficient as <<num, den>>
RBody == IF Thorough THEN {-2, -1, 0, 1, 2} ELSE {-1, 0, 2}
Leads == { <<1, 1>>, <<-1, 1>>, <<2, 1>>, <<-2, 1>>, <<1, 2>>, <<-1, 2>> }
RC(s) == [k \in 1..Len(s) |-> COfInts(s[k], 0)]
RDiv(body, ld) == RC(body) \o << <<FOfRat(ld[1], ld[2]), F0>> >>
RQs == UNION { {s \in SeqsOf(RBody, m) : m = 1 \/ s[m] # 0} : m \in 1..3 }
RCase(q, body, ld, r) ==
  LET d == RDiv(body, ld) IN
  [cx |-> FALSE, a |-> PAdd(Conv(RC(q), d), RC(r)), d |-> d, ta |-> Tol, exact |-> TRUE, q0 |-> RC(q), r0 |-> RC(r)]
RCases == { RCase(q, body, ld, r) :
              q \in RQs, body \in SeqsOf(RBody, 1) \cup SeqsOf({-1, 2}, 2), ld \in Leads, r \in {<<0>>, <<1>>, <<-2>>} }
           \cup { RCase(q, body, ld, r) :
              q \in {<<1>>, <<0, 2>>, <<-1, 0, 1>>}, body \in SeqsOf({-1, 0, 2}, 2), ld \in {<<1, 1>>, <<-2, 1>>, <<1, 2>>},
              r \in {<<0>>, <<1, -1>>, <<0, 2>>, <<-2, 0>>} }
\* complex: Gaussian integers
CBody == {<<0, 0>>, <<1, 0>>, <<0, 1>>, <<-1, -1>>}
CLeads == {<<1, 0>>, <<0, 1>>, <<1, 1>>, <<0, -2>>}
CC(s) == [k \in 1..Len(s) |-> COfInts(s[k][1], s[k][2])]
CQs == UNION { {s \in SeqsOf(CBody, m) : m = 1 \/ s[m] # <<0, 0>>} : m \in 1..2 }
CCase(q, body, ld, r) ==
  LET d == CC(body \o <<ld>>) IN
  [cx |-> TRUE, a |-> PAdd(Conv(CC(q), d), CC(r)), d |-> d, ta |-> Tol, exact |-> TRUE, q0 |-> CC(q), r0 |-> CC(r)]
CCases == { CCase(q, body, ld, r) : q \in CQs, body \in SeqsOf(CBody, 1) \cup SeqsOf({<<1, 0>>, <<0, 1>>}, 2), ld \in CLeads,
              r \in {<< <<0, 0>> >>, << <<1, -1>> >>} }
\* special shapes: constant divisors, divisor of higher degree than the dividend, zero divisor, zero dividend
Special ==
  { [cx |-> FALSE, a |-> RC(a), d |-> RC(d), ta |-> Tol, exact |-> TRUE,
     q0 |-> IF Len(d) = 1 THEN PDivS(RC(a), COfInts(d[1], 0)) ELSE <<C0>>,
     r0 |-> IF Len(d) = 1 THEN <<C0>> ELSE RC(a)] :
       a \in {<<0>>, <<3>>, <<1, 2>>, <<-1, 0, 4>>}, d \in {<<2>>, <<-4>>, <<1, 0, 0, 1>>, <<0, 0, 0, 2>>} }
  \cup { [cx |-> FALSE, a |-> RC(a), d |-> RC(<<0>>), ta |-> Tol, exact |-> FALSE, q0 |-> <<C0>>, r0 |-> <<C0>>] :
       a \in {<<0>>, <<3>>, <<1, 2>>} }
  \cup { [cx |-> TRUE, a |-> CC(a), d |-> CC(<< <<0, 0>> >>), ta |-> Tol, exact |-> FALSE, q0 |-> <<C0>>, r0 |-> <<C0>>] :
       a \in { << <<1, 1>> >>, << <<0, 1>>, <<2, 0>> >> } }
ASSUME ndJsonSerialize(IOEnv.VH_CASES, SetToSeq(RCases) \o SetToSeq(CCases) \o SetToSeq(Special))
ASSUME PrintT(<<"GENERATED", Cardinality(RCases) + Cardinality(CCases) + Cardinality(Special)>>)
VARIABLE x
Init == x = 0
Next == UNCHANGED x
=============================================================================
