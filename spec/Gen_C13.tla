------------------------------ MODULE Gen_C13 ------------------------------
(* E2 generator for C13: coefficient-editing histories (every sequence of <= N operations over the
   alphabet below from four initial polynomials) and evaluation/calculus cases in small scope. *)
EXTENDS Integers, Sequences, FiniteSets, TLC, Json, IOUtils, SequencesExt, F64, Poly

Thorough == IOEnv.VH_TIER = "thorough"
N == IF Thorough THEN 4 ELSE 3
I(n) == COfInts(n, 0)
Zc == COfInts(0, 0)
Ops ==
  {[op |-> "set", k |-> k, c |-> c, p |-> <<Zc>>] : k \in {0, 2, 5}, c \in {I(0), I(3)}}
  \cup {[op |-> "purge", k |-> k, c |-> Zc, p |-> <<Zc>>] : k \in 0..4}
  \cup {[op |-> "purge_leading", k |-> 0, c |-> Zc, p |-> <<Zc>>]}
  \cup {[op |-> "add", k |-> 0, c |-> Zc, p |-> p] : p \in {<<I(1), I(-1)>>, <<I(0), I(0), I(0), I(-3)>>}}
  \cup {[op |-> "muls", k |-> 0, c |-> c, p |-> <<Zc>>] : c \in {I(2), I(0)}}
RECURSIVE SeqsOf(_, _)
SeqsOf(S, n) == IF n = 0 THEN {<<>>} ELSE SeqsOf(S, n - 1) \cup {Append(s, v) : s \in {t \in SeqsOf(S, n - 1) : Len(t) = n - 1}, v \in S}
Inits == { <<I(0)>>, <<I(1), I(2)>>, <<I(0), I(0), I(3)>>, <<I(1), I(0)>>, <<COfInts(1, 1), COfInts(0, -2), COfInts(0, 0), COfInts(2, 0)>> }
Hist == { [kind |-> "hist", cx |-> (Len(init) = 4), init |-> init, ops |-> ops, ta |-> FOfDec("1e-10"), probe |-> 9] :
            init \in Inits, ops \in SeqsOf(Ops, N) \ {<<>>} }

\* evaluation / calculus: polynomials of <= 4 coefficients over {-2..2} (quick: {-1,0,2}) at lattice points
Vals == IF Thorough THEN {-2, -1, 0, 1, 2} ELSE {-1, 0, 2}
RECURSIVE Tuples(_, _)
Tuples(S, n) == IF n = 0 THEN {<<>>} ELSE {Append(s, v) : s \in Tuples(S, n - 1), v \in S}
FnPolys == UNION { Tuples(Vals, m) : m \in 1..4 }
RX == << <<FOfInt(-2), F0>>, <<FOfRat(-1, 4), F0>>, <<F0, F0>>, <<FOfRat(1, 2), F0>>, <<FOfRat(3, 4), F0>>, <<FOfInt(2), F0>> >>
CX == << <<FOfInt(1), FOfInt(1)>>, <<FOfRat(-1, 2), FOfRat(1, 4)>>, <<F0, FOfInt(-2)>>, <<FOfRat(3, 4), F0>> >>
Fn == { [kind |-> "fn", cx |-> FALSE, a |-> [k \in 1..Len(s) |-> I(s[k])], ta |-> FOfDec("1e-10"), xs |-> RX,
         cst |-> I(1), lo |-> <<FOfInt(-1), F0>>, mid |-> <<FOfRat(1, 2), F0>>, hi |-> <<FOfInt(2), F0>>] : s \in FnPolys }
      \cup
      { [kind |-> "fn", cx |-> TRUE, a |-> [k \in 1..Len(s) |-> COfInts(s[k], s[Len(s) + 1 - k])], ta |-> FOfDec("1e-10"), xs |-> CX,
         cst |-> COfInts(0, 1), lo |-> <<FOfInt(-1), F1>>, mid |-> <<FOfRat(1, 2), F0>>, hi |-> <<FOfInt(1), FOfInt(-1)>>] :
         s \in UNION { Tuples({-1, 0, 2}, m) : m \in 1..3 } }
ASSUME ndJsonSerialize(IOEnv.VH_CASES, SetToSeq(Hist))
ASSUME ndJsonSerialize(IOEnv.VH_CASES2, SetToSeq(Fn))
ASSUME PrintT(<<"GENERATED", Cardinality(Hist), Cardinality(Fn)>>)
VARIABLE x
Init == x = 0
Next == UNCHANGED x
=============================================================================
