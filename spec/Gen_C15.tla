------------------------------ MODULE Gen_C15 ------------------------------
(* E2 generator for C15: ordered node tuples (every permutation) on a half-integer lattice, data sampled by
   the specification from integer polynomials within the degree bound, arbitrary integer data, Gaussian-
   integer nodes, mismatched lengths. *)
EXTENDS Integers, Sequences, FiniteSets, TLC, Json, IOUtils, SequencesExt, F64, Poly

Thorough == IOEnv.VH_TIER = "thorough"
NMax == IF Thorough THEN 4 ELSE 3
Lattice == {-4, -3, -2, -1, 0, 1, 2, 3, 4}                 \* half-integers in [-2, 2], as numerators over 2
RECURSIVE Inj(_, _)
\* injective n-tuples over S
Inj(S, n) == IF n = 0 THEN {<<>>} ELSE UNION { {Append(s, v) : v \in S \ {s[k] : k \in 1..Len(s)}} : s \in Inj(S, n - 1) }
\* four nodes (thorough tier) are drawn from a six-point sub-lattice: 360 ordered tuples
Lat(n) == IF n >= 4 THEN {-4, -2, 0, 1, 3, 4} ELSE Lattice
RECURSIVE Tuples(_, _)
Tuples(S, n) == IF n = 0 THEN {<<>>} ELSE {Append(s, v) : s \in Tuples(S, n - 1), v \in S}
I(n) == COfInts(n, 0)
RX(t) == [k \in 1..Len(t) |-> <<FOfRat(t[k], 2), F0>>]
Tol == FOfDec("1e-12")
Sample(src, xs) == [k \in 1..Len(xs) |-> PEval(src, xs[k])]
Zero(n) == [k \in 1..n |-> I(0)]

\* Lagrange: every source polynomial with n coefficients over {-1,0,2}
Lag == UNION { { [kind |-> "lagrange", cx |-> FALSE, xs |-> RX(t), ys |-> Sample([k \in 1..n |-> I(s[k])], RX(t)), ds |-> Zero(n),
                  tol |-> Tol, src |-> [k \in 1..n |-> I(s[k])], has_src |-> TRUE, mismatch |-> FALSE] :
                 t \in Inj(Lat(n), n), s \in {u \in Tuples({-1, 0, 2}, n) : n < 4 \/ u[4] # 0} } : n \in 1..NMax }
\* Hermite: sources with 2n coefficients from a fixed family
HSrc(n) == { [k \in 1..(2 * n) |-> I(IF k % 3 = 0 THEN a ELSE IF k % 2 = 0 THEN b ELSE 1)] : a \in {-1, 2}, b \in {0, -2} }
            \cup { [k \in 1..(2 * n) |-> I(IF k = 2 * n THEN 1 ELSE 0)], [k \in 1..(2 * n) |-> I(IF k = 1 THEN 3 ELSE 0)] }
Her == UNION { { [kind |-> "hermite", cx |-> FALSE, xs |-> RX(t), ys |-> Sample(s, RX(t)), ds |-> Sample(PDeriv(s), RX(t)),
                  tol |-> Tol, src |-> s, has_src |-> TRUE, mismatch |-> FALSE] :
                 t \in Inj(Lat(n), n), s \in HSrc(n) } : n \in 1..NMax }
\* arbitrary integer data: reproduction at the nodes only
Arb == UNION { { [kind |-> kd, cx |-> FALSE, xs |-> RX(t), ys |-> [k \in 1..n |-> I(((t[k] * 3 + k) % 5) - 2)],
                  ds |-> [k \in 1..n |-> I(((t[k] + 2 * k) % 3) - 1)], tol |-> Tol, src |-> <<I(0)>>, has_src |-> FALSE, mismatch |-> FALSE] :
                 t \in Inj({-4, -1, 0, 3, 4}, n), kd \in {"lagrange", "hermite"} } : n \in 1..3 }
\* complex nodes (Gaussian half-integers) and complex sources
CNodes == { <<0, 0>>, <<2, 0>>, <<0, 2>>, <<-2, -2>>, <<1, -1>> }
CXs(t) == [k \in 1..Len(t) |-> <<FOfRat(t[k][1], 2), FOfRat(t[k][2], 2)>>]
CSrc(n) == { [k \in 1..n |-> COfInts(IF k % 2 = 0 THEN a ELSE 1, IF k % 2 = 0 THEN 1 ELSE a)] : a \in {-1, 0, 2} }
Cpx == UNION { { [kind |-> "lagrange", cx |-> TRUE, xs |-> CXs(t), ys |-> Sample(s, CXs(t)), ds |-> Zero(n),
                  tol |-> Tol, src |-> s, has_src |-> TRUE, mismatch |-> FALSE] : t \in Inj(CNodes, n), s \in CSrc(n) } : n \in 1..3 }
       \cup UNION { { [kind |-> "hermite", cx |-> TRUE, xs |-> CXs(t), ys |-> Sample(s, CXs(t)), ds |-> Sample(PDeriv(s), CXs(t)),
                  tol |-> Tol, src |-> s, has_src |-> TRUE, mismatch |-> FALSE] : t \in Inj(CNodes, n), s \in CSrc(2 * n) } : n \in 1..2 }
Mis == { [kind |-> kd, cx |-> FALSE, xs |-> RX(<<0, 2, 4>>), ys |-> ys, ds |-> ds, tol |-> Tol, src |-> <<I(0)>>, has_src |-> FALSE, mismatch |-> TRUE] :
           kd \in {"lagrange", "hermite"}, ys \in {<<I(1), I(2)>>, <<I(1), I(2), I(3), I(4)>>}, ds \in {<<I(0), I(0), I(0)>>} }
       \* every direction of mismatch between the three slices of hermite (shorter and longer values / derivatives)
       \cup { [kind |-> "hermite", cx |-> FALSE, xs |-> RX(xs), ys |-> ys, ds |-> ds, tol |-> Tol,
               src |-> <<I(0)>>, has_src |-> FALSE, mismatch |-> TRUE] :
                 xs \in {<<0, 2, 4>>, <<-2, 1>>}, ys \in {<<I(1), I(2)>>, <<I(1), I(2), I(3)>>}, ds \in {<<I(0)>>, <<I(0), I(1)>>, <<I(0), I(1), I(0)>>, <<I(0), I(1), I(0), I(2)>>} }
       \* ... and every combination of 0..3 nodes, ordinates and derivatives (the mismatched ones are kept below): among them a
       \* single node with no or two ordinates, and no node at all with data
       \cup { [kind |-> kd, cx |-> FALSE, xs |-> RX(SubSeq(<<0, 2, 4>>, 1, a)), ys |-> SubSeq(<<I(1), I(2), I(3)>>, 1, b),
               ds |-> SubSeq(<<I(0), I(1), I(0)>>, 1, IF kd = "lagrange" THEN a ELSE c), tol |-> Tol,
               src |-> <<I(0)>>, has_src |-> FALSE, mismatch |-> TRUE] :
                 kd \in {"lagrange", "hermite"}, a \in 0..3, b \in 0..3, c \in 0..3 }
All == Lag \cup Her \cup Arb \cup Cpx \cup {c \in Mis : ~(Len(c.xs) = Len(c.ys) /\ (c.kind = "lagrange" \/ Len(c.xs) = Len(c.ds)))}
ASSUME ndJsonSerialize(IOEnv.VH_CASES, SetToSeq(All))
ASSUME PrintT(<<"GENERATED", Cardinality(All)>>)
VARIABLE x
Init == x = 0
Next == UNCHANGED x
=============================================================================
