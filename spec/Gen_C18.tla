------------------------------ MODULE Gen_C18 ------------------------------
(* E2 case generator for C18: the full finite input space of the property's quantifier. *)
EXTENDS Integers, Sequences, TLC, Json, IOUtils, SequencesExt, F64, OrthoPoly

NMax == atoi(IOEnv.VH_NMAX)
Tols == <<"1e-14", "1e-12", "1e-10", "1e-8", "1e-6">>
FamSeq == <<"legendre", "hermite", "laguerre", "chebyshev", "chebyshev_second">>
Cases == [k \in 1..(5 * (NMax + 1) * 5 * 2) |->
            LET a == k - 1
                cx == a % 2
                t == (a \div 2) % 5
                n == (a \div 10) % (NMax + 1)
                f == a \div (10 * (NMax + 1))
            IN [id |-> k, fam |-> FamSeq[f + 1], n |-> n, tol |-> FOfDec(Tols[t + 1]), cx |-> (cx = 1)]]
ASSUME ndJsonSerialize(IOEnv.VH_CASES, Cases)
ASSUME PrintT(<<"GENERATED", Len(Cases)>>)
VARIABLE x
Init == x = 0
Next == UNCHANGED x
=============================================================================
