------------------------------ MODULE Gen_C19 ------------------------------
(* E2 generator for C19: polynomials of degree <= 6 (monomials, two-term combinations, dense ones) x points
   x steps; all data dyadic so that function values are exact. *)
EXTENDS Integers, Sequences, FiniteSets, TLC, Json, IOUtils, SequencesExt, F64, Poly

Thorough == IOEnv.VH_TIER = "thorough"
I(n) == COfInts(n, 0)
Mono(k, c, n) == [j \in 1..n |-> IF j = k + 1 THEN c ELSE I(0)]
Polys ==
  { Mono(k, c, k + 1) : k \in 0..6, c \in {I(1), I(-2)} }
  \cup { PAdd(Mono(j, I(1), k + 1), Mono(k, c, k + 1)) : j \in 0..5, k \in 1..6, c \in {I(-1), I(2)} }
  \cup { [j \in 1..n |-> I(1)] : n \in 1..7 } \cup { [j \in 1..n |-> I(IF j % 2 = 0 THEN -2 ELSE 1)] : n \in 2..7 }
CPolys == { [j \in 1..Len(p) |-> CMul(p[j], COfInts(1, (j % 3) - 1))] : p \in { [j \in 1..n |-> I(IF j % 2 = 0 THEN -1 ELSE 2)] : n \in 1..7 } }
            \cup { Mono(k, COfInts(1, -1), k + 1) : k \in 0..6 }
Xs == IF Thorough THEN {<<-3, 1>>, <<-7, 4>>, <<-3, 4>>, <<0, 1>>, <<1, 4>>, <<1, 1>>, <<5, 2>>, <<3, 1>>}
      ELSE {<<-3, 1>>, <<-3, 4>>, <<0, 1>>, <<1, 4>>, <<5, 2>>}
Hs == IF Thorough THEN {-1, -2, -3, -5, -7, -10} ELSE {-1, -3, -6, -10}
Cases == { [cx |-> FALSE, f |-> [k |-> "poly", c |-> p, p |-> <<>>], x |-> FOfRat(xq[1], xq[2]), h |-> FScale(1, e)] : p \in Polys, xq \in Xs, e \in Hs }
         \cup { [cx |-> TRUE, f |-> [k |-> "poly", c |-> p, p |-> <<>>], x |-> FOfRat(xq[1], xq[2]), h |-> FScale(1, e)] : p \in CPolys, xq \in Xs, e \in Hs }
ASSUME ndJsonSerialize(IOEnv.VH_CASES, SetToSeq(Cases))
ASSUME PrintT(<<"GENERATED", Cardinality(Cases)>>)
VARIABLE x
Init == x = 0
Next == UNCHANGED x
=============================================================================
