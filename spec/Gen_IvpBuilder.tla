---------------------------- MODULE Gen_IvpBuilder ----------------------------
(* E2: enumerate builder call sequences (preamble x explored calls x solve) for the harness. *)
EXTENDS Integers, Sequences, FiniteSets, TLC, Json, IOUtils, SequencesExt, IvpBuilder
MaxLen == atoi(IOEnv.VH_MAXLEN)
M == INSTANCE MC_IvpBuilder WITH MaxCalls <- MaxLen, euler <- FALSE, b <- Empty, alive <- TRUE, ncalls <- 0, last <- Ok(Empty)
Alphabet == M!Alphabet
Full == M!Full
Drop(seq, k) == [j \in 1..(Len(seq) - 1) |-> IF j < k THEN seq[j] ELSE seq[j + 1]]
Preambles == {<<>>, Full} \cup {Drop(Full, k) : k \in 1..Len(Full)}
RECURSIVE Seqs(_)
Seqs(n) == IF n = 0 THEN {<<>>} ELSE Seqs(n - 1) \cup {Append(s, c) : s \in {t \in Seqs(n - 1) : Len(t) = n - 1}, c \in Alphabet}
Ctors == { <<TRUE, "new">>, <<FALSE, "new_dyn">>, <<TRUE, "new_dyn">>, <<FALSE, "new">> }
Cases ==
  { [static |-> ct[1], ctor |-> ct[2], size |-> 2, calls |-> pre \o s \o << [call |-> "solve", v |-> 0] >>] :
      ct \in {c \in Ctors : c[1] = (c[2] = "new")}, pre \in Preambles, s \in Seqs(MaxLen) }
  \cup
  { [static |-> ct[1], ctor |-> ct[2], size |-> 2, calls |-> << [call |-> "solve", v |-> 0] >>] :
      ct \in {c \in Ctors : c[1] # (c[2] = "new")} }
ASSUME ndJsonSerialize(IOEnv.VH_CASES, SetToSeq(Cases))
ASSUME PrintT(<<"GENERATED", Cardinality(Cases)>>)
VARIABLE x
Init == x = 0
Next == UNCHANGED x
=============================================================================
