INIT GInit
NEXT GNext
CONSTANTS
  Defects = {}
  MaxSteps = 0
  Kinds = {"euler", "rk", "adams3", "adams5", "bdf2", "bdf6"}
  Thorough = FALSE
CHECK_DEADLOCK FALSE
