--------------------------- MODULE Gen_IvpConfigs ---------------------------
(* E2: hand the E1 model's own initial-state set (MC_IvpProtocol!Configs) to the harness, so that
   the real solvers are run on exactly the configurations TLC explored. *)
EXTENDS Integers, Sequences, TLC, Json, IOUtils, SequencesExt
CONSTANTS Defects, MaxSteps, Kinds, Thorough
VARIABLES cfg, time, dt, phase, k, hist, saveTime, noSent, stat, obs, out, mon, bad
M == INSTANCE MC_IvpProtocol
ASSUME ndJsonSerialize(IOEnv.VH_CASES, SetToSeq(M!Configs))
ASSUME PrintT(<<"GENERATED", Len(SetToSeq(M!Configs))>>)
GInit == cfg = 0 /\ time = 0 /\ dt = 0 /\ phase = 0 /\ k = 0 /\ hist = 0 /\ saveTime = 0 /\ noSent = 0
         /\ stat = 0 /\ obs = 0 /\ out = 0 /\ mon = 0 /\ bad = 0
GNext == UNCHANGED <<cfg, time, dt, phase, k, hist, saveTime, noSent, stat, obs, out, mon, bad>>
=============================================================================
