------------------------------ MODULE HermiteDD ------------------------------
(***************************************************************************)
(* Design model of interp::hermite as it stands in the tree (C15), over an *)
(* abstract field: the divided-difference table on the doubled node list   *)
(* z = x1, x1, x2, x2, ... (first column the ordinates, second column the  *)
(* given derivatives on the repeated rows and slopes between neighbouring  *)
(* nodes elsewhere, one action per further cell), the Horner assembly of   *)
(* the Newton form (one action per factor, with the library's product by a *)
(* linear factor), and the final cleaning: coefficients of modulus < tol   *)
(* are set to zero (the top one removed), then leading coefficients <= the *)
(* polynomial's tolerance are removed.                                     *)
(*                                                                         *)
(* Rows and columns are 1-based: q[r][cc] is the code's qs[(r-1) +         *)
(* (cc-1) * 2n].                                                           *)
(*                                                                         *)
(* Defects = {"purge_leading_with_default_tolerance"} is the code before   *)
(* its repair: the polynomial being assembled kept the library's default   *)
(* tolerance (1e-10), so a genuine leading coefficient between the         *)
(* caller's tighter tolerance and 1e-10 was removed.                       *)
(***************************************************************************)
EXTENDS Integers, Sequences

CONSTANTS Add(_, _), Sub(_, _), Mul(_, _), Div(_, _), Neg(_), AbsLt(_, _), SmallLe(_, _), Zero, One, DefaultTol, TolZero, Defects
VARIABLES pc, xs, ys, ds, tol, q, r, cc, p
vars == <<pc, xs, ys, ds, tol, q, r, cc, p>>
(* pc : "idle" | "table" | "horner" | "done" | "err" | "panic";  (r, cc): the cell to fill next / r: the factor to multiply in next *)

M == 2 * Len(xs)
Z(j) == xs[((j - 1) \div 2) + 1]
Init == pc = "idle" /\ xs = <<>> /\ ys = <<>> /\ ds = <<>> /\ tol = TolZero /\ q = <<>> /\ r = 0 /\ cc = 0 /\ p = <<Zero>>

Begin(x, y, dv, t) ==
  /\ pc = "idle" /\ xs' = x /\ ys' = y /\ ds' = dv /\ tol' = t /\ p' = <<Zero>>
  /\ IF Len(x) # Len(y) \/ Len(x) # Len(dv)
       THEN pc' = "err" /\ q' = <<>> /\ r' = 0 /\ cc' = 0
       ELSE IF Len(x) = 0                              \* no nodes at all: the code indexes an empty table and panics
       THEN pc' = "panic" /\ q' = <<>> /\ r' = 0 /\ cc' = 0       \* (outside the property: it speaks of 1..8 nodes)
       ELSE LET m == 2 * Len(x)
                zz(j) == x[((j - 1) \div 2) + 1]
                yy(j) == y[((j - 1) \div 2) + 1]
            IN /\ q' = [j \in 1..m |-> [c \in 1..m |->
                          IF c = 1 THEN yy(j)
                          ELSE IF c = 2 THEN (IF j % 2 = 0 THEN dv[j \div 2]
                                              ELSE IF j = 1 THEN Zero
                                              ELSE Div(Sub(yy(j), yy(j - 1)), Sub(zz(j), zz(j - 1))))
                          ELSE Zero]]
               /\ IF m >= 3 THEN pc' = "table" /\ r' = 3 /\ cc' = 3
                            ELSE pc' = "horner" /\ r' = m - 1 /\ cc' = 0

Cell ==
  /\ pc = "table"
  /\ q' = [q EXCEPT ![r][cc] = Div(Sub(q[r][cc - 1], q[r - 1][cc - 1]), Sub(Z(r), Z(r - (cc - 1))))]
  /\ IF cc < r THEN r' = r /\ cc' = cc + 1 /\ pc' = pc
     ELSE IF r < M THEN r' = r + 1 /\ cc' = 3 /\ pc' = pc
     ELSE pc' = "horner" /\ r' = M - 1 /\ cc' = 0
  /\ UNCHANGED <<xs, ys, ds, tol, p>>

\* p * (x - a) as Polynomial::multiply does it for a linear right factor (coefficients ascending: [-a, 1])
MulLin(s, a) ==
  IF Len(s) = 1 THEN <<Mul(Neg(a), s[1]), Mul(One, s[1])>>
  ELSE [j \in 1..(Len(s) + 1) |->
          IF j = 1 THEN Add(Zero, Mul(s[1], Neg(a)))
          ELSE IF j <= Len(s) THEN Add(Mul(s[j - 1], One), Mul(s[j], Neg(a)))
          ELSE Mul(s[j - 1], One)]
AddConst(s, c) == [s EXCEPT ![1] = Add(s[1], c)]

\* one pass of the assembly loop (code: i = r, from 2n - 1 down to 1)
Horner ==
  /\ pc = "horner" /\ r >= 1
  /\ p' = MulLin(AddConst(p, q[r + 1][r + 1]), xs[((r - 1) \div 2) + 1])
  /\ r' = r - 1
  /\ UNCHANGED <<pc, xs, ys, ds, tol, q, cc>>

TrimLen(s, P(_)) == CHOOSE n \in 1..Len(s) : (n = 1 \/ ~P(s[n])) /\ \A m \in (n + 1)..Len(s) : P(s[m])
Finish ==
  /\ pc = "horner" /\ r = 0
  /\ LET s0 == AddConst(p, q[1][1])
         top == Len(s0)
         \* the zeroing loop: every small coefficient below the top is set to zero, a small top one is removed
         s1 == [j \in 1..top |-> IF j < top /\ AbsLt(s0[j], tol) THEN Zero ELSE s0[j]]
         s2 == IF top > 1 /\ AbsLt(s0[top], tol) THEN SubSeq(s1, 1, top - 1) ELSE s1
         ptol == IF "purge_leading_with_default_tolerance" \in Defects THEN DefaultTol ELSE tol
     IN p' = SubSeq(s2, 1, TrimLen(s2, LAMBDA c : SmallLe(c, ptol)))
  /\ pc' = "done"
  /\ UNCHANGED <<xs, ys, ds, tol, q, r, cc>>
Done == pc \in {"done", "err", "panic"} /\ UNCHANGED vars
=============================================================================
