------------------------------ MODULE Iterative ------------------------------
(***************************************************************************)
(* Contract of the Newton-type iterations (C08): Newton and secant         *)
(* (Broyden) on systems, Newton and Muller on polynomials, Steffensen on   *)
(* contractions.  A run is its input, the call counts of the user function *)
(* and its single result.  Test systems have the form                      *)
(*      F(x) = A (x - r) + eps * g(x - r)     g in {none, sq, sin - id}    *)
(* so the root r and the residual are computable here.                     *)
(***************************************************************************)
EXTENDS Integers, Sequences, F64, Poly

SysF(o, x) ==
  LET d == VSub(x, o.r) n == Len(x) IN
  [i \in 1..n |->
     FAdd(FSum([j \in 1..n |-> FMul(o.A[i][j], d[j])]),
          FMul(o.eps, CASE o.g = "sq" -> FMul(d[i], d[i])
                        [] o.g = "sin" -> FSub(FSin(d[i]), d[i])
                        [] OTHER -> F0))]
MaxAbsA(o) == FMaxAbs([k \in 1..(Len(o.A) * Len(o.A)) |-> o.A[((k - 1) \div Len(o.A)) + 1][((k - 1) % Len(o.A)) + 1]])

\* Steffensen catalogue: contraction G and its fixed-point residual
G(o, x) ==
  LET name == o.g IN
  CASE name = "cos" -> FCos(x)
    [] name = "expm" -> FExp(FNeg(x))
    [] name = "heron" -> FMul(FHalf, FAdd(x, FDiv(F2, x)))
    [] name = "sinhalf" -> FAdd(F1, FMul(FHalf, FSin(x)))
    [] name = "affine" -> FAdd(FMul(FOfRat(1, 4), x), FOfInt(3))
    [] name = "quad" -> FDiv(FAdd(FMul(x, x), F1), FOfInt(3))
    [] name = "logshift" -> FLn(FAdd(x, F2))
    [] name = "sin09" -> FAdd(FMul(FOfDec("0.9"), FSin(x)), FOfDec("0.3"))
    [] name = "affp" -> FAdd(FMul(o.gp[1], x), o.gp[2])           \* slope and intercept carried by the case

KSys == FOfInt(8)
KRes == FOfInt(64)

CallCap(o) ==
  CASE o.method = "newton" -> o.n_max + 1
    [] o.method = "secant" -> o.n_max + 2 * o.dim + 2
    [] o.method = "steffensen" -> 2 * o.n_max + 2
    [] OTHER -> 1000000

SystemBad(o) ==
  LET r == o.obs IN
  (IF r.ret = "ok" /\ ~VFinite(r.x) THEN {"result_is_finite_not_nan"} ELSE {})
  \cup (IF r.ret = "ok" /\ VFinite(r.x) /\ o.regular /\ ~FLe(VDist(r.x, o.r), FMul(KSys, o.tol))
          THEN {"result_within_tolerance_of_the_root"} ELSE {})
  \cup (IF r.ret = "ok" /\ VFinite(r.x) /\ ~o.regular /\ ~FLe(FNorm2(SysF(o, r.x)), FMul(FMul(KRes, o.tol), FAdd(F1, MaxAbsA(o))))
          THEN {IF o.singular THEN "singular_system_gives_err_or_a_true_root" ELSE "ok_result_is_a_root_not_a_silently_wrong_point"} ELSE {})
  \cup (IF o.regular /\ r.ret = "err" THEN {"regular_problem_returns_ok"} ELSE {})
  \* Newton sees the singular Jacobian itself and must report it. Secant works from a finite-difference
  \* Jacobian whose rounding noise can make LU succeed; A(x - r) = 0 is consistent, so an Ok there is
  \* acceptable exactly when it is a root (checked by the residual conjunct above), never a wrong point.
  \cup (IF o.singular /\ r.ret = "ok" /\ o.method = "newton" THEN {"singular_system_gives_err"} ELSE {})

SteffBad(o) ==
  LET r == o.obs x == r.x[1] IN
  (IF r.ret = "ok" /\ ~FIsFinite(x) THEN {"result_is_finite_not_nan"} ELSE {})
  \cup (IF r.ret = "ok" /\ FIsFinite(x) /\ ~FLe(FAbs(FSub(G(o, x), x)), FAdd(FMul(KSys, o.tol), FMul(FMul(FOfInt(8), FEps), FAdd(F1, FAbs(x)))))
          THEN {"steffensen_returns_the_fixed_point"} ELSE {})
  \cup (IF o.regular /\ r.ret = "err" THEN {"regular_problem_returns_ok"} ELSE {})

NearARoot(ws, x, bound) == \E k \in 1..Len(ws) : FLe(CAbs(CSub(x, ws[k])), bound)
RootAllowance(p, x) ==
  LET ax == <<CAbs(x), F0>>
      mag == PEval([k \in 1..Len(p) |-> <<CAbs(p[k]), F0>>], ax)[1]
  IN FDiv(FMul(FMul(FOfInt(256), FEps), mag), FMax(CAbs(PEval(PDeriv(p), x)), FScale(1, -200)))
PolyIterBad(o) ==
  LET r == o.obs x == r.xc IN
  (IF r.ret = "ok" /\ ~CFinite(x) THEN {"result_is_finite_not_nan"} ELSE {})
  \cup (IF r.ret = "ok" /\ CFinite(x) /\ o.method = "newton_polynomial" /\ o.regular
           /\ ~FLe(CAbs(CSub(x, o.root)), FMul(KSys, o.tol))
          THEN {"newton_polynomial_returns_the_nearby_simple_root"} ELSE {})
  \cup (IF r.ret = "ok" /\ CFinite(x) /\ (o.method = "muller_polynomial" \/ ~o.regular)
           /\ ~FLe(CAbs(PEval(o.coefs, x)), FMul(FMul(KRes, o.tol), FAdd(F1, CAbs(PEval(PDeriv(o.coefs), x)))))
          THEN {"ok_result_is_a_root_of_the_polynomial"} ELSE {})
  \* ... and for simple, separated roots "a root" is a point within the tolerance of one of them (the tolerance is on the
  \* iterate: the routine stops on the length of its step), not merely a point where the polynomial is small - on a
  \* polynomial that is flat at its roots (|p'| of 1e-3) the two differ by a factor of a thousand.  The allowance is the
  \* distance by which rounding of the coefficients moves the root: eps * sum |c_k| |x|^k / |p'(x)|
  \cup (IF r.ret = "ok" /\ CFinite(x) /\ o.method = "muller_polynomial" /\ o.regular
           /\ ~NearARoot(o.roots, x, FAdd(FMul(KSys, o.tol), RootAllowance(o.coefs, x)))
          THEN {"muller_result_within_tolerance_of_a_root"} ELSE {})
  \cup (IF o.regular /\ r.ret = "err" THEN {"regular_problem_returns_ok"} ELSE {})

Bad(o) ==
  (IF o.obs.ret = "panic" THEN {"never_panics"} ELSE {})
  \cup (IF o.obs.ret = "budget" \/ o.obs.nf > CallCap(o) THEN {"respects_its_iteration_cap"} ELSE {})
  \cup (IF o.method \in {"newton", "secant"} THEN SystemBad(o)
        ELSE IF o.method = "steffensen" THEN SteffBad(o) ELSE PolyIterBad(o))
=============================================================================
