--------------------------------- MODULE Itp ---------------------------------
(***************************************************************************)
(* Design model of roots::itp (after the "fix:" commits) on an integer     *)
(* lattice.  The interpolation and truncation steps depend on function     *)
(* values, which a sign-pattern model does not have; they are abstracted   *)
(* to what the method guarantees about them: the trial point lies strictly *)
(* inside the current bracket and, after the projection step, within the   *)
(* radius  r_j = eps * 2^(n_half + 2 n_0 - j) - (b - a)/2  of the midpoint *)
(* (the code adds n_0 twice).  TLC chooses any such lattice point, so the  *)
(* model over-approximates every interpolation the real code can make.     *)
(* Checked: abscissae inside the initial bracket, the sign change is kept, *)
(* at most n_half + 2 n_0 iterations, result within eps of the root.       *)
(***************************************************************************)
EXTENDS Integers, Sequences, FiniteSets

VARIABLES cfg, lo, hi, j, stat, evals, result
vars == <<cfg, lo, hi, j, stat, evals, result>>
(* cfg = [a, b (lattice points, a < b), root (half-units), sign, eps, n0];  lo has the negative value, hi the
   positive one, so lo > hi for decreasing functions, exactly as in the code after its swap *)

Neg(x, c) == (2 * x < c.root /\ c.sign = 1) \/ (2 * x > c.root /\ c.sign = -1)
IsRoot(x, c) == 2 * x = c.root
Abs(x) == IF x < 0 THEN -x ELSE x
RECURSIVE Log2Ceil(_), Pow2(_)
Log2Ceil(w) == IF w <= 1 THEN 0 ELSE 1 + Log2Ceil((w + 1) \div 2)
Pow2(e) == IF e <= 0 THEN 1 ELSE 2 * Pow2(e - 1)
\* n_half = ceil(log2(|b - a| / (2 eps)))
NHalf(c) == Log2Ceil((Abs(c.b - c.a) + 2 * c.eps - 1) \div (2 * c.eps))

Init(c) ==
  /\ cfg = c /\ j = 0 /\ result = 0 /\ evals = TRUE
  /\ IF IsRoot(c.a, c) \/ IsRoot(c.b, c) \/ (Neg(c.a, c) = Neg(c.b, c))
       THEN stat = "err" /\ lo = c.a /\ hi = c.b
       ELSE stat = "run" /\ lo = (IF Neg(c.a, c) THEN c.a ELSE c.b) /\ hi = (IF Neg(c.a, c) THEN c.b ELSE c.a)

\* twice the projection radius (kept doubled to stay in the integers)
R2(c, jj, w) == 2 * c.eps * Pow2(NHalf(c) + 2 * c.n0 - jj) - w
Step(x) ==
  /\ stat = "run" /\ Abs(hi - lo) > 2 * cfg.eps
  /\ LET w == Abs(hi - lo) l == IF lo < hi THEN lo ELSE hi r == IF lo < hi THEN hi ELSE lo
     IN /\ l < x /\ x < r                                  \* strictly inside the bracket
        /\ Abs(2 * x - (lo + hi)) <= R2(cfg, j, w)          \* within the projection radius of the midpoint
  /\ evals' = (evals /\ cfg.a <= x /\ x <= cfg.b)      \* every abscissa so far inside the initial bracket
  /\ j' = j + 1
  /\ IF IsRoot(x, cfg) THEN lo' = x /\ hi' = x
     ELSE IF Neg(x, cfg) THEN lo' = x /\ hi' = hi ELSE lo' = lo /\ hi' = x
  /\ UNCHANGED <<cfg, stat, result>>
Finish == /\ stat = "run" /\ Abs(hi - lo) <= 2 * cfg.eps
          /\ stat' = "ok" /\ result' = lo + hi                \* twice the returned midpoint
          /\ UNCHANGED <<cfg, lo, hi, j, evals>>
Done == stat # "run" /\ UNCHANGED vars

InsideInitialInterval == evals
SignChangeKept == stat = "run" => (Neg(lo, cfg) \/ IsRoot(lo, cfg)) /\ (~Neg(hi, cfg))
WithinBisectionWorstCase == j <= NHalf(cfg) + 2 * cfg.n0
ResultNearRoot == stat = "ok" => Abs(result - cfg.root) <= 2 * cfg.eps + 1 /\ 2 * cfg.a <= result /\ result <= 2 * cfg.b
\* a step is always possible while the bracket is wider than 2 eps: the radius is never negative and the
\* midpoint (or a lattice neighbour of it) is admissible
Progress == (stat = "run" /\ Abs(hi - lo) > 2 * cfg.eps) => R2(cfg, j, Abs(hi - lo)) >= 0
=============================================================================
