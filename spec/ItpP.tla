--------------------------------- MODULE ItpP ---------------------------------
(***************************************************************************)
(* Design model of roots::itp as it stands in the tree (C07), over an      *)
(* abstract ordered field.  The interpolation and truncation steps depend  *)
(* on function values, which the model does not compute; they are          *)
(* abstracted to what the method guarantees about them: the trial point    *)
(* lies in the current (closed) bracket and, after the projection step,    *)
(* within the radius                                                       *)
(*        r_j = eps * 2^(n_half + 2 n_0 - j) - |b - a| / 2                 *)
(* of the midpoint (the code adds n_0 twice).  Any such point is admitted, *)
(* so the model over-approximates every interpolation the real code can    *)
(* make.  (The first version of this model said "strictly inside"; trace   *)
(* validation refuted it: when the bracket is a few ulps wide the regula   *)
(* falsi point rounds onto an end and the real itp() evaluates there       *)
(* again.  The width invariant behind the iteration bound does not need    *)
(* strictness: a point within r_j of the midpoint leaves a bracket of at   *)
(* most eps 2^(n_half + 2 n_0 - j), whichever end it replaces.)            *)
(* One action per function evaluation group of the code:                   *)
(*   Begin  - parameter checks, f(a), f(b), bracket test, ordering swap    *)
(*   Step   - one pass of the loop: one evaluation at an admitted point x, *)
(*            classified by the sign class of its value                    *)
(*   Finish - the bracket is at most 2 eps wide: midpoint returned         *)
(* Instantiated on a lattice (MC_ItpP, every admitted lattice point) and   *)
(* over IEEE doubles (Trace_Itp: every abscissa the real itp() evaluates   *)
(* must be an admitted point of the current design state).                 *)
(***************************************************************************)
EXTENDS Integers, Sequences, FiniteSets

CONSTANTS Plus(_, _), Minus(_, _), Lt(_, _), Le(_, _), AbsV(_), Dbl(_), TimesPow2(_, _), Zero,
          Slack(_, _)        \* rounding allowance of the radius test for a bracket (lo, hi); Zero on the lattice
(* Dbl(x) = 2 x;  TimesPow2(t, e) = t * 2^e  (e may be negative: then t / 2^-e, rounded down on the lattice) *)

VARIABLES pc, a0, b0, eps, n0, nhalf, lo, hi, j, nev, inside, result
vars == <<pc, a0, b0, eps, n0, nhalf, lo, hi, j, nev, inside, result>>
(* pc : "idle" | "run" | "ok" | "err";  lo : the end with the negative value, hi : the one with the positive value
   (lo > hi for decreasing functions, exactly as in the code after its swap);  j : passes of the loop so far *)

InInitial(x) == IF Le(a0, b0) THEN Le(a0, x) /\ Le(x, b0) ELSE Le(b0, x) /\ Le(x, a0)
Width == AbsV(Minus(hi, lo))

Init == /\ pc = "idle" /\ a0 = Zero /\ b0 = Zero /\ eps = Zero /\ n0 = 0 /\ nhalf = 0 /\ lo = Zero /\ hi = Zero
        /\ j = 0 /\ nev = 0 /\ inside = TRUE /\ result = Zero

\* itp((a, b), f, k_1, k_2, n_0, tol):  valid = the parameter checks pass;  bracket = the product of the two end values
\* has its sign bit set;  aIsLow = f(a) has its sign bit set;  nh = n_half = ceil(log2(|b - a| / (2 tol)))
Begin(a, b, t, nn0, nh, valid, bracket, aIsLow) ==
  /\ pc = "idle"
  /\ a0' = a /\ b0' = b /\ eps' = t /\ n0' = nn0 /\ nhalf' = nh /\ j' = 0 /\ inside' = TRUE /\ result' = result
  /\ IF ~valid THEN pc' = "err" /\ nev' = 0 /\ lo' = a /\ hi' = b
     ELSE /\ nev' = 2
          /\ IF ~bracket THEN pc' = "err" /\ lo' = a /\ hi' = b
             ELSE pc' = "run" /\ lo' = (IF aIsLow THEN a ELSE b) /\ hi' = (IF aIsLow THEN b ELSE a)

\* twice the projection radius (kept doubled: exact on the lattice)
R2(jj) == Minus(TimesPow2(Dbl(eps), nhalf + 2 * n0 - jj), Width)
Admitted(x) ==
  /\ IF Lt(lo, hi) THEN Le(lo, x) /\ Le(x, hi) ELSE Le(hi, x) /\ Le(x, lo)          \* in the closed bracket
  /\ Le(AbsV(Minus(Dbl(x), Plus(lo, hi))), Plus(R2(j), Slack(lo, hi)))              \* within the projection radius

\* one pass: the function is evaluated at x, whose value has sign class cls ("neg" | "zero" | "pos")
Step(x, cls) ==
  /\ pc = "run" /\ Lt(Dbl(eps), Width)
  /\ Admitted(x)
  /\ inside' = (inside /\ InInitial(x)) /\ nev' = nev + 1 /\ j' = j + 1
  /\ CASE cls = "zero" -> lo' = x /\ hi' = x
       [] cls = "pos" -> lo' = lo /\ hi' = x
       [] cls = "neg" -> lo' = x /\ hi' = hi
  /\ UNCHANGED <<pc, a0, b0, eps, n0, nhalf, result>>

Finish == /\ pc = "run" /\ ~Lt(Dbl(eps), Width)
          /\ pc' = "ok" /\ result' = Plus(lo, hi)                \* twice the returned midpoint
          /\ UNCHANGED <<a0, b0, eps, n0, nhalf, lo, hi, j, nev, inside>>
Done == pc \in {"ok", "err"} /\ UNCHANGED vars
=============================================================================
