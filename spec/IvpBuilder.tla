----------------------------- MODULE IvpBuilder -----------------------------
(***************************************************************************)
(* Contract of the IVP solver builders (C06).  A builder is a record of    *)
(* optional parameters; every builder call either returns the updated      *)
(* builder or consumes it and returns the dedicated error.                 *)
(*                                                                         *)
(* Two contracts: the adaptive builders (RungeKutta, Adams, BDF) and Euler *)
(* (no tolerance: with_tolerance is a documented no-op; one step size: the *)
(* running average of the values passed to with_maximum_dt/with_minimum_dt)*)
(*                                                                         *)
(* Values are numbers of the model's small scope (integers; the harness    *)
(* passes them as doubles).  Apply is a pure function so that the same     *)
(* text serves the model checker (MC_IvpBuilder: invariants over all call  *)
(* sequences) and the case generator (Gen_IvpBuilder: expected outcome of  *)
(* every call of every sequence, replayed on the seven real builders).     *)
(***************************************************************************)
EXTENDS Integers, Sequences

Unset == [set |-> FALSE, v |-> 0]
Val(x) == [set |-> TRUE, v |-> x]
Empty == [tol |-> Unset, min |-> Unset, max |-> Unset, t0 |-> Unset, t1 |-> Unset, ic |-> FALSE, f |-> FALSE]

Ok(b) == [ok |-> TRUE, err |-> "", b |-> b]
Err(e) == [ok |-> FALSE, err |-> e, b |-> Empty]

\* constructor: type-level dimension static (Const) or dynamic (Dyn) x new() / new_dyn(n)
New(static, ctor) ==
  IF ctor = "new" THEN (IF static THEN Ok(Empty) ELSE Err("StaticOnDynamic"))
  ELSE (IF static THEN Err("DynamicOnStatic") ELSE Ok(Empty))

(***************************************************************************)
(* Adaptive builders.                                                      *)
(***************************************************************************)
ApplyAdaptive(b, c) ==
  CASE c.call = "tol" -> IF c.v <= 0 THEN Err("ToleranceOOB") ELSE Ok([b EXCEPT !.tol = Val(c.v)])
    [] c.call = "max" -> IF c.v <= 0 THEN Err("TimeDeltaOOB")
                         ELSE Ok([b EXCEPT !.max = Val(c.v),
                                           !.min = IF b.min.set /\ b.min.v > c.v THEN Val(c.v) ELSE b.min])
    [] c.call = "min" -> IF c.v <= 0 THEN Err("TimeDeltaOOB")
                         ELSE Ok([b EXCEPT !.min = Val(c.v),
                                           !.max = IF b.max.set /\ b.max.v < c.v THEN Val(c.v) ELSE b.max])
    [] c.call = "t0" -> IF b.t1.set /\ b.t1.v <= c.v THEN Err("TimeStartOOB") ELSE Ok([b EXCEPT !.t0 = Val(c.v)])
    [] c.call = "t1" -> IF b.t0.set /\ b.t0.v >= c.v THEN Err("TimeEndOOB") ELSE Ok([b EXCEPT !.t1 = Val(c.v)])
    [] c.call = "ic" -> Ok([b EXCEPT !.ic = TRUE])
    [] c.call = "f" -> Ok([b EXCEPT !.f = TRUE])
CompleteAdaptive(b) == b.tol.set /\ b.min.set /\ b.max.set /\ b.t0.set /\ b.t1.set /\ b.ic /\ b.f

(***************************************************************************)
(* Euler: min/max both feed the single step (kept in .max; .min mirrors    *)
(* it), halves are exact because the scope uses even numbers where needed. *)
(* The step is tracked as a numerator over 2^k to stay in the integers:    *)
(* v = num / den.                                                          *)
(***************************************************************************)
EulerDt(b, v) == IF b.max.set THEN [num |-> b.max.v.num + v * b.max.v.den, den |-> 2 * b.max.v.den]
                 ELSE [num |-> v, den |-> 1]
ApplyEuler(b, c) ==
  CASE c.call = "tol" -> Ok(b)
    [] c.call \in {"max", "min"} ->
         IF c.v <= 0 THEN Err("TimeDeltaOOB")
         ELSE LET d == EulerDt(b, c.v) IN Ok([b EXCEPT !.max = Val(d), !.min = Val(d)])
    [] c.call = "t0" -> IF b.t1.set /\ b.t1.v <= c.v THEN Err("TimeStartOOB") ELSE Ok([b EXCEPT !.t0 = Val(c.v)])
    [] c.call = "t1" -> IF b.t0.set /\ b.t0.v >= c.v THEN Err("TimeEndOOB") ELSE Ok([b EXCEPT !.t1 = Val(c.v)])
    [] c.call = "ic" -> Ok([b EXCEPT !.ic = TRUE])
    [] c.call = "f" -> Ok([b EXCEPT !.f = TRUE])
CompleteEuler(b) == b.max.set /\ b.t0.set /\ b.t1.set /\ b.ic /\ b.f

Apply(euler, b, c) == IF euler THEN ApplyEuler(b, c) ELSE ApplyAdaptive(b, c)
Complete(euler, b) == IF euler THEN CompleteEuler(b) ELSE CompleteAdaptive(b)
Solve(euler, b) == IF Complete(euler, b) THEN Ok(b) ELSE Err("MissingParameters")

(***************************************************************************)
(* Run a whole call sequence: the list of per-call outcomes, ending at the *)
(* first error (the builder is consumed) or after solve.                   *)
(***************************************************************************)
RECURSIVE RunFrom(_, _, _, _)
RunFrom(euler, b, seq, k) ==
  IF k > Len(seq) THEN <<>>
  ELSE LET r == IF seq[k].call = "solve" THEN Solve(euler, b) ELSE Apply(euler, b, seq[k])
       IN IF r.ok /\ seq[k].call # "solve" THEN <<r>> \o RunFrom(euler, r.b, seq, k + 1) ELSE <<r>>

(***************************************************************************)
(* The property's sentences as predicates on a builder state.              *)
(***************************************************************************)
MinLeMax(b) == (b.min.set /\ b.max.set) => b.min.v <= b.max.v        \* adaptive contract
TimesOrdered(b) == (b.t0.set /\ b.t1.set) => b.t0.v < b.t1.v
Positive(b) == (b.tol.set => b.tol.v > 0) /\ (b.min.set => b.min.v > 0) /\ (b.max.set => b.max.v > 0)
=============================================================================
