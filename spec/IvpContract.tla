---------------------------- MODULE IvpContract ----------------------------
(***************************************************************************)
(* The observable contract of an IVP solution iterator (C01, C06-fault).   *)
(* It is the weakest transition system over the iterator's observable      *)
(* events -- item, error item, None -- all of whose behaviours satisfy the  *)
(* property statements.  It is field-parametric: the arithmetic on times   *)
(* is given by operator constants, so the same text is model-checked over  *)
(* integer ticks (refinement target of IvpProtocol, E1) and used with IEEE *)
(* doubles to validate recorded traces (E3).                               *)
(*                                                                         *)
(* A run's configuration is a record                                       *)
(*   [kind : {"euler","adaptive"}, t0, t1, dtmax, dt (euler step)]         *)
(* and its state [stat : {"run","done","failed"}, last, n].                *)
(*                                                                         *)
(* Every operator XBad returns the set of violated conjunct names, so a    *)
(* trace validator can report *which* sentence of the property fails; the  *)
(* guarded actions (used by E1) require that set to be empty.              *)
(***************************************************************************)
EXTENDS Integers, Sequences

CONSTANTS Plus(_, _), Minus(_, _), Lt(_, _), Le(_, _),
          GapOk(_, _, _)     \* GapOk(t, last, dtmax): t - last <= dtmax (with rounding slack over F64)

CInit(cfg) == [stat |-> "run", last |-> cfg.t0, n |-> 0]

\* ---- an item (t, y) is yielded --------------------------------------------------------------
YieldBad(cfg, s, t) ==
  (IF s.stat # "run" THEN {"no_item_after_end_or_error"} ELSE {})
  \cup (IF cfg.kind = "euler" /\ s.n = 0
          THEN (IF t # cfg.t0 THEN {"euler_yields_initial_state_first"} ELSE {})
          ELSE (IF ~Lt(s.last, t) THEN {"times_strictly_increasing"} ELSE {}))
  \cup (IF ~(Le(cfg.t0, t) /\ Le(t, cfg.t1)) THEN {"inside_interval"} ELSE {})
  \cup (IF ~GapOk(t, s.last, cfg.dtmax) THEN {"gap_le_max_step"} ELSE {})
  \cup (IF cfg.kind = "euler" /\ s.n > 0 /\ t # Plus(s.last, cfg.dt) THEN {"euler_one_point_per_step"} ELSE {})
  \cup (IF cfg.kind = "euler" /\ ~Lt(t, cfg.t1) THEN {"euler_points_strictly_before_end"} ELSE {})
YieldNext(s, t) == [s EXCEPT !.last = t, !.n = s.n + 1]

\* ---- the iterator returns None --------------------------------------------------------------
NoneBad(cfg, s) ==
  IF s.stat # "run" THEN {}
  ELSE IF cfg.kind = "adaptive"
    THEN (IF s.n = 0 \/ s.last # cfg.t1 THEN {"ends_exactly_at_end_time"} ELSE {})
    ELSE (IF s.n = 0 THEN {"euler_yields_initial_state_first"} ELSE {})
         \cup (IF s.n > 0 /\ Lt(Plus(s.last, cfg.dt), cfg.t1) THEN {"euler_point_for_every_step_before_end"} ELSE {})
NoneNext(s) == IF s.stat = "run" THEN [s EXCEPT !.stat = "done"] ELSE s

\* ---- the iterator returns Some(Err(e)) ------------------------------------------------------
ErrBad(cfg, s) == IF s.stat # "run" THEN {"at_most_one_error_then_nothing"} ELSE {}
ErrNext(s) == [s EXCEPT !.stat = "failed"]

(***************************************************************************)
(* The property's sentences as state predicates over a whole path (a       *)
(* sequence of yielded times); used by E1 as invariants on the design's    *)
(* history variable, independently of the incremental operators above.     *)
(***************************************************************************)
Ordered(p) == \A i \in 1..(Len(p) - 1) : Lt(p[i], p[i + 1])
InInterval(cfg, p) == \A i \in 1..Len(p) : Le(cfg.t0, p[i]) /\ Le(p[i], cfg.t1)
GapBounded(cfg, p) == /\ Len(p) > 0 => GapOk(p[1], cfg.t0, cfg.dtmax)
                      /\ \A i \in 1..(Len(p) - 1) : GapOk(p[i + 1], p[i], cfg.dtmax)
EndExact(cfg, p) == Len(p) > 0 /\ p[Len(p)] = cfg.t1
EulerGrid(cfg, p) == /\ Len(p) > 0 /\ p[1] = cfg.t0
                     /\ \A i \in 1..(Len(p) - 1) : p[i + 1] = Plus(p[i], cfg.dt)
                     /\ Lt(p[Len(p)], cfg.t1) /\ ~Lt(Plus(p[Len(p)], cfg.dt), cfg.t1)
=============================================================================
