----------------------------- MODULE IvpMethods -----------------------------
(***************************************************************************)
(* The numerical methods the IVP solvers advertise, transcribed from the   *)
(* literature as executable TLA+ over IEEE doubles (module F64), together  *)
(* with the right-hand-side families the harness uses and, where they      *)
(* exist, their closed-form flows.  This module is the oracle of C02, C03  *)
(* and C04; nothing in it comes from the Rust code.                        *)
(*                                                                         *)
(* Sources: Fehlberg 1969 (RKF45, formula 2), Bogacki & Shampine 1989,     *)
(* Hairer-Norsett-Wanner I (Adams-Bashforth/Moulton III.1, BDF III.1),     *)
(* Burden & Faires ch. 5 (RK4, predictor-corrector error estimate).        *)
(*                                                                         *)
(* States are real vectors: sequences of F64.  Constants are rationals     *)
(* <<n, d>> so that they can be read against the literature.               *)
(***************************************************************************)
EXTENDS Integers, Sequences, F64

Q(r) == FOfRat(r[1], r[2])
Re(y) == [j \in 1..Len(y) |-> y[j][1]]          \* recorded states are complex pairs
ImZero(y) == \A j \in 1..Len(y) : FEq(y[j][2], F0)

(***************************************************************************)
(* Right-hand sides.  A block system is a sequence of blocks               *)
(* [k |-> kind, p |-> parameters]; "rot" blocks take two components.       *)
(***************************************************************************)
Width(b) == IF b.k = "rot" THEN 2 ELSE 1
RECURSIVE PolyT(_, _, _)
PolyT(p, t, j) == IF j > Len(p) THEN F0 ELSE FAdd(p[j], FMul(t, PolyT(p, t, j + 1)))

BlockF(b, t, y, o) ==
  CASE b.k = "zero" -> <<F0>>
    [] b.k = "lin" -> <<FAdd(FMul(b.p[1], y[o]), b.p[2])>>
    [] b.k = "rot" -> <<FSub(FMul(b.p[1], y[o]), FMul(b.p[2], y[o + 1])),
                        FAdd(FMul(b.p[2], y[o]), FMul(b.p[1], y[o + 1]))>>
    [] b.k = "tv" -> <<FMul(y[o], FAdd(b.p[1], FMul(b.p[2], t)))>>
    [] b.k = "logistic" -> <<FMul(FMul(b.p[1], y[o]), FSub(F1, FDiv(y[o], b.p[2])))>>
    [] b.k = "recip" -> <<FNeg(FMul(b.p[1], FMul(y[o], y[o])))>>
    [] b.k = "forcing" -> <<FMul(b.p[1], FCos(FAdd(FMul(b.p[2], t), b.p[3])))>>
    [] b.k = "relax" -> <<FNeg(FMul(b.p[1], FSub(y[o], b.p[2])))>>
    [] b.k = "poly" -> <<PolyT(b.p, t, 1)>>

RECURSIVE BlocksF(_, _, _, _, _)
BlocksF(bs, j, t, y, o) ==
  IF j > Len(bs) THEN <<>> ELSE BlockF(bs[j], t, y, o) \o BlocksF(bs, j + 1, t, y, o + Width(bs[j]))

\* generic coupled family (C03): f_i = sum_j A_ij y_j + beta_i y_i y_{i+1} + gamma_i t y_i
\*                                      + delta_i sin(omega_i t) + eps_i t^2 + eta_i exp(kappa_i (t - tc_i))
\* (the last term is a forcing that switches on sharply near tc; eta = 0 when absent)
GenericF(r, t, y) ==
  LET d == Len(y) IN
  [i \in 1..d |->
     FAdd(FAdd(FAdd(FAdd(FSum([j \in 1..d |-> FMul(r.a[i][j], y[j])]),
                         FMul(r.beta[i], FMul(y[i], y[(i % d) + 1]))),
                    FMul(FMul(r.gamma[i], t), y[i])),
               FAdd(FMul(r.delta[i], FSin(FMul(r.omega[i], t))), FMul(r.eps[i], FMul(t, t)))),
          IF FEq(r.eta[i], F0) THEN F0 ELSE FMul(r.eta[i], FExp(FMul(r.kappa[i], FSub(t, r.tc[i])))))]

Rhs(r, t, y) == IF r.fam = "generic" THEN GenericF(r, t, y) ELSE BlocksF(r.blocks, 1, t, y, 1)

(***************************************************************************)
(* Closed-form flows of the block systems: Flow(r, t0, y0, t1) is the      *)
(* exact solution at t1 of the problem restarted from (t0, y0).            *)
(***************************************************************************)
RECURSIVE AntiPolyT(_, _, _)
\* integral of sum c_j t^(j-1) from 0 to t:  sum c_j t^j / j
AntiPolyT(p, t, j) == IF j > Len(p) THEN F0
                      ELSE FMul(t, FAdd(FDiv(p[j], FOfInt(j)), AntiPolyT(p, t, j + 1)))
\* (AntiPolyT uses Horner on t * (c_1/1 + t * (c_2/2 + ...)))
BlockFlow(b, t0, y, o, t1) ==
  LET D == FSub(t1, t0) IN
  CASE b.k = "zero" -> <<y[o]>>
    [] b.k = "lin" -> LET lam == b.p[1] c == FDiv(b.p[2], b.p[1])
                      IN <<FSub(FMul(FAdd(y[o], c), FExp(FMul(lam, D))), c)>>
    [] b.k = "rot" -> LET g == FExp(FMul(b.p[1], D)) co == FCos(FMul(b.p[2], D)) si == FSin(FMul(b.p[2], D))
                      IN <<FMul(g, FSub(FMul(co, y[o]), FMul(si, y[o + 1]))),
                           FMul(g, FAdd(FMul(si, y[o]), FMul(co, y[o + 1])))>>
    [] b.k = "tv" -> <<FMul(y[o], FExp(FAdd(FMul(b.p[1], D),
                          FMul(FMul(b.p[2], FHalf), FSub(FMul(t1, t1), FMul(t0, t0))))))>>
    [] b.k = "logistic" -> LET K == b.p[2]
                           IN <<FDiv(K, FAdd(F1, FMul(FSub(FDiv(K, y[o]), F1), FExp(FNeg(FMul(b.p[1], D))))))>>
    [] b.k = "recip" -> <<FDiv(y[o], FAdd(F1, FMul(FMul(b.p[1], y[o]), D)))>>
    [] b.k = "forcing" -> <<FAdd(y[o], FMul(FDiv(b.p[1], b.p[2]),
                               FSub(FSin(FAdd(FMul(b.p[2], t1), b.p[3])), FSin(FAdd(FMul(b.p[2], t0), b.p[3])))))>>
    [] b.k = "relax" -> <<FAdd(b.p[2], FMul(FSub(y[o], b.p[2]), FExp(FNeg(FMul(b.p[1], D)))))>>
    [] b.k = "poly" -> <<FAdd(y[o], FSub(AntiPolyT(b.p, t1, 1), AntiPolyT(b.p, t0, 1)))>>
RECURSIVE BlocksFlow(_, _, _, _, _, _)
BlocksFlow(bs, j, t0, y, o, t1) ==
  IF j > Len(bs) THEN <<>>
  ELSE BlockFlow(bs[j], t0, y, o, t1) \o BlocksFlow(bs, j + 1, t0, y, o + Width(bs[j]), t1)
Flow(r, t0, y0, t1) == BlocksFlow(r.blocks, 1, t0, y0, 1, t1)

(***************************************************************************)
(* Explicit Runge-Kutta methods.  A tableau is [c, a, b, bs] with a[i] the *)
(* i-th row (length i-1), b the propagated weights, bs the embedded ones.  *)
(***************************************************************************)
Fehlberg45 == [
  c |-> << <<0,1>>, <<1,4>>, <<3,8>>, <<12,13>>, <<1,1>>, <<1,2>> >>,
  a |-> << <<>>,
           << <<1,4>> >>,
           << <<3,32>>, <<9,32>> >>,
           << <<1932,2197>>, <<-7200,2197>>, <<7296,2197>> >>,
           << <<439,216>>, <<-8,1>>, <<3680,513>>, <<-845,4104>> >>,
           << <<-8,27>>, <<2,1>>, <<-3544,2565>>, <<1859,4104>>, <<-11,40>> >> >>,
  b  |-> << <<25,216>>, <<0,1>>, <<1408,2565>>, <<2197,4104>>, <<-1,5>>, <<0,1>> >>,        \* order 4, propagated
  bs |-> << <<16,135>>, <<0,1>>, <<6656,12825>>, <<28561,56430>>, <<-9,50>>, <<2,55>> >>,   \* order 5
  p |-> 4, ps |-> 5 ]

BogackiShampine32 == [
  c |-> << <<0,1>>, <<1,2>>, <<3,4>>, <<1,1>> >>,
  a |-> << <<>>,
           << <<1,2>> >>,
           << <<0,1>>, <<3,4>> >>,
           << <<2,9>>, <<1,3>>, <<4,9>> >> >>,
  b  |-> << <<2,9>>, <<1,3>>, <<4,9>>, <<0,1>> >>,          \* order 3, propagated
  bs |-> << <<7,24>>, <<1,4>>, <<1,3>>, <<1,8>> >>,          \* order 2
  p |-> 3, ps |-> 2 ]

ClassicRK4 == [
  c |-> << <<0,1>>, <<1,2>>, <<1,2>>, <<1,1>> >>,
  a |-> << <<>>, << <<1,2>> >>, << <<0,1>>, <<1,2>> >>, << <<0,1>>, <<0,1>>, <<1,1>> >> >>,
  b |-> << <<1,6>>, <<1,3>>, <<1,3>>, <<1,6>> >>,
  bs |-> << <<1,6>>, <<1,3>>, <<1,3>>, <<1,6>> >>,
  p |-> 4, ps |-> 4 ]

\* weighted sum  y + sum_{j<=m} w[j] * ks[j]   (w rationals)
RECURSIVE WSum(_, _, _, _)
WSum(y, w, ks, m) == IF m = 0 THEN y ELSE VAxpy(Q(w[m]), ks[m], WSum(y, w, ks, m - 1))

\* stages k_i = h * f(t + c_i h, y + sum_j a_ij k_j), built left to right
RECURSIVE Stages(_, _, _, _, _, _)
Stages(tab, r, t, y, h, i) ==
  IF i = 0 THEN <<>>
  ELSE Bind(Stages(tab, r, t, y, h, i - 1),
            LAMBDA ks : Append(ks, VScale(h, Rhs(r, FAdd(t, FMul(Q(tab.c[i]), h)), WSum(y, tab.a[i], ks, i - 1)))))

ZeroV(n) == [j \in 1..n |-> F0]
\* one step: [y |-> propagated solution, est |-> |embedded difference| / h]
RkStep(tab, r, t, y, h) ==
  LET s == Len(tab.c) IN
  Bind(Stages(tab, r, t, y, h, s),
       LAMBDA ks : [y |-> WSum(y, tab.b, ks, s),
                    est |-> FDiv(FNorm2(WSum(ZeroV(Len(y)), [j \in 1..s |-> <<1, 1>>],
                                             [j \in 1..s |-> VScale(FSub(Q(tab.bs[j]), Q(tab.b[j])), ks[j])], s)),
                                 FAbs(h))])

Rk4(r, t, y, h) == RkStep(ClassicRK4, r, t, y, h).y
EulerStep(r, t, y, h) == VAxpy(h, Rhs(r, t, y), y)

(***************************************************************************)
(* Adams-Bashforth / Adams-Moulton pairs (newest derivative first) and the *)
(* predictor-corrector error estimate 19/270 |corrector - predictor| / h.  *)
(*   "adams5": AB4 predictor, AM4 (5th order, 4-step) corrector            *)
(*   "adams3": AB2 predictor, AM2 (3rd order, 2-step) corrector            *)
(***************************************************************************)
AB4 == << <<55,24>>, <<-59,24>>, <<37,24>>, <<-9,24>> >>
AM4 == << <<251,720>>, <<646,720>>, <<-264,720>>, <<106,720>>, <<-19,720>> >>     \* first = implicit
AB2 == << <<3,2>>, <<-1,2>> >>
AM2 == << <<5,12>>, <<8,12>>, <<-1,12>> >>
MilneC == <<19, 270>>
AdamsPred(solver) == IF solver = "adams5" THEN AB4 ELSE AB2
AdamsCorr(solver) == IF solver = "adams5" THEN AM4 ELSE AM2
AdamsSteps(solver) == IF solver = "adams5" THEN 4 ELSE 2

\* dh: derivative history, oldest first, length = number of steps; newest derivative = dh[Len(dh)]
AbPredict(w, y, h, dh) ==
  LET m == Len(dh) IN VAxpy(h, WSum(ZeroV(Len(y)), w, [j \in 1..m |-> dh[m + 1 - j]], m), y)
AmCorrect(w, y, h, fnew, dh) ==
  LET m == Len(dh)
      acc == WSum(VScale(Q(w[1]), fnew), [j \in 1..m |-> w[j + 1]], [j \in 1..m |-> dh[m + 1 - j]], m)
  IN VAxpy(h, acc, y)
\* PEC step: [pred, fpred, corr, est]
AdamsPc(solver, r, t, y, h, dh) ==
  Bind(AbPredict(AdamsPred(solver), y, h, dh), LAMBDA pred :
    Bind(Rhs(r, FAdd(t, h), pred), LAMBDA fp :
      Bind(AmCorrect(AdamsCorr(solver), y, h, fp, dh), LAMBDA corr :
        [pred |-> pred, fpred |-> fp, corr |-> corr,
         est |-> FMul(FDiv(Q(MilneC), FAbs(h)), FNorm2(VSub(corr, pred)))])))

(***************************************************************************)
(* BDF formulas  y_{n+1} = sum_j alpha_j y_{n+1-j} + h beta f(t_{n+1}, y_{n+1}).  *)
(***************************************************************************)
BDF6 == [beta |-> <<60,147>>, alpha |-> << <<360,147>>, <<-450,147>>, <<400,147>>, <<-225,147>>, <<72,147>>, <<-10,147>> >>]
BDF5 == [beta |-> <<60,137>>, alpha |-> << <<300,137>>, <<-300,137>>, <<200,137>>, <<-75,137>>, <<12,137>> >>]
BDF2 == [beta |-> <<2,3>>, alpha |-> << <<4,3>>, <<-1,3>> >>]
BDF1 == [beta |-> <<1,1>>, alpha |-> << <<1,1>> >>]
BdfOf(solver) == IF solver = "bdf6" THEN BDF6 ELSE BDF2
BdfLowOf(solver) == IF solver = "bdf6" THEN BDF5 ELSE BDF1
\* residual of the implicit formula at the new point; ys: previous points, newest first
BdfResidual(f, r, tnew, ynew, h, ys) ==
  LET m == Len(f.alpha)
      hist == WSum(ZeroV(Len(ynew)), f.alpha, ys, m)
  IN FNorm2(VSub(VSub(ynew, hist), VScale(FMul(h, Q(f.beta)), Rhs(r, tnew, ynew))))

(***************************************************************************)
(* Self-checks of the constants (ASSUMEd by the validators and by          *)
(* MC_IvpMethods): order conditions, consistency.  They protect the        *)
(* reference against typos so that it cannot raise a false alarm.          *)
(***************************************************************************)
RECURSIVE SumQ(_, _)
SumQ(w, m) == IF m = 0 THEN F0 ELSE FAdd(SumQ(w, m - 1), Q(w[m]))
Tiny == FScale(1, -46)
IsOne(x) == FNear(x, F1, Tiny)
RowSumOk(tab) == \A i \in 1..Len(tab.c) : FNear(SumQ(tab.a[i], Len(tab.a[i])), Q(tab.c[i]), Tiny)
\* sum_i b_i c_i^(q-1) = 1/q   for q = 1..order
Quadrature(tab, w, ord) ==
  \A q \in 1..ord :
    FNear(FSum([i \in 1..Len(w) |-> FMul(Q(w[i]), FPowI(Q(tab.c[i]), q - 1))]), FOfRat(1, q), Tiny)
\* sum_ij b_i a_ij c_j = 1/6 (order 3 tree), sum b_i c_i a_ij c_j = 1/8, sum b_i a_ij c_j^2 = 1/12 (order 4)
Tree3(tab, w) ==
  FNear(FSum([i \in 1..Len(w) |-> FMul(Q(w[i]), FSum([j \in 1..Len(tab.a[i]) |-> FMul(Q(tab.a[i][j]), Q(tab.c[j]))]))]),
        FOfRat(1, 6), Tiny)
Tree4a(tab, w) ==
  FNear(FSum([i \in 1..Len(w) |-> FMul(FMul(Q(w[i]), Q(tab.c[i])),
                                      FSum([j \in 1..Len(tab.a[i]) |-> FMul(Q(tab.a[i][j]), Q(tab.c[j]))]))]),
        FOfRat(1, 8), Tiny)
Tree4b(tab, w) ==
  FNear(FSum([i \in 1..Len(w) |-> FMul(Q(w[i]),
                                      FSum([j \in 1..Len(tab.a[i]) |-> FMul(Q(tab.a[i][j]), FMul(Q(tab.c[j]), Q(tab.c[j])))]))]),
        FOfRat(1, 12), Tiny)
RkOk(tab) ==
  /\ RowSumOk(tab)
  /\ Quadrature(tab, tab.b, tab.p) /\ Quadrature(tab, tab.bs, tab.ps)
  /\ (tab.p >= 3 => Tree3(tab, tab.b)) /\ (tab.ps >= 3 => Tree3(tab, tab.bs))
  /\ (tab.p >= 4 => Tree4a(tab, tab.b) /\ Tree4b(tab, tab.b))
  /\ (tab.ps >= 4 => Tree4a(tab, tab.bs) /\ Tree4b(tab, tab.bs))
\* Adams: weights integrate monomials exactly: sum_j w_j (-(j-1))^q = 1/(q+1) for the predictor
\* (nodes 0,-1,-2,...), corrector nodes 1,0,-1,...
AbOk(w) == \A q \in 0..(Len(w) - 1) :
  FNear(FSum([j \in 1..Len(w) |-> FMul(Q(w[j]), IF q = 0 THEN F1 ELSE FPowI(FOfInt(1 - j), q))]), FOfRat(1, q + 1), Tiny)
AmOk(w) == \A q \in 0..(Len(w) - 1) :
  FNear(FSum([j \in 1..Len(w) |-> FMul(Q(w[j]), IF q = 0 THEN F1 ELSE FPowI(FOfInt(2 - j), q))]), FOfRat(1, q + 1), Tiny)
\* BDF of order m is exact on y = t^q, q = 0..m, at nodes t_{n+1} = 0, previous -1,-2,... with h = 1:
\*   0^q = sum_j alpha_j (-j)^q + beta * q * 0^(q-1)
BdfOk(f) == \A q \in 0..Len(f.alpha) :
  FNear(FAdd(FSum([j \in 1..Len(f.alpha) |-> FMul(Q(f.alpha[j]), IF q = 0 THEN F1 ELSE FPowI(FOfInt(-j), q))]),
             IF q = 1 THEN Q(f.beta) ELSE F0),
        IF q = 0 THEN F1 ELSE F0, FScale(1, -36))
MethodsSelfCheck ==
  /\ RkOk(Fehlberg45) /\ RkOk(BogackiShampine32) /\ RkOk(ClassicRK4)
  /\ AbOk(AB4) /\ AbOk(AB2) /\ AmOk(AM4) /\ AmOk(AM2)
  /\ BdfOk(BDF6) /\ BdfOk(BDF5) /\ BdfOk(BDF2) /\ BdfOk(BDF1)
=============================================================================
