---------------------------- MODULE IvpProtocol ----------------------------
(***************************************************************************)
(* Design-level model of the IVP steppers of aftix/bacon: one action per   *)
(* branch of step() in src/ivp.rs (Euler), src/ivp/rk.rs, src/ivp/adams.rs *)
(* and src/ivp/bdf.rs, plus the Redo/Done/Failure protocol of              *)
(* IVPIterator::next.  It follows the code after the "fix:" commits        *)
(* (hand-over of start-up points when the interval ends first, start-up    *)
(* shortening that leaves room for the final clipped step); the boolean    *)
(* constants in Defects re-create the pinned tree's behaviour and must     *)
(* each produce a TLC counterexample (MC_IvpProtocol_defect*.cfg).         *)
(*                                                                         *)
(* Field-parametric: times/steps are manipulated only through the operator *)
(* constants, instantiated with integer ticks for exhaustive checking (E1) *)
(* and with IEEE doubles when step() snapshots of real runs are validated  *)
(* against it (E3, Trace_IvpProtocol).                                     *)
(*                                                                         *)
(* The numerics are abstracted: whether the error estimate accepts a trial *)
(* step and what the controller proposes next are parameters (verdict,     *)
(* dt2) constrained by the clamps the code applies.                        *)
(***************************************************************************)
EXTENDS Integers, Sequences

CONSTANTS Plus(_, _), Minus(_, _), Mul(_, _), DivN(_, _), Lt(_, _), Le(_, _),
          KeepHistory,            \* TRUE: `out` records the yielded times (E1); FALSE: not (long recorded traces)
          LtC(_, _), LeC(_, _),   \* comparisons used by the controller clamps only (exact over ticks; with a
                                  \* relative slack over doubles, where the clamps hold up to rounding)
          Defects,     \* subset of {"ClipBeforeHandOver","ShortenToEnd","ShortenRoundsUp"}
          Frac(_, _, _),          \* Frac(n, d, x) = x * n / d  (stage times; rounded down over ticks)
          StagesOf(_)             \* the stage fractions <<n, d>> of the Runge-Kutta pair of a configuration

(* cfg is the run's configuration, never changed by a step:
     kind  "euler" | "rk" | "adams" | "bdf"
     h     number of RK4 start-up steps of a multistep solver (adams: O-1, bdf: O)
     t0, t1, dtmin, dtmax
     dt0   initial trial step ((dtmin+dtmax)/2; Euler: its step)
   It is a variable rather than a CONSTANT so that TLC's initial-state set sweeps the
   configuration space in one run. *)
VARIABLES cfg, time, dt, phase, k, hist, saveTime, noSent, stat, obs, out
vars == <<cfg, time, dt, phase, k, hist, saveTime, noSent, stat, obs, out>>
Kind == cfg.kind
H == cfg.h
T0 == cfg.t0
T1 == cfg.t1
DtMin == cfg.dtmin
DtMax == cfg.dtmax
Dt0 == cfg.dt0

(* phase: "plain"  yield_memory = 0
          "spec"   start-up taken, not yet confirmed by a multistep step  (adams: ym = O, bdf: ym = O+1)
          "hand"   handing the k remaining start-up points to the iterator (ym = k)
          "sent"   sentinel: the confirming multistep point is still to be yielded (adams O+1, bdf O+2)
   hist:  the times stored in prev_values (equally spaced when used)
   obs:   what this step() call made the iterator do: <<"item", t>> | <<"redo">> | <<"none">> | <<"err", e>> *)

Init(c) ==
  /\ cfg = c
  /\ time = c.t0 /\ dt = c.dt0 /\ phase = "plain" /\ k = 0 /\ hist = <<>> /\ saveTime = c.t0
  /\ noSent = FALSE /\ stat = "run" /\ obs = <<"init">> /\ out = <<>>

Yield(t) == obs' = <<"item", t>> /\ out' = IF KeepHistory THEN Append(out, t) ELSE out
\* t + d + d + ... (i times): the start-up advances the time by repeated addition, which over doubles is
\* not t + i*d
RECURSIVE RepAdd(_, _, _)
RepAdd(t, d, i) == IF i = 0 THEN t ELSE Plus(RepAdd(t, d, i - 1), d)
Silent == obs' = <<"redo">> /\ UNCHANGED out
Min(a, b) == IF Le(a, b) THEN a ELSE b

(***************************************************************************)
(* Controller clamps (predicates on the proposed next step dt2).           *)
(***************************************************************************)
\* rk: dt2 = clamp(q*dt) with q in [0.1, 4], then min with DtMax; accept has q >= 0.84, reject q < 0.84
RkNextOk(d, dt2, accept) ==
  /\ LeC(dt2, DtMax) /\ LeC(dt2, Mul(4, d)) /\ LeC(d, Mul(10, dt2))
  /\ accept => LeC(Mul(84, d), Mul(100, dt2))
  /\ ~accept => LtC(Mul(100, dt2), Mul(84, d))
\* adams: growth q in (1, 4] capped by DtMax (dt2 = dt possible when already at DtMax); shrink q in [0.1, 1)
\* bdf:   growth *2 capped, shrink /2
GrowOk(d, dt2) ==
  IF Kind = "bdf" THEN dt2 = Min(Mul(2, d), DtMax)
  ELSE LeC(d, dt2) /\ LeC(dt2, Mul(4, d)) /\ LeC(dt2, DtMax) /\ (dt2 = d => d = DtMax)
ShrinkOk(d, dt2) ==
  IF Kind = "bdf" THEN dt2 = DivN(d, 2)
  ELSE LtC(dt2, d) /\ LeC(d, Mul(10, dt2))

(***************************************************************************)
(* Euler.  Yields the *old* point, then advances.                          *)
(***************************************************************************)
EulerDone == Kind = "euler" /\ ~Lt(time, T1) /\ obs' = <<"none">>
             /\ UNCHANGED <<time, dt, phase, k, hist, saveTime, noSent, stat, out>>
EulerStep ==
  /\ Kind = "euler" /\ Lt(time, T1)
  /\ LET clip == ~Lt(Plus(time, dt), T1)
         d == IF clip THEN Minus(T1, time) ELSE dt
     IN dt' = d /\ time' = (IF clip THEN T1 ELSE Plus(time, d))       \* the clipped step lands on the end: see RkTrial
  /\ Yield(time)
  /\ UNCHANGED <<phase, k, hist, saveTime, noSent, stat>>

(***************************************************************************)
(* Runge-Kutta (embedded pair).                                            *)
(***************************************************************************)
RkDone == Kind = "rk" /\ ~Lt(time, T1) /\ obs' = <<"none">>
          /\ UNCHANGED <<time, dt, phase, k, hist, saveTime, noSent, stat, out>>
RkTrial(accept, dt2) ==
  /\ Kind = "rk" /\ Lt(time, T1)
  /\ LET clip == ~Lt(Plus(time, dt), T1)
         d == IF clip THEN Minus(T1, time) ELSE dt
         \* an accepted clipped step lands on the end itself: over the doubles time + (end - time) need not round
         \* to end (the code assigns `time = end`, fix b69bf57); over the integers the two are the same
         t2 == IF accept THEN (IF clip THEN T1 ELSE Plus(time, d)) ELSE time
     IN /\ RkNextOk(d, dt2, accept)
        /\ time' = t2 /\ dt' = dt2
        /\ IF Lt(dt2, DtMin) /\ Lt(t2, T1)
             THEN stat' = "failed" /\ obs' = <<"err", "MinimumTimeDeltaExceeded">> /\ UNCHANGED out
             ELSE /\ UNCHANGED stat
                  /\ IF accept THEN Yield(t2) ELSE Silent
  /\ UNCHANGED <<phase, k, hist, saveTime, noSent>>

(***************************************************************************)
(* Multistep (Adams predictor-corrector, BDF): RK4 start-up of H steps,    *)
(* confirmation by one multistep step, hand-over, sentinel.                *)
(***************************************************************************)
MS == Kind \in {"adams", "bdf"}
UnchangedCore == UNCHANGED <<time, dt, hist, saveTime, stat>>

\* branch A of step(): hand over prev_values[H-k]  (oldest first)
HandOver ==
  /\ MS /\ phase = "hand" /\ k > 0
  /\ Yield(hist[H - k + 1])
  /\ k' = k - 1
  /\ IF k = 1
       THEN IF noSent THEN phase' = "plain" /\ noSent' = FALSE /\ hist' = <<>>
                      ELSE phase' = "sent" /\ UNCHANGED <<noSent, hist>>
       ELSE UNCHANGED <<phase, noSent, hist>>
  /\ UNCHANGED <<time, dt, saveTime, stat>>

\* branch B: yield the confirming multistep point and shift the history
Sentinel ==
  /\ MS /\ phase = "sent"
  /\ Yield(time)
  /\ hist' = Tail(hist) \o <<time>>
  /\ phase' = "plain"
  /\ UNCHANGED <<time, dt, k, saveTime, noSent, stat>>

\* repaired design: the start-up reached (or is within one step of) the end before a multistep
\* step could confirm it: hand the points over unconfirmed, no sentinel afterwards
CommitAtEnd ==
  /\ MS /\ phase = "spec" /\ "ClipBeforeHandOver" \notin Defects
  /\ ~Lt(Plus(time, dt), T1)
  /\ phase' = "hand" /\ k' = H /\ noSent' = TRUE
  /\ Silent /\ UnchangedCore

ClipPhases == IF "ClipBeforeHandOver" \in Defects THEN {"plain", "spec"} ELSE {"plain"}

\* branch C
MsDone ==
  /\ MS /\ phase \in ClipPhases /\ ~Lt(time, T1)
  /\ obs' = <<"none">>
  /\ UNCHANGED <<time, dt, phase, k, hist, saveTime, noSent, stat, out>>

\* branch D: single RK4 step of length end - time, yielded unverified
FinalClip ==
  /\ MS /\ phase \in ClipPhases /\ Lt(time, T1) /\ ~Lt(Plus(time, dt), T1)
  /\ dt' = Minus(T1, time)
  /\ time' = T1                      \* not Plus(time, dt'): see RkTrial
  /\ Yield(time')
  /\ hist' = Append(hist, time')
  /\ UNCHANGED <<phase, k, saveTime, noSent, stat>>

\* branch E: RK4 start-up, shortened when H steps of dt do not fit before the end
\* (the full step is used only when H + 1 steps fit: the H steps advance the time by repeated addition, which over the
\* doubles can end an ulp beyond time + H dt - fix a41fd27; over the ticks this only shortens a little earlier)
StartUpStep ==
  IF Lt(Plus(time, Mul(H + 1, dt)), T1) THEN dt
  ELSE IF "ShortenToEnd" \in Defects THEN DivN(Minus(T1, time), H)
  ELSE IF "ShortenRoundsUp" \in Defects THEN Plus(DivN(Minus(T1, time), H), 1)
  ELSE DivN(Minus(T1, time), H + 1)
StartUp ==
  /\ MS /\ phase = "plain" /\ hist = <<>> /\ Lt(time, T1) /\ Lt(Plus(time, dt), T1)
  /\ LET d == StartUpStep
     IN /\ dt' = d
        /\ hist' = [i \in 1..H |-> RepAdd(time, d, i)]
        /\ time' = RepAdd(time, d, H)
  /\ saveTime' = time
  /\ phase' = "spec"
  /\ Silent /\ UNCHANGED <<k, noSent, stat>>

\* branch F: one predictor-corrector / implicit step from `time` with the equally spaced history
PcTrial(accept, grow, dt2) ==
  /\ MS /\ phase \in {"plain", "spec"} /\ hist # <<>>
  /\ Lt(time, T1) /\ Lt(Plus(time, dt), T1)
  /\ IF accept
       THEN IF phase = "spec"
              THEN \* first confirmation: keep the point in (time, state), start the hand-over
                   /\ time' = Plus(time, dt) /\ phase' = "hand" /\ k' = H
                   /\ Silent /\ UNCHANGED <<dt, hist, saveTime, noSent, stat>>
              ELSE /\ time' = Plus(time, dt)
                   /\ Yield(time')
                   /\ IF grow
                        THEN GrowOk(dt, dt2) /\ dt' = dt2 /\ hist' = <<>>
                        ELSE dt' = dt /\ hist' = Tail(hist) \o <<time'>>
                   /\ UNCHANGED <<phase, k, saveTime, noSent, stat>>
       ELSE /\ ShrinkOk(dt, dt2)
            /\ time' = (IF phase = "spec" THEN Minus(time, Mul(H, dt)) ELSE time)      \* = saveTime over ticks
            /\ dt' = dt2
            /\ IF Lt(dt2, DtMin)
                 THEN /\ stat' = "failed" /\ obs' = <<"err", "MinimumTimeDeltaExceeded">>
                      /\ UNCHANGED <<out, hist, phase>>
                 ELSE /\ hist' = <<>> /\ phase' = "plain" /\ Silent /\ UNCHANGED stat
            /\ UNCHANGED <<k, saveTime, noSent>>

\* The user's derivative function fails during an evaluating branch.
Evaluating ==
  \/ Kind = "euler" /\ Lt(time, T1)
  \/ Kind = "rk" /\ Lt(time, T1)
  \/ MS /\ phase \in ClipPhases /\ Lt(time, T1)
  \/ MS /\ phase = "spec" /\ Lt(time, T1) /\ Lt(Plus(time, dt), T1)
UserFail ==
  /\ Evaluating
  /\ stat' = "failed" /\ obs' = <<"err", "UserError">>
  /\ UNCHANGED <<time, dt, phase, k, hist, saveTime, noSent, out>>

(***************************************************************************)
(* IVPIterator::next: after a Failure the iterator is fused (`finished`);  *)
(* after Done it keeps calling step(), which keeps answering Done.         *)
(***************************************************************************)
Fused == stat = "failed" /\ obs' = <<"none">>
         /\ UNCHANGED <<time, dt, phase, k, hist, saveTime, noSent, stat, out>>

StepActions(accept, grow, dt2) ==
  /\ stat = "run"
  /\ \/ EulerDone \/ EulerStep
     \/ RkDone \/ RkTrial(accept, dt2)
     \/ HandOver \/ Sentinel \/ CommitAtEnd \/ MsDone \/ FinalClip \/ StartUp
     \/ PcTrial(accept, grow, dt2)
  /\ UNCHANGED cfg
Faults == (stat = "run" /\ UserFail /\ UNCHANGED cfg) \/ (Fused /\ UNCHANGED cfg)

(***************************************************************************)
(* Where the user's derivative function is evaluated.  The plan of the     *)
(* next step() call is a function of the state before it (accept / reject  *)
(* only decide what happens afterwards):                                   *)
(*   fixed : the evaluation times in order                                 *)
(*   tail  : <<t>> when any further number (at least two) of evaluations   *)
(*           follows, all at time t - the two implicit solves of a BDF     *)
(*           trial step; <<>> otherwise                                    *)
(* Checked by E1 (all planned times lie in [t0, t1]) and, time by time,    *)
(* against the recorded evaluations of real runs (Trace_IvpProtocol).      *)
(***************************************************************************)
Rk4Times(t, d) == <<t, Plus(t, Frac(1, 2, d)), Plus(t, Frac(1, 2, d)), Plus(t, d)>>
RECURSIVE StartTimes(_, _, _, _)
\* n RK4 start-up steps of length d from t (i steps done so far): Adams also evaluates the derivative at the start
\* of every step but the first, for its derivative history
StartTimes(t, d, n, i) ==
  IF i = n THEN (IF Kind = "adams" THEN <<RepAdd(t, d, n)>> ELSE <<>>)
  ELSE Rk4Times(RepAdd(t, d, i), d) \o (IF Kind = "adams" /\ i > 0 THEN <<RepAdd(t, d, i)>> ELSE <<>>)
       \o StartTimes(t, d, n, i + 1)
NoEvals == [fixed |-> <<>>, tail |-> <<>>]
EvalPlan ==
  IF stat # "run" THEN NoEvals
  ELSE IF Kind = "euler" THEN [fixed |-> IF Lt(time, T1) THEN <<time>> ELSE <<>>, tail |-> <<>>]
  ELSE IF Kind = "rk"
    THEN IF ~Lt(time, T1) THEN NoEvals
         ELSE LET d == IF ~Lt(Plus(time, dt), T1) THEN Minus(T1, time) ELSE dt
                  st == StagesOf(cfg)
              IN [fixed |-> [i \in 1..Len(st) |-> Plus(time, Frac(st[i][1], st[i][2], d))], tail |-> <<>>]
  ELSE IF phase \in {"hand", "sent"} THEN NoEvals
  ELSE IF phase = "spec" /\ "ClipBeforeHandOver" \notin Defects /\ ~Lt(Plus(time, dt), T1) THEN NoEvals         \* CommitAtEnd
  ELSE IF ~Lt(time, T1) THEN NoEvals                                                                           \* MsDone
  ELSE IF ~Lt(Plus(time, dt), T1)                                                                               \* FinalClip
    THEN [fixed |-> StartTimes(time, Minus(T1, time), 1, 0), tail |-> <<>>]
  ELSE IF hist = <<>> THEN [fixed |-> StartTimes(time, StartUpStep, H, 0), tail |-> <<>>]                       \* StartUp
  ELSE IF Kind = "adams" THEN [fixed |-> <<Plus(time, dt)>>, tail |-> <<>>]                                    \* PcTrial
  ELSE [fixed |-> <<>>, tail |-> <<Plus(time, dt)>>]
EvalsInsideInterval ==
  LET p == EvalPlan IN \A i \in 1..Len(p.fixed \o p.tail) : Le(T0, (p.fixed \o p.tail)[i]) /\ Le((p.fixed \o p.tail)[i], T1)

(***************************************************************************)
(* Design-level invariants (checked by E1).                                *)
(***************************************************************************)
\* prev_values is an arithmetic progression ending at the current time whenever a multistep
\* step can use it
HistAligned ==
  (MS /\ stat = "run" /\ phase \in {"plain", "spec"} /\ hist # <<>> /\ Lt(time, T1)) =>
     /\ hist[Len(hist)] = time
     /\ \A i \in 1..(Len(hist) - 1) : Plus(hist[i], dt) = hist[i + 1]
StepWithinMax == Le(dt, DtMax)
\* every start-up point is eventually handed to the iterator unless the solve failed:
\* at Done nothing is pending
NothingPendingAtDone ==
  (MS /\ obs = <<"none">> /\ stat = "run") => phase = "plain"
=============================================================================
