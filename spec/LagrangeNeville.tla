--------------------------- MODULE LagrangeNeville ---------------------------
(***************************************************************************)
(* Design model of interp::lagrange as it stands in the tree (C15), over   *)
(* an abstract field: Neville's scheme on polynomials.  t[i][j] (1-based;  *)
(* the code's qs[(i-1) + n (j-1)]) interpolates the j points listed last   *)
(* up to point i:                                                          *)
(*   t[i][1] = y_i                                                         *)
(*   t[i][j] = ((x - x_(i-j+1)) t[i][j-1] - (x - x_i) t[i-1][j-1])         *)
(*             / (x_i - x_(i-j+1))                                         *)
(* one action per cell, with the library's product by a linear factor      *)
(* (Polynomial::multiply's special cases), coefficient-wise subtraction    *)
(* and scaling by the reciprocal of the gap; then the cleaning of the last *)
(* cell: coefficients of modulus < tol set to zero (the top one removed),  *)
(* leading coefficients <= tol removed.                                    *)
(***************************************************************************)
EXTENDS Integers, Sequences

CONSTANTS Add(_, _), Sub(_, _), Mul(_, _), Div(_, _), Neg(_), AbsLt(_, _), SmallLe(_, _), Zero, One, TolZero
VARIABLES pc, xs, ys, tol, t, r, cc, p
vars == <<pc, xs, ys, tol, t, r, cc, p>>
(* pc : "idle" | "table" | "clean" | "done" | "err" | "panic";  (r, cc): the cell to fill next;  p : the result *)

Init == pc = "idle" /\ xs = <<>> /\ ys = <<>> /\ tol = TolZero /\ t = <<>> /\ r = 0 /\ cc = 0 /\ p = <<Zero>>

Begin(x, y, tl) ==
  /\ pc = "idle" /\ xs' = x /\ ys' = y /\ tol' = tl /\ p' = <<Zero>>
  /\ IF Len(x) # Len(y)
       THEN pc' = "err" /\ t' = <<>> /\ r' = 0 /\ cc' = 0
       ELSE IF Len(x) = 0                              \* no points at all: the code indexes qs[0 * 0 - 1] and panics
       THEN pc' = "panic" /\ t' = <<>> /\ r' = 0 /\ cc' = 0       \* (outside the property: it speaks of 1..8 nodes)
       ELSE /\ t' = [i \in 1..Len(x) |-> [j \in 1..Len(x) |-> IF j = 1 THEN <<y[i]>> ELSE <<Zero>>]]
            /\ IF Len(x) >= 2 THEN pc' = "table" /\ r' = 2 /\ cc' = 2 ELSE pc' = "clean" /\ r' = 1 /\ cc' = 1

\* (x - a) * s as Polynomial::multiply computes it with the linear factor on the left ([-a, 1] in ascending order)
LinMul(a, s) ==
  IF Len(s) = 1 THEN <<Mul(Neg(a), s[1]), Mul(One, s[1])>>
  ELSE IF Len(s) = 2 THEN <<Add(Zero, Mul(Neg(a), s[1])), Add(Mul(Neg(a), s[2]), Mul(One, s[1])), Mul(One, s[2])>>
  ELSE [j \in 1..(Len(s) + 1) |->
          IF j = 1 THEN Add(Zero, Mul(s[1], Neg(a)))
          ELSE IF j <= Len(s) THEN Add(Mul(s[j - 1], One), Mul(s[j], Neg(a)))
          ELSE Mul(s[j - 1], One)]
PSub(u, v) == [j \in 1..(IF Len(u) >= Len(v) THEN Len(u) ELSE Len(v)) |->
                 IF j <= Len(u) /\ j <= Len(v) THEN Sub(u[j], v[j]) ELSE IF j <= Len(u) THEN u[j] ELSE Neg(v[j])]
PScale(u, c) == [j \in 1..Len(u) |-> Mul(u[j], c)]

Cell ==
  /\ pc = "table"
  /\ LET a == xs[r - (cc - 1)]                       \* the oldest of the cc points
         idenom == Div(One, Sub(xs[r], a))
         numer == PSub(LinMul(a, t[r][cc - 1]), LinMul(xs[r], t[r - 1][cc - 1]))
     IN t' = [t EXCEPT ![r][cc] = PScale(numer, idenom)]
  /\ IF cc < r THEN r' = r /\ cc' = cc + 1 /\ pc' = pc
     ELSE IF r < Len(xs) THEN r' = r + 1 /\ cc' = 2 /\ pc' = pc
     ELSE pc' = "clean" /\ r' = r /\ cc' = cc
  /\ UNCHANGED <<xs, ys, tol, p>>

TrimLen(s, P(_)) == CHOOSE n \in 1..Len(s) : (n = 1 \/ ~P(s[n])) /\ \A m \in (n + 1)..Len(s) : P(s[m])
Clean ==
  /\ pc = "clean"
  /\ LET s0 == t[Len(xs)][Len(xs)]
         top == Len(s0)
         s1 == [j \in 1..top |-> IF (j < top \/ top = 1) /\ AbsLt(s0[j], tol) THEN Zero ELSE s0[j]]
         s2 == IF top > 1 /\ AbsLt(s0[top], tol) THEN SubSeq(s1, 1, top - 1) ELSE s1
     IN p' = SubSeq(s2, 1, TrimLen(s2, LAMBDA c : SmallLe(c, tol)))
  /\ pc' = "done"
  /\ UNCHANGED <<xs, ys, tol, t, r, cc>>
Done == pc \in {"done", "err", "panic"} /\ UNCHANGED vars
=============================================================================
