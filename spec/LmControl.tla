------------------------------ MODULE LmControl ------------------------------
(***************************************************************************)
(* Design model of the control flow of optimize::curve_fit_jac             *)
(* (Levenberg-Marquardt with an analytic Jacobian) as it stands in the     *)
(* tree (C17).  The linear algebra - which trial parameters a damped       *)
(* normal-equation step produces - is abstracted away; what is modelled is *)
(* the skeleton that decides how long the routine runs and what it         *)
(* returns, one action per group of closure calls (a "block" = one sweep   *)
(* of the model or of the Jacobian over the data):                         *)
(*   Start      - J at the initial parameters, the model there twice       *)
(*                (residuals; evaluation)                                  *)
(*   SearchPass - initial damping search: model and J at the next trial    *)
(*                point; ends at the first pass whose sum of squares is    *)
(*                not above the initial one, or after SearchCap passes     *)
(*   MainTest   - the loop test |last_sum_sq - sum_sq| > tol               *)
(*   MainPass   - the two trial points (damping, damping / mult): model at *)
(*                both; the one with the smaller residual sum is kept (the *)
(*                less damped one only if strictly better), J there        *)
(*   SolveFail  - a linear solve fails: Err, only where a solve happens    *)
(* The verdicts (down, again, better) are parameters of the actions: the   *)
(* bounded model explores all of them, the trace specification computes    *)
(* them from the recorded model values.                                    *)
(***************************************************************************)
EXTENDS Integers, Sequences

CONSTANTS SearchCap
VARIABLES phase, ks, km, kept, fblocks, jblocks
vars == <<phase, ks, km, kept, fblocks, jblocks>>
(* phase : "idle" | "search" | "test" | "main" | "ok" | "err";  ks, km : search / main passes so far
   kept  : which trial point the latest main pass kept ("none" before the first, "damped" | "less_damped")
   fblocks, jblocks : sweeps of the model / of the Jacobian over the data so far *)

Init == phase = "idle" /\ ks = 0 /\ km = 0 /\ kept = "none" /\ fblocks = 0 /\ jblocks = 0

Start == /\ phase = "idle" /\ phase' = "search" /\ fblocks' = 2 /\ jblocks' = 1 /\ UNCHANGED <<ks, km, kept>>

\* down: the sum of squares at the new point is not above the initial one
SearchPass(down) ==
  /\ phase = "search" /\ ks < SearchCap
  /\ ks' = ks + 1 /\ fblocks' = fblocks + 1 /\ jblocks' = jblocks + 1
  /\ phase' = (IF down \/ ks + 1 = SearchCap THEN "test" ELSE "search")
  /\ UNCHANGED <<km, kept>>

\* again: |last_sum_sq - sum_sq| > tol
MainTest(again) ==
  /\ phase = "test" /\ phase' = (IF again THEN "main" ELSE "ok")
  /\ UNCHANGED <<ks, km, kept, fblocks, jblocks>>

\* better: the less damped trial point has the strictly smaller residual sum
MainPass(better) ==
  /\ phase = "main"
  /\ km' = km + 1 /\ fblocks' = fblocks + 2 /\ jblocks' = jblocks + 1
  /\ kept' = (IF better THEN "less_damped" ELSE "damped")
  /\ phase' = "test"
  /\ UNCHANGED ks

SolveFail == phase \in {"search", "main"} /\ phase' = "err" /\ UNCHANGED <<ks, km, kept, fblocks, jblocks>>
Done == phase \in {"ok", "err"} /\ UNCHANGED vars

Next == Start \/ (\E b \in BOOLEAN : SearchPass(b) \/ MainTest(b) \/ MainPass(b)) \/ SolveFail \/ Done

\* ---- invariants ---------------------------------------------------------------------------------
SearchBounded == ks <= SearchCap
BlockAccounting == phase # "idle" => fblocks = 2 + ks + 2 * km /\ jblocks = 1 + ks + km
OkOnlyAfterTheTest == phase = "ok" => ks >= 1
KeptOnlyInMain == (km = 0) <=> (kept = "none")
=============================================================================
