SPECIFICATION Spec
CONSTANTS Defects = {}
INVARIANTS InsideInitialInterval SignChangeKept StoredValueIsValueAtLeft ResultNearRoot ValidBracketSolved WithinHalvingBound
           EvaluationsAreIterationsPlusTwo
PROPERTY Terminates
CHECK_DEADLOCK FALSE
