------------------------------- MODULE MC_Bisect -------------------------------
(***************************************************************************)
(* E1 for C07 (bisection): module Bisect on a dyadic lattice.  Abscissae   *)
(* are integers (units of 2^-D), so midpoints are exact while the bracket  *)
(* is at least two units wide; a function value is an IEEE sign pattern    *)
(* [neg, zero] of  sign * prod (2x - r_i)  with roots r_i in half units    *)
(* (odd = between lattice points, even = on one, where the value is a      *)
(* signed zero exactly as IEEE arithmetic produces it), and the only thing *)
(* the design does with two values is the sign bit of their product.       *)
(* Every bracket x every single root / triple of roots x increasing /      *)
(* decreasing x tolerance is explored.                                     *)
(***************************************************************************)
EXTENDS Integers, Sequences, FiniteSets, TLC
CONSTANTS Defects
VARIABLES pc, tol, nmax, a0, b0, left, right, fa, middle, n, nev, inside, result, cfg
Abs(x) == IF x < 0 THEN -x ELSE x
NegCount(x, roots) == Cardinality({r \in roots : 2 * x < r})
IsZero(x, roots) == \E r \in roots : 2 * x = r
SignBit(x, c) == ((NegCount(x, c.roots) % 2 = 1) /\ c.sign = 1) \/ ((NegCount(x, c.roots) % 2 = 0) /\ c.sign = -1)
F(x, c) == [neg |-> SignBit(x, c), zero |-> IsZero(x, c.roots)]
ZeroV == [neg |-> FALSE, zero |-> TRUE]

\* abscissae and the zero value share the constant Zero only through Init; fa is given its own start value there
B == INSTANCE Bisect WITH Plus <- LAMBDA x, y : x + y, Minus <- LAMBDA x, y : x - y, Half <- LAMBDA x : x \div 2,
                         Le <- LAMBDA x, y : x <= y, Lt <- LAMBDA x, y : x < y, AbsV <- Abs,
                         TolAt <- LAMBDA t, m : t, SignPosProd <- LAMBDA u, v : u.neg = v.neg, Zero <- 0
vars == <<pc, tol, nmax, a0, b0, left, right, fa, middle, n, nev, inside, result, cfg>>

\* widths are powers of two >= 16 units and tol >= 1 unit, so that every midpoint the loop forms is a lattice point
Configs ==
  { [lo |-> lo, hi |-> lo + w, roots |-> {r}, sign |-> s, tol |-> t, nmax |-> 40] :
      lo \in {0, 16, 64}, w \in {16, 32, 64}, r \in 0..260, s \in {1, -1}, t \in {1, 2, 8} }
  \cup
  { [lo |-> lo, hi |-> lo + 64, roots |-> {r1, r2, r3}, sign |-> s, tol |-> t, nmax |-> 40] :
      lo \in {0, 16}, r1 \in {9, 20, 33, 40}, r2 \in {41, 52, 64}, r3 \in {71, 90, 101, 128}, s \in {1, -1}, t \in {1, 4} }
  \cup       \* brackets straddling zero: a midpoint can land on or next to the origin
  { [lo |-> -32, hi |-> 96, roots |-> {r}, sign |-> s, tol |-> t, nmax |-> 40] : r \in (-70)..200, s \in {1, -1}, t \in {1, 2} }
  \cup
  { [lo |-> 32, hi |-> 16, roots |-> {40}, sign |-> 1, tol |-> 1, nmax |-> 40],
    [lo |-> 0, hi |-> 64, roots |-> {51}, sign |-> 1, tol |-> 1, nmax |-> 3] }      \* reversed ends; iteration cap

Init == B!Init /\ cfg \in Configs
\* (named disjuncts: TLC then reports how often each was taken - the vacuity guard of the check reads that)
Begin == B!Begin(cfg.lo, cfg.hi, cfg.tol, cfg.nmax, F(cfg.lo, cfg), F(cfg.hi, cfg)) /\ UNCHANGED cfg
Iter == B!Iter(LAMBDA x : F(x, cfg)) /\ UNCHANGED cfg
GiveUp == B!GiveUp /\ UNCHANGED cfg
Done == B!Done /\ UNCHANGED cfg
Next == Begin \/ Iter \/ GiveUp \/ Done
Spec == Init /\ [][Next]_vars /\ WF_vars(Next)

InsideInitialInterval == inside
\* a sign change (or an exact zero at an end) stays between left and right
SignChangeKept == pc = "run" => (F(left, cfg).neg # F(right, cfg).neg \/ F(left, cfg).zero \/ F(right, cfg).zero)
StoredValueIsValueAtLeft == pc = "run" => fa = F(left, cfg)
ResultNearRoot == pc = "ok" => /\ cfg.lo <= result /\ result <= cfg.hi
                               /\ \E r \in cfg.roots : Abs(2 * result - r) <= 2 * cfg.tol + 1
\* a bracket with opposite signs in the right order is solved unless the iteration cap is too small, never Err otherwise
RECURSIVE Log2(_)
Log2(w) == IF w <= 1 THEN 0 ELSE 1 + Log2((w + 1) \div 2)
ValidBracketSolved ==
  (pc = "err") => (cfg.lo >= cfg.hi \/ F(cfg.lo, cfg).neg = F(cfg.hi, cfg).neg \/ cfg.nmax < Log2(cfg.hi - cfg.lo) + 3)
WithinHalvingBound == pc # "idle" => n <= Log2(cfg.hi - cfg.lo) + 3
EvaluationsAreIterationsPlusTwo == pc = "run" => nev = n + 1
Terminates == <>(pc \in {"ok", "err"})
=============================================================================
