SPECIFICATION Spec
CONSTANTS Defects = {}
INVARIANTS InsideInitialInterval SignChangeKept ResultNearRoot ValidBracketSolved WithinHalvingBound
PROPERTY Terminates
CHECK_DEADLOCK FALSE
