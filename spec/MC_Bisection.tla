----------------------------- MODULE MC_Bisection -----------------------------
(* E1 for C07: every bracket on a 64-unit lattice x every single root / triple of roots (on and between
   lattice points) x increasing/decreasing x tolerances, explored exhaustively. *)
EXTENDS Integers, Sequences, FiniteSets, TLC
CONSTANTS Defects
VARIABLES cfg, left, right, fa, middle, n, stat, evals, result
B == INSTANCE Bisection
\* widths are powers of two >= 16 units and tol >= 1 unit, so that every midpoint the loop forms is a
\* lattice point (the integer model is exact)
Configs ==
  { [lo |-> lo, hi |-> lo + w, roots |-> {r}, sign |-> s, tol |-> t, nmax |-> 40] :
      lo \in {0, 16, 64}, w \in {16, 32, 64}, r \in 0..260, s \in {1, -1}, t \in {1, 2, 8} }
  \cup
  { [lo |-> lo, hi |-> lo + 64, roots |-> {r1, r2, r3}, sign |-> s, tol |-> t, nmax |-> 40] :
      lo \in {0, 16}, r1 \in {9, 20, 33, 40}, r2 \in {41, 52, 64}, r3 \in {71, 90, 101, 128}, s \in {1, -1}, t \in {1, 4} }
  \cup
  { [lo |-> 32, hi |-> 16, roots |-> {40}, sign |-> 1, tol |-> 1, nmax |-> 40] }
Init == \E c \in Configs : B!Init(c)
Next == B!Iterate \/ B!Done
Spec == Init /\ [][Next]_B!vars /\ WF_B!vars(B!Iterate)
InsideInitialInterval == B!InsideInitialInterval
SignChangeKept == B!SignChangeKept
ResultNearRoot == B!ResultNearRoot
\* a bracket with opposite signs (no exact zero at an end) in the right order is solved, never Err
ValidBracketSolved ==
  (stat = "err") => (cfg.lo >= cfg.hi \/ B!ProductPositive(B!F(cfg.lo, cfg), B!F(cfg.hi, cfg)))
\* halving bound: at most log2(width) + 2 iterations
RECURSIVE Log2(_)
Log2(w) == IF w <= 1 THEN 0 ELSE 1 + Log2((w + 1) \div 2)
WithinHalvingBound == n <= Log2(cfg.hi - cfg.lo) + 3
Terminates == <>(stat # "run")
=============================================================================
