SPECIFICATION Spec
CONSTANTS AnyS = FALSE
          W = 24
          Tols = {2, 3, 5}
          Defects = {}
INVARIANTS InsideInitialInterval SignChangeKept BetterEndIsRight ValuesAreFunctionValues InverseQuadraticNeverTaken
           EvaluationsBounded ErrExactlyWhenNoBracketOrBadTolerance NoNumberWithoutBracket ResultIsRootOrSignChange
PROPERTY Terminates
CHECK_DEADLOCK FALSE
