------------------------------- MODULE MC_Brent -------------------------------
(***************************************************************************)
(* E1 for C07 (Brent): module Brent over the integers.  Abscissae are      *)
(* lattice points, the function is  sgn * g(2x - root)  with g linear,     *)
(* odd-quadratic (u|u|) or a steep ramp (root given in half units: between or on lattice  *)
(* points), division is integer division - one possible rounding.  With    *)
(* AnyS = TRUE the interpolated point is ANY lattice point of a range      *)
(* reaching beyond the bracket on both sides, so the checked invariants    *)
(* hold for whatever the secant / inverse-quadratic formulas (or a changed *)
(* version of them) could return: the safeguards alone keep every          *)
(* abscissa inside the initial interval, keep the sign change, and force   *)
(* termination within the contract's evaluation bound.                     *)
(* The lattice analogue of "tolerance not below the spacing of doubles" is *)
(* tol >= 2.                                                               *)
(***************************************************************************)
EXTENDS Integers, Sequences, FiniteSets, TLC
CONSTANTS AnyS, W, Tols, Defects
VARIABLES pc, tol, a0, b0, left, right, fl, fr, c, fc, d, s, fs, mflag, n, inside, iqi, prob
Abs(x) == IF x < 0 THEN -x ELSE x
B == INSTANCE Brent WITH Plus <- LAMBDA x, y : x + y, Minus <- LAMBDA x, y : x - y, Times <- LAMBDA x, y : x * y,
                        Quot <- LAMBDA x, y : x \div y, Lt <- LAMBDA x, y : x < y, Le <- LAMBDA x, y : x <= y,
                        AbsV <- Abs, SignNeg <- LAMBDA x : x < 0, Num <- LAMBDA k : k, Defects <- Defects
vars == <<pc, tol, a0, b0, left, right, fl, fr, c, fc, d, s, fs, mflag, n, inside, iqi, prob>>

G(fam, u) == CASE fam = "lin" -> u [] fam = "quad" -> u * Abs(u)
               [] fam = "ramp" -> IF u < 0 THEN -3 ELSE IF u = 0 THEN 0 ELSE 40 * u + 3
Fn(p, x) == p.sgn * G(p.fam, 2 * x - p.root)
Probs == { [a |-> a, b |-> b, t |-> t, root |-> r, sgn |-> sg, fam |-> fam] :
             a \in {0, 3, W}, b \in {0, W - 5, W}, t \in Tols \cup {-2}, r \in (-3)..(2 * W + 3), sg \in {1, -1},
             fam \in {"lin", "quad", "ramp"} }
Cand == (-2)..(W + 2)

Init == B!Init /\ prob \in {p \in Probs : p.a # p.b}
\* (named disjuncts: TLC then reports how often each was taken - the vacuity guard of the check reads that)
Begin == B!Begin(prob.a, prob.b, prob.t, Fn(prob, prob.a), Fn(prob, prob.b)) /\ UNCHANGED prob
First == B!First(LAMBDA x : Fn(prob, x)) /\ UNCHANGED prob
Iter == B!Iter(LAMBDA x : Fn(prob, x), LAMBDA v : IF AnyS THEN Cand ELSE {v}) /\ UNCHANGED prob
Exit == B!Exit /\ UNCHANGED prob
Done == B!Done /\ UNCHANGED prob
Next == Begin \/ First \/ Iter \/ Exit \/ Done
Spec == Init /\ [][Next]_vars /\ WF_vars(Next)

RECURSIVE Log2Ceil(_)
Log2Ceil(w) == IF w <= 1 THEN 0 ELSE 1 + Log2Ceil((w + 1) \div 2)
Halvings == Log2Ceil((Abs(prob.b - prob.a) + prob.t - 1) \div prob.t)
SameSign(x, y) == (x > 0 /\ y > 0) \/ (x < 0 /\ y < 0)

InsideInitialInterval == inside
SignChangeKept == pc = "loop" => ~SameSign(fl, fr)
BetterEndIsRight == pc = "loop" => Abs(fr) <= Abs(fl)
ValuesAreFunctionValues == pc = "loop" => fl = Fn(prob, left) /\ fr = Fn(prob, right) /\ fs = Fn(prob, s)
\* the inverse-quadratic branch needs |fl - fc| < tol and |fr - fc| < tol, hence |fl - fr| < 2 tol, while the loop
\* runs only with |fr| >= tol, |fl| >= |fr| and opposite signs: the branch is dead code (a design finding; the
\* method is secant + bisection)
InverseQuadraticNeverTaken == ~iqi
EvaluationsBounded == pc # "idle" /\ prob.t > 0 => n <= (Halvings + 2) * (Halvings + 2) + 10
ErrExactlyWhenNoBracketOrBadTolerance ==
  pc \in {"first", "loop", "ok"} => prob.t >= 0 /\ Fn(prob, prob.a) * Fn(prob, prob.b) < 0
NoNumberWithoutBracket == (prob.t < 0 \/ Fn(prob, prob.a) * Fn(prob, prob.b) >= 0) => pc \in {"idle", "err"}
\* an Ok result: inside the initial interval, and a value below the tolerance or a sign change within tol of it
ResultIsRootOrSignChange ==
  pc = "ok" => /\ (IF prob.a <= prob.b THEN prob.a <= s /\ s <= prob.b ELSE prob.b <= s /\ s <= prob.a)
               /\ \/ Abs(Fn(prob, s)) < tol
                  \/ (s = right /\ Abs(left - right) < tol /\ ~SameSign(fl, fr))
Terminates == <>(pc \in {"ok", "err"})
=============================================================================
