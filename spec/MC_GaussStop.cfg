INIT Init
NEXT Next
CONSTANTS N = 8
INVARIANTS ReturnsFirstAgreement NeverBeforeSecondRule ErrIffNoAgreement NoEarlyErr
CHECK_DEADLOCK FALSE
