----------------------------- MODULE MC_GaussStop -----------------------------
(* E1 for the stopping rule of the Gaussian integrators: every verdict sequence over N rules. *)
EXTENDS GaussStop

\* the first index with two consecutive agreements, 0 if none
RECURSIVE First(_)
First(j) == IF j > N THEN 0 ELSE IF j >= 2 /\ small[j] /\ small[j - 1] THEN j ELSE First(j + 1)
ReturnsFirstAgreement == stat = "ok" => result = First(1)
ErrIffNoAgreement == stat = "err" => First(1) = 0
NoEarlyErr == (stat = "run" /\ k = N) => First(1) = 0
=============================================================================
