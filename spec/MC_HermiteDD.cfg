SPECIFICATION Spec
CONSTANTS
  NN = 2
  Defects = {}
INVARIANTS DegreeBound MatchesValues MatchesDerivatives ErrExactlyForMismatch
PROPERTY Terminates
CHECK_DEADLOCK FALSE
