---------------------------- MODULE MC_HermiteDD ----------------------------
(***************************************************************************)
(* E1 for C15 (Hermite): module HermiteDD over exact rationals, for every  *)
(* listing of 1..NN distinct nodes from Nodes, every vector of ordinates   *)
(* and derivatives from Vals and every tolerance in Tols.  The polynomial  *)
(* the table and the assembly leave                                        *)
(*  - has at most 2n coefficients                                          *)
(*  - matches every ordinate and every derivative up to what the cleaning  *)
(*    may remove: tol * sum |x|^k (values), tol * sum k |x|^(k-1) (slopes) *)
(*    - exactly when the tolerance is zero                                 *)
(* and Err is given exactly for mismatched lengths.                        *)
(***************************************************************************)
EXTENDS Integers, Sequences, FiniteSets, TLC
CONSTANTS NN, Defects
VARIABLES pc, xs, ys, ds, tol, q, r, cc, p, prob

RECURSIVE GcdN(_, _)
GcdN(x, y) == IF y = 0 THEN x ELSE GcdN(y, x % y)
AbsI(x) == IF x < 0 THEN -x ELSE x
Norm(a, s) == LET g == GcdN(AbsI(a), AbsI(s)) sg == IF s < 0 THEN -1 ELSE 1 IN IF a = 0 THEN <<0, 1>> ELSE <<sg * (a \div g), sg * (s \div g)>>
QAdd(x, y) == Norm(x[1] * y[2] + y[1] * x[2], x[2] * y[2])
QSub(x, y) == QAdd(x, <<-y[1], y[2]>>)
QMul(x, y) == Norm(x[1] * y[1], x[2] * y[2])
QDiv(x, y) == Norm(x[1] * y[2], x[2] * y[1])
QLe(x, y) == x[1] * y[2] <= y[1] * x[2]
QLt(x, y) == x[1] * y[2] < y[1] * x[2]
QAbs(x) == IF x[1] < 0 THEN <<-x[1], x[2]>> ELSE x
Q(n) == <<n, 1>>

H == INSTANCE HermiteDD WITH Add <- QAdd, Sub <- QSub, Mul <- QMul, Div <- QDiv, Neg <- LAMBDA x : <<-x[1], x[2]>>,
       AbsLt <- LAMBDA c, t : QLt(QAbs(c), t), SmallLe <- LAMBDA c, t : QLe(QAbs(c), t),
       Zero <- Q(0), One <- Q(1), DefaultTol <- Q(1), TolZero <- Q(0), Defects <- Defects
vars == <<pc, xs, ys, ds, tol, q, r, cc, p, prob>>

Nodes == {-1, 0, 1, 2}
Vals == {-1, 0, 2}
Tols == {<<0, 1>>, <<1, 8>>}
Inj(n) == {f \in [1..n -> Nodes] : \A a, b \in 1..n : a # b => f[a] # f[b]}
QS(f, n) == [j \in 1..n |-> Q(f[j])]
Probs == UNION { { [x |-> QS(f, n), y |-> QS(y, n), d |-> QS(dv, n), t |-> t] : f \in Inj(n), y \in [1..n -> Vals], dv \in [1..n -> Vals], t \in Tols } : n \in 1..NN }
         \cup { [x |-> <<Q(0), Q(1)>>, y |-> <<Q(1)>>, d |-> <<Q(0), Q(0)>>, t |-> Q(0)], [x |-> <<Q(0)>>, y |-> <<Q(1)>>, d |-> <<>>, t |-> Q(0)],
              [x |-> <<>>, y |-> <<>>, d |-> <<>>, t |-> Q(0)] }

Init == H!Init /\ prob \in Probs
Begin == H!Begin(prob.x, prob.y, prob.d, prob.t) /\ UNCHANGED prob
Cell == H!Cell /\ UNCHANGED prob
Horner == H!Horner /\ UNCHANGED prob
Finish == H!Finish /\ UNCHANGED prob
Done == H!Done /\ UNCHANGED prob
Next == Begin \/ Cell \/ Horner \/ Finish \/ Done
Spec == Init /\ [][Next]_vars /\ WF_vars(Next)

RECURSIVE EvalP(_, _, _), SumPow(_, _, _)
EvalP(s, x, j) == IF j > Len(s) THEN Q(0) ELSE QAdd(s[j], QMul(x, EvalP(s, x, j + 1)))
Deriv(s) == IF Len(s) = 1 THEN <<Q(0)>> ELSE [j \in 1..(Len(s) - 1) |-> QMul(Q(j), s[j + 1])]
SumPow(ax, j, m) == IF j > m THEN Q(0) ELSE QAdd(Q(1), QMul(ax, SumPow(ax, j + 1, m)))         \* 1 + |x| + ... (m terms)
Slack(x, m) == QMul(tol, SumPow(QAbs(x), 1, m))
SlackD(x, m) == QMul(QMul(tol, Q(m)), SumPow(QAbs(x), 1, m))
n == Len(xs)

DegreeBound == pc = "done" => Len(p) <= 2 * n
MatchesValues == pc = "done" => \A j \in 1..n : QLe(QAbs(QSub(EvalP(p, xs[j], 1), ys[j])), Slack(xs[j], 2 * n))
MatchesDerivatives == pc = "done" => \A j \in 1..n : QLe(QAbs(QSub(EvalP(Deriv(p), xs[j], 1), ds[j])), SlackD(xs[j], 2 * n))
ErrExactlyForMismatch == pc = "err" <=> (pc # "idle" /\ (Len(xs) # Len(ys) \/ Len(xs) # Len(ds)))
PanicOnlyWithoutNodes == pc = "panic" <=> (pc # "idle" /\ Len(xs) = 0 /\ Len(ys) = 0 /\ Len(ds) = 0)
Terminates == <>(pc \in {"done", "err", "panic"})
=============================================================================
