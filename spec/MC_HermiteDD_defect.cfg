SPECIFICATION Spec
CONSTANTS
  NN = 2
  Defects = {"purge_leading_with_default_tolerance"}
INVARIANTS MatchesValues MatchesDerivatives
CHECK_DEADLOCK FALSE
