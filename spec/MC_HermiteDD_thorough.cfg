SPECIFICATION Spec
CONSTANTS
  NN = 3
  Defects = {}
INVARIANTS DegreeBound MatchesValues MatchesDerivatives ErrExactlyForMismatch PanicOnlyWithoutNodes
PROPERTY Terminates
CHECK_DEADLOCK FALSE
