SPECIFICATION Spec
CONSTANTS
  NN = 3
  Defects = {}
INVARIANTS DegreeBound MatchesValues MatchesDerivatives ErrExactlyForMismatch
PROPERTY Terminates
CHECK_DEADLOCK FALSE
