SPECIFICATION Spec
INVARIANTS InsideInitialInterval SignChangeKept WithinBisectionWorstCase ResultNearRoot Progress
PROPERTY Terminates
CHECK_DEADLOCK FALSE
