-------------------------------- MODULE MC_Itp --------------------------------
(* E1 for C07 (ITP): every bracket on a 64-unit lattice x root position (between and on lattice points) x
   increasing / decreasing x tolerance x n_0, with every admissible choice of the interpolated trial point. *)
EXTENDS Integers, Sequences, FiniteSets, TLC
VARIABLES cfg, lo, hi, j, stat, evals, result
I == INSTANCE Itp
Configs == { [a |-> a, b |-> a + w, root |-> r, sign |-> s, eps |-> e, n0 |-> n0] :
               a \in {0, 7}, w \in {16, 21}, r \in 0..58, s \in {1, -1}, e \in {1, 2}, n0 \in {0, 1} }
Init == \E c \in Configs : I!Init(c)
Next == (\E x \in 0..30 : I!Step(x)) \/ I!Finish \/ I!Done
Spec == Init /\ [][Next]_I!vars /\ WF_I!vars(Next)
InsideInitialInterval == I!InsideInitialInterval
SignChangeKept == I!SignChangeKept
WithinBisectionWorstCase == I!WithinBisectionWorstCase
ResultNearRoot == I!ResultNearRoot
Progress == I!Progress
Terminates == <>(stat # "run")
=============================================================================
