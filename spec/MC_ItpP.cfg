SPECIFICATION Spec
INVARIANTS InsideInitialInterval SignChangeKept WithinBisectionWorstCase EvaluationsArePassesPlusTwo ResultNearRoot Progress
PROPERTY Terminates
CHECK_DEADLOCK FALSE
