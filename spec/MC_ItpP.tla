------------------------------- MODULE MC_ItpP -------------------------------
(* E1 for C07 (ITP): module ItpP on a lattice: every bracket on a 64-unit lattice x root position (between and on
   lattice points) x increasing / decreasing x tolerance x n_0, with every admitted choice of the interpolated trial
   point.  The function is a sign pattern around the root (given in half units). *)
EXTENDS Integers, Sequences, FiniteSets, TLC
VARIABLES pc, a0, b0, eps, n0, nhalf, lo, hi, j, nev, inside, result, cfg
Abs(x) == IF x < 0 THEN -x ELSE x
RECURSIVE Log2Ceil(_), Pow2(_)
Log2Ceil(w) == IF w <= 1 THEN 0 ELSE 1 + Log2Ceil((w + 1) \div 2)
Pow2(e) == IF e <= 0 THEN 1 ELSE 2 * Pow2(e - 1)
I == INSTANCE ItpP WITH Plus <- LAMBDA x, y : x + y, Minus <- LAMBDA x, y : x - y, Lt <- LAMBDA x, y : x < y, Le <- LAMBDA x, y : x <= y,
                       AbsV <- Abs, Dbl <- LAMBDA x : 2 * x, TimesPow2 <- LAMBDA t, e : IF e >= 0 THEN t * Pow2(e) ELSE t \div Pow2(-e),
                       Zero <- 0, Slack <- LAMBDA l, h : 0
vars == <<pc, a0, b0, eps, n0, nhalf, lo, hi, j, nev, inside, result, cfg>>

Neg(x, c) == (2 * x < c.root /\ c.sign = 1) \/ (2 * x > c.root /\ c.sign = -1)
IsRoot(x, c) == 2 * x = c.root
Cls(x, c) == IF IsRoot(x, c) THEN "zero" ELSE IF Neg(x, c) THEN "neg" ELSE "pos"
\* n_half = ceil(log2(|b - a| / (2 eps)))
NHalf(c) == Log2Ceil((Abs(c.b - c.a) + 2 * c.eps - 1) \div (2 * c.eps))
Configs == { [a |-> a, b |-> a + w, root |-> r, sign |-> s, eps |-> e, n0 |-> n] :
               a \in {0, 7}, w \in {16, 21}, r \in 0..58, s \in {1, -1}, e \in {1, 2}, n \in {0, 1} }
           \cup { [a |-> 20, b |-> 4, root |-> 17, sign |-> s, eps |-> 1, n0 |-> 0] : s \in {1, -1} }        \* ends given in reverse order

Init == I!Init /\ cfg \in Configs
\* (named disjuncts: TLC then reports how often each was taken - the vacuity guard of the check reads that)
Begin == /\ I!Begin(cfg.a, cfg.b, cfg.eps, cfg.n0, NHalf(cfg), TRUE,
                    ~(IsRoot(cfg.a, cfg) \/ IsRoot(cfg.b, cfg) \/ Neg(cfg.a, cfg) = Neg(cfg.b, cfg)), Neg(cfg.a, cfg))
         /\ UNCHANGED cfg
Step == (\E x \in 0..30 : I!Step(x, Cls(x, cfg))) /\ UNCHANGED cfg
Finish == I!Finish /\ UNCHANGED cfg
Done == I!Done /\ UNCHANGED cfg
Next == Begin \/ Step \/ Finish \/ Done
Spec == Init /\ [][Next]_vars /\ WF_vars(Next)

InsideInitialInterval == inside
SignChangeKept == pc = "run" => (Neg(lo, cfg) \/ IsRoot(lo, cfg)) /\ (~Neg(hi, cfg))
WithinBisectionWorstCase == j <= NHalf(cfg) + 2 * cfg.n0
EvaluationsArePassesPlusTwo == pc = "run" => nev = j + 2
ResultNearRoot == pc = "ok" => /\ Abs(result - cfg.root) <= 2 * cfg.eps + 1
                               /\ 2 * (IF cfg.a < cfg.b THEN cfg.a ELSE cfg.b) <= result
                               /\ result <= 2 * (IF cfg.a < cfg.b THEN cfg.b ELSE cfg.a)
\* a step is always possible while the bracket is wider than 2 eps: the radius is never negative
Progress == (pc = "run" /\ Abs(hi - lo) > 2 * eps) => I!R2(j) >= 0
Terminates == <>(pc \in {"ok", "err"})
=============================================================================
