INIT Init
NEXT Next
CONSTANTS MaxCalls = 5
INVARIANTS MinNeverAboveMax EndAfterStart OnlyPositiveStored ErrorsAreDedicated
CHECK_DEADLOCK FALSE
