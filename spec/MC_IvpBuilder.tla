---------------------------- MODULE MC_IvpBuilder ----------------------------
(* E1: every sequence of up to MaxCalls builder calls (valid / zero / negative / reversed values, in
   any order), for both contracts and all constructor/dimension combinations, from an empty builder
   or from a complete valid one. *)
EXTENDS Integers, Sequences, FiniteSets, TLC, IvpBuilder
CONSTANTS MaxCalls

Alphabet ==
  {[call |-> "tol", v |-> x] : x \in {-1, 0, 2}} \cup {[call |-> "max", v |-> x] : x \in {-1, 0, 2, 6}}
  \cup {[call |-> "min", v |-> x] : x \in {-1, 0, 1, 4, 8}} \cup {[call |-> "t0", v |-> x] : x \in {0, 4}}
  \cup {[call |-> "t1", v |-> x] : x \in {0, 4, 8}} \cup {[call |-> "ic", v |-> 0], [call |-> "f", v |-> 0]}
Full == << [call |-> "max", v |-> 6], [call |-> "min", v |-> 1], [call |-> "tol", v |-> 2], [call |-> "t0", v |-> 0],
           [call |-> "t1", v |-> 8], [call |-> "ic", v |-> 0], [call |-> "f", v |-> 0] >>

VARIABLES euler, b, alive, ncalls, last
vars == <<euler, b, alive, ncalls, last>>

RECURSIVE ApplyAll(_, _, _, _)
ApplyAll(e, bb, seq, k) == IF k > Len(seq) THEN bb ELSE ApplyAll(e, Apply(e, bb, seq[k]).b, seq, k + 1)

Init == /\ euler \in BOOLEAN
        /\ \E static \in BOOLEAN, ctor \in {"new", "new_dyn"}, pre \in {"none", "full"} :
             LET r == New(static, ctor)
             IN /\ alive = r.ok
                /\ b = IF r.ok /\ pre = "full" THEN ApplyAll(euler, Empty, Full, 1) ELSE r.b
                /\ last = r
        /\ ncalls = 0
Call(c) == /\ alive /\ ncalls < MaxCalls
           /\ LET r == Apply(euler, b, c) IN b' = r.b /\ alive' = r.ok /\ last' = r
           /\ ncalls' = ncalls + 1 /\ UNCHANGED euler
DoSolve == /\ alive
           /\ LET r == Solve(euler, b) IN last' = r /\ alive' = FALSE /\ b' = b
           /\ UNCHANGED <<euler, ncalls>>
Next == (\E c \in Alphabet : Call(c)) \/ DoSolve

\* the property's sentences
MinNeverAboveMax == (alive /\ ~euler) => MinLeMax(b)
EndAfterStart == alive => TimesOrdered(b)
OnlyPositiveStored == (alive /\ ~euler) => Positive(b)
ErrorsAreDedicated == ~last.ok => last.err \in {"ToleranceOOB", "TimeDeltaOOB", "TimeStartOOB", "TimeEndOOB",
                                                 "MissingParameters", "StaticOnDynamic", "DynamicOnStatic"}
\* the model has no panic outcome: Apply is total on the alphabet (TLC would report an evaluation error)
=============================================================================
