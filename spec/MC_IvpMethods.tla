---------------------------- MODULE MC_IvpMethods ----------------------------
(* E1 self-check of the literature constants in IvpMethods (order conditions, weight sums,
   BDF exactness) and of the closed-form flows against their own right-hand sides. *)
EXTENDS Integers, Sequences, TLC, F64, IvpMethods
ASSUME MethodsSelfCheck

\* flows: d/dt Flow = Rhs(Flow), checked by a centred difference at a few points
P(k, p) == [k |-> k, p |-> p]
D(s) == FOfDec(s)
TestBlocks == << P("lin", <<D("-0.7"), D("0.3")>>), P("rot", <<D("-0.2"), D("1.7")>>), P("tv", <<D("0.4"), D("-0.6")>>),
                 P("logistic", <<D("1.3"), D("2.0")>>), P("recip", <<D("0.8")>>), P("forcing", <<D("1.1"), D("2.3"), D("0.4")>>),
                 P("relax", <<D("1.9"), D("-0.3")>>), P("poly", <<D("0.5"), D("-1.0"), D("0.25")>>), P("zero", <<>>) >>
R == [fam |-> "blocks", blocks |-> TestBlocks]
Y0 == <<D("0.9"), D("0.7"), D("-0.4"), D("1.1"), D("0.6"), D("1.2"), D("0.2"), D("0.8"), D("-0.1"), D("0.33")>>
T0 == D("0.25")
FlowOk ==
  \A tt \in {"0.5", "1.0", "1.75"} :
    LET t == D(tt) e == D("1e-5")
        yp == Flow(R, T0, Y0, FAdd(t, e)) ym == Flow(R, T0, Y0, FSub(t, e)) y == Flow(R, T0, Y0, t)
        der == VScale(FDiv(F1, FMul(F2, e)), VSub(yp, ym))
    IN FLe(VDistInf(der, Rhs(R, t, y)), D("1e-8"))
ASSUME FlowOk
ASSUME Flow(R, T0, Y0, T0) = Y0 \/ FLe(VDistInf(Flow(R, T0, Y0, T0), Y0), D("1e-15"))
\* one RK4 / RKF45 / BS32 step of the test system agrees with the flow to the expected order
StepOk ==
  LET h == D("0.01") ex == Flow(R, T0, Y0, FAdd(T0, h))
  IN /\ FLe(VDistInf(Rk4(R, T0, Y0, h), ex), D("1e-10"))
     /\ FLe(VDistInf(RkStep(Fehlberg45, R, T0, Y0, h).y, ex), D("1e-10"))
     /\ FLe(VDistInf(RkStep(BogackiShampine32, R, T0, Y0, h).y, ex), D("1e-7"))
     /\ FLe(RkStep(Fehlberg45, R, T0, Y0, h).est, D("1e-8"))
ASSUME StepOk
ASSUME PrintT("MC_IvpMethods ok")
VARIABLE x
Init == x = 0
Next == UNCHANGED x
=============================================================================
