--------------------------- MODULE MC_IvpProtocol ---------------------------
(***************************************************************************)
(* E1: exhaustive model checking of the IVP stepper design over integer    *)
(* ticks, for every configuration in Configs (TLC's initial-state set),    *)
(* every accept/reject verdict sequence and every controller choice within *)
(* the clamps, with a user failure possible at every evaluating step.      *)
(* The contract (IvpContract) runs alongside as a monitor: `bad` collects  *)
(* the names of violated contract conjuncts, so "bad = {}" is the          *)
(* refinement Design => Contract for safety.                               *)
(***************************************************************************)
EXTENDS Integers, Sequences, FiniteSets, TLC

CONSTANTS Defects, MaxSteps, Kinds, Thorough

VARIABLES cfg, time, dt, phase, k, hist, saveTime, noSent, stat, obs, out, mon, bad
vars == <<cfg, time, dt, phase, k, hist, saveTime, noSent, stat, obs, out, mon, bad>>

P == INSTANCE IvpProtocol WITH
       Plus <- LAMBDA a, b : a + b, Minus <- LAMBDA a, b : a - b, Mul <- LAMBDA n, x : n * x,
       DivN <- LAMBDA x, n : x \div n, Lt <- LAMBDA a, b : a < b, Le <- LAMBDA a, b : a <= b,
       LtC <- LAMBDA a, b : a < b, LeC <- LAMBDA a, b : a <= b, KeepHistory <- TRUE,
       Frac <- LAMBDA n, d, x : (x * n) \div d,
       \* Fehlberg 4(5) on even, Bogacki-Shampine 3(2) on odd interval lengths
       StagesOf <- LAMBDA c : IF c.t1 % 2 = 0 THEN << <<0, 1>>, <<1, 4>>, <<3, 8>>, <<12, 13>>, <<1, 1>>, <<1, 2>> >>
                              ELSE << <<0, 1>>, <<1, 2>>, <<3, 4>>, <<1, 1>> >>

C == INSTANCE IvpContract WITH
       Plus <- LAMBDA a, b : a + b, Minus <- LAMBDA a, b : a - b,
       Lt <- LAMBDA a, b : a < b, Le <- LAMBDA a, b : a <= b,
       GapOk <- LAMBDA t, last, dtmax : t - last <= dtmax

(***************************************************************************)
(* Configuration space.  One tick is small against every step: dtmin is at *)
(* least h+1 ticks so that a shortened start-up step is at least one tick. *)
(* Lengths run from a fraction of one step to many steps, finely across    *)
(* the boundaries where the start-up (h steps) no longer fits.             *)
(***************************************************************************)
HOf(kind) == CASE kind = "adams3" -> 2 [] kind = "adams5" -> 4 [] kind = "bdf2" -> 3 [] kind = "bdf6" -> 7 [] OTHER -> 0
FamOf(kind) == CASE kind \in {"adams3", "adams5"} -> "adams" [] kind \in {"bdf2", "bdf6"} -> "bdf" [] OTHER -> kind
ConfigsOf(kd) ==
  LET u == HOf(kd) + 2 IN
  { [name |-> kd, kind |-> FamOf(kd), h |-> HOf(kd), t0 |-> 0, t1 |-> L, dtmin |-> u, dtmax |-> mx,
     dt0 |-> (IF kd = "euler" THEN mx ELSE (u + mx) \div 2)] :
      mx \in {u, 2 * u, 3 * u + 1}, L \in 1..(IF Thorough THEN 12 * u ELSE 8 * u) }
Configs == UNION { ConfigsOf(kd) : kd \in Kinds }

CfgOf(c) == [kind |-> IF c.kind = "euler" THEN "euler" ELSE "adaptive", t0 |-> c.t0, t1 |-> c.t1,
             dtmax |-> c.dtmax, dt |-> c.dt0]

Init == \E c \in Configs :
          /\ P!Init(c)
          /\ mon = C!CInit(CfgOf(c))
          /\ bad = {}

Monitor ==
  LET cc == CfgOf(cfg) IN
  CASE obs'[1] = "item" -> /\ bad' = bad \cup C!YieldBad(cc, mon, obs'[2])
                           /\ mon' = C!YieldNext(mon, obs'[2])
    [] obs'[1] = "none" -> /\ bad' = bad \cup C!NoneBad(cc, mon)
                           /\ mon' = C!NoneNext(mon)
    [] obs'[1] = "err"  -> /\ bad' = bad \cup C!ErrBad(cc, mon)
                           /\ mon' = C!ErrNext(mon)
    [] OTHER -> UNCHANGED <<mon, bad>>

Next ==
  /\ \/ \E accept \in BOOLEAN, grow \in BOOLEAN, dt2 \in 0..cfg.dtmax : P!StepActions(accept, grow, dt2)
     \/ P!Faults
  /\ Monitor

Spec == Init /\ [][Next]_vars /\ WF_vars(Next)

\* The integer abstraction is valid while every step is at least one tick (see DESIGN App. B).
TicksFineEnough == dt >= 1 \/ stat # "run"

(***************************************************************************)
(* Invariants.                                                             *)
(***************************************************************************)
ContractRefined == bad = {}
PathOrdered == C!Ordered(out)
PathInside == C!InInterval(CfgOf(cfg), out)
PathGaps == C!GapBounded(CfgOf(cfg), out)
EndReached == (obs = <<"none">> /\ stat = "run" /\ cfg.kind # "euler") => C!EndExact(CfgOf(cfg), out)
EulerOnGrid == (obs = <<"none">> /\ stat = "run" /\ cfg.kind = "euler") => C!EulerGrid(CfgOf(cfg), out)
HistAligned == P!HistAligned
EvalsInsideInterval == P!EvalsInsideInterval
StepWithinMax == P!StepWithinMax
NothingPending == P!NothingPendingAtDone
AtMostOneErr == stat = "failed" => (obs[1] \in {"err", "none"})
\* the rejected start-up is rolled back to where it started
RollBackExact == (P!MS /\ phase = "plain" /\ hist = <<>> /\ stat = "run" /\ obs = <<"redo">>) => time = saveTime \/ out # <<>>
\* MinimumTimeDeltaExceeded is reported only when the trial step is below the minimum
FailOnlyBelowMin == (obs = <<"err", "MinimumTimeDeltaExceeded">>) => dt < cfg.dtmin

\* liveness: every run ends (None or an error), whatever the verdicts
Terminates == <>(obs[1] \in {"none", "err"})

\* history variable and the last observation do not influence behaviour
View == <<cfg, time, dt, phase, k, hist, saveTime, noSent, stat, mon, bad, obs[1] \in {"none", "err"}>>
=============================================================================
