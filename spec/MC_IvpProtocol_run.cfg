SPECIFICATION Spec
CONSTANTS
  Defects = {}
  MaxSteps = 0
  Kinds = {"euler", "rk", "adams3", "adams5", "bdf2", "bdf6"}
  Thorough = TRUE
CONSTRAINT TicksFineEnough
INVARIANTS ContractRefined PathOrdered PathInside PathGaps EndReached EulerOnGrid HistAligned StepWithinMax NothingPending AtMostOneErr FailOnlyBelowMin
PROPERTY Terminates
CHECK_DEADLOCK FALSE
