SPECIFICATION Spec
CONSTANTS
  Defects = {}
  MaxSteps = 0
  Kinds = {"euler", "rk", "adams3", "adams5", "bdf2", "bdf6"}
  Thorough = FALSE
CONSTRAINT TicksFineEnough
INVARIANTS ContractRefined PathOrdered PathInside PathGaps EndReached EulerOnGrid HistAligned EvalsInsideInterval StepWithinMax NothingPending AtMostOneErr FailOnlyBelowMin
PROPERTY Terminates
CHECK_DEADLOCK FALSE
