SPECIFICATION Spec
CONSTANTS NN = 3
INVARIANTS EveryCellInterpolatesItsOwnPoints DegreeBound TakesEveryValue ErrExactlyForMismatch PanicOnlyWithoutPoints
PROPERTY Terminates
CHECK_DEADLOCK FALSE
