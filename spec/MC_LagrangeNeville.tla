------------------------- MODULE MC_LagrangeNeville -------------------------
(***************************************************************************)
(* E1 for C15 (Lagrange): module LagrangeNeville over exact rationals, for *)
(* every listing of 1..NN distinct nodes from Nodes, every vector of       *)
(* ordinates from Vals, tolerances 0 and 1/8: the last cell of Neville's   *)
(* table has at most n coefficients and takes every given value up to what *)
(* the cleaning may remove (exactly at tolerance 0); every cell t[i][j]    *)
(* interpolates its own j points exactly (the invariant that makes the     *)
(* scheme work); Err exactly for mismatched lengths.                       *)
(***************************************************************************)
EXTENDS Integers, Sequences, FiniteSets, TLC
CONSTANTS NN
VARIABLES pc, xs, ys, tol, t, r, cc, p, prob

RECURSIVE GcdN(_, _)
GcdN(x, y) == IF y = 0 THEN x ELSE GcdN(y, x % y)
AbsI(x) == IF x < 0 THEN -x ELSE x
Norm(a, s) == LET g == GcdN(AbsI(a), AbsI(s)) sg == IF s < 0 THEN -1 ELSE 1 IN IF a = 0 THEN <<0, 1>> ELSE <<sg * (a \div g), sg * (s \div g)>>
QAdd(x, y) == Norm(x[1] * y[2] + y[1] * x[2], x[2] * y[2])
QSub(x, y) == QAdd(x, <<-y[1], y[2]>>)
QMul(x, y) == Norm(x[1] * y[1], x[2] * y[2])
QDiv(x, y) == Norm(x[1] * y[2], x[2] * y[1])
QLe(x, y) == x[1] * y[2] <= y[1] * x[2]
QLt(x, y) == x[1] * y[2] < y[1] * x[2]
QAbs(x) == IF x[1] < 0 THEN <<-x[1], x[2]>> ELSE x
Q(n) == <<n, 1>>

L == INSTANCE LagrangeNeville WITH Add <- QAdd, Sub <- QSub, Mul <- QMul, Div <- QDiv, Neg <- LAMBDA x : <<-x[1], x[2]>>,
       AbsLt <- LAMBDA c, tl : QLt(QAbs(c), tl), SmallLe <- LAMBDA c, tl : QLe(QAbs(c), tl), Zero <- Q(0), One <- Q(1), TolZero <- Q(0)
vars == <<pc, xs, ys, tol, t, r, cc, p, prob>>

Nodes == {-2, -1, 0, 1, 3}
Vals == {-1, 0, 2}
Tols == {<<0, 1>>, <<1, 8>>}
Inj(n) == {f \in [1..n -> Nodes] : \A a, b \in 1..n : a # b => f[a] # f[b]}
QS(f, n) == [j \in 1..n |-> Q(f[j])]
Probs == UNION { { [x |-> QS(f, n), y |-> QS(y, n), t |-> tl] : f \in Inj(n), y \in [1..n -> Vals], tl \in Tols } : n \in 1..NN }
         \cup { [x |-> <<Q(0), Q(1)>>, y |-> <<Q(1)>>, t |-> Q(0)], [x |-> <<>>, y |-> <<>>, t |-> Q(0)] }

Init == L!Init /\ prob \in Probs
Begin == L!Begin(prob.x, prob.y, prob.t) /\ UNCHANGED prob
Cell == L!Cell /\ UNCHANGED prob
Clean == L!Clean /\ UNCHANGED prob
Done == L!Done /\ UNCHANGED prob
Next == Begin \/ Cell \/ Clean \/ Done
Spec == Init /\ [][Next]_vars /\ WF_vars(Next)

RECURSIVE EvalP(_, _, _), SumPow(_, _, _)
EvalP(s, x, j) == IF j > Len(s) THEN Q(0) ELSE QAdd(s[j], QMul(x, EvalP(s, x, j + 1)))
SumPow(ax, j, m) == IF j > m THEN Q(0) ELSE QAdd(Q(1), QMul(ax, SumPow(ax, j + 1, m)))
n == Len(xs)
\* cells already filled: rows below r completely, row r up to column cc - 1 (while pc = "table"); all of them afterwards
Filled(i, j) == j <= i /\ (j = 1 \/ pc \in {"clean", "done"} \/ i < r \/ (i = r /\ j < cc))

EveryCellInterpolatesItsOwnPoints ==
  pc \in {"table", "clean", "done"} =>
    \A i \in 1..n : \A j \in 1..i : Filled(i, j) => \A k \in (i - j + 1)..i : EvalP(t[i][j], xs[k], 1) = ys[k]
DegreeBound == pc = "done" => Len(p) <= n
TakesEveryValue == pc = "done" => \A k \in 1..n : QLe(QAbs(QSub(EvalP(p, xs[k], 1), ys[k])), QMul(tol, SumPow(QAbs(xs[k]), 1, n)))
ErrExactlyForMismatch == pc = "err" <=> (pc # "idle" /\ Len(xs) # Len(ys))
PanicOnlyWithoutPoints == pc = "panic" <=> (pc # "idle" /\ Len(xs) = 0 /\ Len(ys) = 0)
Terminates == <>(pc \in {"done", "err", "panic"})
=============================================================================
