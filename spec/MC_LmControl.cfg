INIT Init
NEXT Next
CONSTANTS SearchCap = 3
INVARIANTS SearchBounded BlockAccounting OkOnlyAfterTheTest KeptOnlyInMain
CONSTRAINT Small
CHECK_DEADLOCK FALSE
