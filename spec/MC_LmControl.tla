----------------------------- MODULE MC_LmControl -----------------------------
(* E1 for the Levenberg-Marquardt control skeleton: every verdict sequence, search cap 3, up to 6 main passes. *)
EXTENDS LmControl
Small == km <= 6
=============================================================================
