SPECIFICATION Spec
INVARIANTS AffineSolvedExactly AffineNeedsAtMostTwoPasses SingularJacobianGivesErr OkMeansSmallStepOrExact TwoCallsPerPass
PROPERTY Terminates
CHECK_DEADLOCK FALSE
