------------------------------- MODULE MC_NewtonP -------------------------------
(***************************************************************************)
(* E1 for C08 (Newton): module NewtonP over exact rationals in one         *)
(* dimension, on f(x) = a (x - r) (one Newton step is exact: the second    *)
(* pass sees a zero step and returns r; a = 0 is a singular Jacobian: Err) *)
(* and on f(x) = x^2 - c (the iterates are the Babylonian ones; with cap 3 *)
(* either the step falls below the tolerance or the cap gives Err).        *)
(***************************************************************************)
EXTENDS Integers, Sequences, FiniteSets, TLC
VARIABLES pc, x, tol, nmax, n, nev, result, prob

RECURSIVE GcdN(_, _)
GcdN(a, b) == IF b = 0 THEN a ELSE GcdN(b, a % b)
AbsI(a) == IF a < 0 THEN -a ELSE a
Gcd(a, b) == GcdN(AbsI(a), AbsI(b))
Norm(p, q) == LET g == Gcd(p, q) s == IF q < 0 THEN -1 ELSE 1 IN IF p = 0 THEN <<0, 1>> ELSE <<s * (p \div g), s * (q \div g)>>
QAdd(p, q) == Norm(p[1] * q[2] + q[1] * p[2], p[2] * q[2])
QSub(p, q) == QAdd(p, <<-q[1], q[2]>>)
QMul(p, q) == Norm(p[1] * q[1], p[2] * q[2])
QDiv(p, q) == Norm(p[1] * q[2], p[2] * q[1])
QLe(p, q) == p[1] * q[2] <= q[1] * p[2]
QAbs(p) == IF p[1] < 0 THEN <<-p[1], p[2]>> ELSE p
QZero == <<0, 1>>

N == INSTANCE NewtonP WITH StepOk <- LAMBDA xx, f, j, xn : QMul(j, QSub(xn, xx)) = QSub(QZero, f),
                           Singular <- LAMBDA j : j = QZero,
                           StepSmall <- LAMBDA xx, xn, t : QLe(QAbs(QSub(xn, xx)), t), Zero <- QZero
vars == <<pc, x, tol, nmax, n, nev, result, prob>>

F(y) == IF prob.fam = "affine" THEN QMul(prob.a, QSub(y, prob.r)) ELSE QSub(QMul(y, y), prob.r)
J(y) == IF prob.fam = "affine" THEN prob.a ELSE QMul(<<2, 1>>, y)
Probs == { [fam |-> "affine", a |-> a, r |-> r, x0 |-> x0, t |-> t, nm |-> 4] :
             a \in {<<2, 1>>, <<-1, 3>>, <<0, 1>>}, r \in {<<0, 1>>, <<5, 2>>, <<-7, 1>>}, x0 \in {<<0, 1>>, <<3, 1>>, <<5, 2>>},
             t \in {<<1, 1000>>, <<0, 1>>} }
         \cup { [fam |-> "square", a |-> <<1, 1>>, r |-> c, x0 |-> x0, t |-> t, nm |-> 3] :
                  c \in {<<2, 1>>, <<9, 4>>}, x0 \in {<<1, 1>>, <<3, 2>>, <<0, 1>>}, t \in {<<1, 100>>, <<1, 100000>>} }

Init == N!Init /\ prob \in Probs
\* the exact Newton point (defined when the Jacobian is not singular)
NewtonPoint == QSub(x, QDiv(F(x), J(x)))
Begin == N!Begin(prob.x0, prob.t, prob.nm) /\ UNCHANGED prob
Iter == J(x) # QZero /\ N!Iter(F(x), J(x), NewtonPoint) /\ UNCHANGED prob
SolveFail == N!SolveFail(J(x)) /\ UNCHANGED prob
GiveUp == N!GiveUp /\ UNCHANGED prob
Done == N!Done /\ UNCHANGED prob
Next == Begin \/ Iter \/ SolveFail \/ GiveUp \/ Done
Spec == Init /\ [][Next]_vars /\ WF_vars(Next)

AffineSolvedExactly == (pc = "ok" /\ prob.fam = "affine") => result = prob.r
AffineNeedsAtMostTwoPasses == prob.fam = "affine" => n <= 1 /\ nev <= 4
SingularJacobianGivesErr == (prob.fam = "affine" /\ prob.a = QZero /\ pc \in {"ok", "err"}) => pc = "err"
OkMeansSmallStepOrExact == pc = "ok" => QLe(QAbs(QSub(result, x)), prob.t)
TwoCallsPerPass == pc = "run" => nev = 2 * n
Terminates == <>(pc \in {"ok", "err"})
=============================================================================
