INIT Init
NEXT Next
CONSTANTS MaxOps = 3
INVARIANTS NeverEmpty EditChangesOnePower PurgeAbsentIsNoop PurgeZeroes PurgeLeadingKeepsMap Commutes DegreeAdds DivExact DivRem Calculus
CHECK_DEADLOCK FALSE
