------------------------------- MODULE MC_Poly -------------------------------
(***************************************************************************)
(* E1: the coefficient-editing state machine of module Poly, explored over *)
(* all histories of <= MaxOps operations on small integer polynomials.     *)
(* Checks the sentences of C13 on the reference itself: an edit changes    *)
(* exactly the addressed power, purging an absent power changes nothing,   *)
(* the vector is never empty; and ring laws of the reference algebra       *)
(* (commutativity, degree of a product, division reconstruction), so that  *)
(* the oracle used against the code is itself checked.                     *)
(***************************************************************************)
EXTENDS Integers, Sequences, FiniteSets, TLC, F64, Poly
CONSTANTS MaxOps
VARIABLES p, n, lastop
vars == <<p, n, lastop>>
I(v) == COfInts(v, 0)
Init == p \in {<<I(0)>>, <<I(1), I(2)>>, <<I(0), I(0), I(3)>>} /\ n = 0 /\ lastop = [op |-> "init", k |-> 0, before |-> <<I(0)>>]
Set(k, c) == n < MaxOps /\ p' = SetCoef(p, k, c) /\ n' = n + 1 /\ lastop' = [op |-> "set", k |-> k, before |-> p]
Purge(k) == n < MaxOps /\ p' = PurgeCoef(p, k) /\ n' = n + 1 /\ lastop' = [op |-> "purge", k |-> k, before |-> p]
PurgeL == n < MaxOps /\ p' = PurgeLeadingT(p, FOfDec("1e-10")) /\ n' = n + 1 /\ lastop' = [op |-> "pl", k |-> 0, before |-> p]
AddP(q) == n < MaxOps /\ p' = PAdd(p, q) /\ n' = n + 1 /\ lastop' = [op |-> "add", k |-> 0, before |-> p]
MulS(c) == n < MaxOps /\ p' = PScale(c, p) /\ n' = n + 1 /\ lastop' = [op |-> "muls", k |-> 0, before |-> p]
Next == \/ \E k \in 0..4, c \in {I(0), I(3)} : Set(k, c)
        \/ \E k \in 0..5 : Purge(k)
        \/ PurgeL
        \/ \E q \in {<<I(1), I(-1)>>, <<I(0), I(0), I(-3)>>} : AddP(q)
        \/ \E c \in {I(2), I(0)} : MulS(c)

NeverEmpty == Len(p) >= 1
EditChangesOnePower ==
  lastop.op \in {"set", "purge"} =>
    \A j \in 1..(MaxLen(p, lastop.before) + 1) : j # lastop.k + 1 => At(p, j) = At(lastop.before, j)
PurgeAbsentIsNoop == (lastop.op = "purge" /\ lastop.k + 1 > Len(lastop.before)) => p = lastop.before
PurgeZeroes == (lastop.op = "purge" /\ lastop.k + 1 <= Len(lastop.before)) => At(p, lastop.k + 1) = C0
PurgeLeadingKeepsMap == lastop.op = "pl" => SameMap(p, lastop.before)
\* ring laws of the reference on the current state and a fixed partner
Q == <<I(2), I(-1), I(1)>>
Commutes == SameMap(Conv(p, Q), Conv(Q, p))
DegreeAdds == (~IsZeroPoly(p)) => Deg(Conv(p, Q)) = Deg(p) + Deg(Q)
DivExact == LET dm == DivMod(Conv(p, Q), Q) IN SameMap(dm.q, p) /\ IsZeroPoly(dm.r)
DivRem == LET dm == DivMod(PAdd(Conv(p, Q), <<I(1), I(1)>>), Q) IN SameMap(dm.q, p) /\ SameMap(dm.r, <<I(1), I(1)>>)
Calculus == FLe(PDist(PDeriv(PAnti(p, I(7))), p), FMul(FOfInt(8), FMul(FEps, FAdd(F1, MaxCoef(p)))))
=============================================================================
