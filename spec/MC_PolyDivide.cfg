SPECIFICATION Spec
CONSTANTS
  NA = 3
  ND = 3
  Coefs <- CoefsQuick
  Tols <- TolsAll
  Defects = {}
INVARIANTS ResidualWithinTolerance RemainderDegreeBelowDivisor PassesBounded ErrExactlyForNegligibleConstantDivisor
PROPERTY Terminates
CHECK_DEADLOCK FALSE
