---------------------------- MODULE MC_PolyDivide ----------------------------
(***************************************************************************)
(* E1 for C12: module PolyDivide over exact rationals, for every dividend  *)
(* of length <= NA and divisor of length <= ND with coefficients in Coefs  *)
(* (divisors of length >= 2 have a non-zero leading coefficient, as the    *)
(* property requires) and every tolerance in Tols - among them zero.       *)
(*                                                                         *)
(*  - ResidualWithinTolerance: dividend - quotient x divisor - remainder   *)
(*    has every coefficient <= tol in magnitude after every pass (each     *)
(*    power is dropped at most once, and only when below the tolerance):   *)
(*    with tol = 0 the Euclidean identity is exact                         *)
(*  - RemainderDegreeBelowDivisor at the end                               *)
(*  - PassesBounded: at most len(dividend) passes - the property that the  *)
(*    code before the repair breaks at tol = 0 (MC_PolyDivide_defect.cfg)  *)
(*  - Terminates (liveness, weak fairness)                                 *)
(***************************************************************************)
EXTENDS Integers, Sequences, FiniteSets, TLC
CONSTANTS NA, ND, Coefs, Tols, Defects
VARIABLES pc, a, d, tol, q, r, steps, prob

RECURSIVE GcdN(_, _)
GcdN(x, y) == IF y = 0 THEN x ELSE GcdN(y, x % y)
AbsI(x) == IF x < 0 THEN -x ELSE x
Norm(p, s) == LET g == GcdN(AbsI(p), AbsI(s)) sg == IF s < 0 THEN -1 ELSE 1 IN IF p = 0 THEN <<0, 1>> ELSE <<sg * (p \div g), sg * (s \div g)>>
QAdd(x, y) == Norm(x[1] * y[2] + y[1] * x[2], x[2] * y[2])
QSub(x, y) == QAdd(x, <<-y[1], y[2]>>)
QMul(x, y) == Norm(x[1] * y[1], x[2] * y[2])
QDiv(x, y) == Norm(x[1] * y[2], x[2] * y[1])
QLe(x, y) == x[1] * y[2] <= y[1] * x[2]
QLt(x, y) == x[1] * y[2] < y[1] * x[2]
QAbs(x) == IF x[1] < 0 THEN <<-x[1], x[2]>> ELSE x
Q0 == <<0, 1>>

P == INSTANCE PolyDivide WITH Add <- QAdd, Sub <- QSub, Mul <- QMul, Div <- QDiv,
       Small <- LAMBDA c, t : QLt(QAbs(c), t), SmallLe <- LAMBDA c, t : QLe(QAbs(c), t),
       Zero <- Q0, One <- <<1, 1>>, TolZero <- Q0
vars == <<pc, a, d, tol, q, r, steps, prob>>

SeqsUpTo(n) == UNION {[1..m -> Coefs] : m \in 1..n}
Probs == { [a |-> [k \in 1..Len(x) |-> <<x[k], 1>>], d |-> [k \in 1..Len(y) |-> <<y[k], 1>>], t |-> t] :
             x \in SeqsUpTo(NA), y \in {z \in SeqsUpTo(ND) : Len(z) = 1 \/ z[Len(z)] # 0}, t \in Tols }

Init == P!Init /\ prob \in Probs
Begin == P!Begin(prob.a, prob.d, prob.t) /\ UNCHANGED prob
Pass == P!Pass /\ UNCHANGED prob
Exit == P!Exit /\ UNCHANGED prob
Done == P!Done /\ UNCHANGED prob
Next == Begin \/ Pass \/ Exit \/ Done
Spec == Init /\ [][Next]_vars /\ WF_vars(Next)

At(p, k) == IF k >= 1 /\ k <= Len(p) THEN p[k] ELSE Q0
RECURSIVE ConvAt(_, _, _, _)
ConvAt(p, s, k, i) == IF i > Len(p) THEN Q0 ELSE QAdd(QMul(p[i], At(s, k - i + 1)), ConvAt(p, s, k, i + 1))
Residual(k) == QSub(QSub(At(a, k), ConvAt(q, d, k, 1)), At(r, k))
MaxLen == Len(a) + Len(q) + Len(d)

ResidualWithinTolerance == pc \in {"loop", "done"} => \A k \in 1..MaxLen : QLe(QAbs(Residual(k)), tol)
RemainderDegreeBelowDivisor == pc = "done" => (Len(r) < Len(d) \/ (Len(r) = 1 /\ QLe(QAbs(r[1]), tol)))
PassesBounded == steps <= Len(a)
ErrExactlyForNegligibleConstantDivisor == pc = "err" <=> (pc # "idle" /\ Len(d) = 1 /\ QLe(QAbs(d[1]), tol))
Terminates == <>(pc \in {"done", "err"})
\* constant families (the configuration file cannot write negative numbers or tuples)
CoefsQuick == {-2, -1, 0, 1, 3}
CoefsSmall == {-1, 0, 1, 2}
TolsAll == {<<0, 1>>, <<1, 2>>, <<3, 2>>}
TolsZero == {<<0, 1>>}
StepsSmall == steps <= 8
=============================================================================
