SPECIFICATION Spec
CONSTANTS
  NA = 3
  ND = 2
  Coefs <- CoefsSmall
  Tols <- TolsZero
  Defects = {"cancelled_term_kept_unless_below_tolerance"}
INVARIANTS PassesBounded
CONSTRAINT StepsSmall
CHECK_DEADLOCK FALSE
