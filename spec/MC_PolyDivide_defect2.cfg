SPECIFICATION Spec
CONSTANTS
  NA = 2
  ND = 2
  Coefs <- CoefsSmall
  Tols <- TolsZero
  Defects = {"zero_divisor_test_strict"}
INVARIANTS ErrExactlyForNegligibleConstantDivisor
CHECK_DEADLOCK FALSE
