SPECIFICATION Spec
INVARIANTS ExactOnLowDegrees DegreeOfExactnessIsSharp EvaluationCount AbscissaeInside ErrIffNoInterval
PROPERTY Terminates
CHECK_DEADLOCK FALSE
