------------------------------ MODULE MC_RombergP ------------------------------
(***************************************************************************)
(* E1 for C09 (Romberg): module RombergP over exact rationals (normalised  *)
(* pairs of TLC integers).  For every interval of a small catalogue, every *)
(* n <= 4 and every monomial x^deg, deg <= 2n:  the result is the exact    *)
(* integral when deg <= 2n-1 (n >= 2; one row is the trapezoid rule, exact *)
(* to degree 1), it is NOT exact for deg = 2n (the degree of exactness is  *)
(* sharp), 2^(n-1) + 1 evaluations are spent, and all abscissae lie in the *)
(* interval.                                                               *)
(***************************************************************************)
EXTENDS Integers, Sequences, FiniteSets, TLC
VARIABLES pc, a0, nrows, h, prev, i, nev, result, prob, inside

RECURSIVE Gcd(_, _)
Gcd(a, b) == IF b = 0 THEN (IF a < 0 THEN -a ELSE a) ELSE Gcd(b, a % b)
Norm(n, d) == LET g == Gcd(n, d) s == IF d < 0 THEN -1 ELSE 1 IN IF n = 0 THEN <<0, 1>> ELSE <<s * (n \div g), s * (d \div g)>>
QAdd(p, q) == LET g == Gcd(p[2], q[2]) IN Norm(p[1] * (q[2] \div g) + q[1] * (p[2] \div g), (p[2] \div g) * q[2])
QSub(p, q) == QAdd(p, <<-q[1], q[2]>>)
QMul(p, q) == Norm(p[1] * q[1], p[2] * q[2])
QDiv(p, q) == Norm(p[1] * q[2], p[2] * q[1])
QLt(p, q) == p[1] * q[2] < q[1] * p[2]
QI(n) == <<n, 1>>
RECURSIVE QPow(_, _)
QPow(x, k) == IF k = 0 THEN QI(1) ELSE QMul(x, QPow(x, k - 1))

R == INSTANCE RombergP WITH Add <- QAdd, Sub <- QSub, Mul <- QMul, Div <- QDiv, Lt <- QLt, OfInt <- QI,
                            HalfOdd <- LAMBDA k : <<2 * k - 1, 2>>, Half <- <<1, 2>>, Zero <- <<0, 1>>
vars == <<pc, a0, nrows, h, prev, i, nev, result, prob, inside>>

F(x) == QPow(x, prob.deg)
\* (rationals are pairs of 32-bit TLC integers: the larger cases are kept to the intervals with small denominators)
Probs == { [a |-> ab[1], b |-> ab[2], n |-> n, deg |-> d] :
             ab \in {<<QI(0), QI(1)>>, <<QI(-1), QI(1)>>, <<QI(1), QI(0)>>, <<QI(1), QI(1)>>}, n \in 1..4, d \in 0..8 }
         \cup { [a |-> QI(-1), b |-> QI(2), n |-> n, deg |-> d] : n \in 1..3, d \in 0..6 }
         \cup { [a |-> <<1, 2>>, b |-> QI(2), n |-> n, deg |-> d] : n \in 1..3, d \in 0..5 }
Exact(a, b, deg) == QDiv(QSub(QPow(b, deg + 1), QPow(a, deg + 1)), QI(deg + 1))
ExactUpTo(n) == IF n = 1 THEN 1 ELSE 2 * n - 1

Init == R!Init /\ prob \in {p \in Probs : p.deg <= 2 * p.n} /\ inside = TRUE
\* (named disjuncts: TLC then reports how often each was taken - the vacuity guard of the check reads that)
Begin == R!Begin(prob.a, prob.b, prob.n, F(prob.a), F(prob.b)) /\ UNCHANGED <<prob, inside>>
RowStep == /\ R!RowStep([k \in 1..Len(R!RowAbscissae) |-> F(R!RowAbscissae[k])])
           /\ inside' = (inside /\ \A k \in 1..Len(R!RowAbscissae) : QLt(prob.a, R!RowAbscissae[k]) /\ QLt(R!RowAbscissae[k], prob.b))
           /\ UNCHANGED prob
Finish == R!Finish /\ UNCHANGED <<prob, inside>>
Done == R!Done /\ UNCHANGED <<prob, inside>>
Next == Begin \/ RowStep \/ Finish \/ Done
Spec == Init /\ [][Next]_vars /\ WF_vars(Next)

ExactOnLowDegrees == (pc = "ok" /\ prob.deg <= ExactUpTo(prob.n)) => result = Exact(prob.a, prob.b, prob.deg)
DegreeOfExactnessIsSharp == (pc = "ok" /\ prob.n >= 2 /\ prob.deg = 2 * prob.n) => result # Exact(prob.a, prob.b, prob.deg)
EvaluationCount == pc = "ok" => nev = R!Pow(2, prob.n - 1) + 1
AbscissaeInside == inside
ErrIffNoInterval == (pc = "err") <=> (pc # "idle" /\ ~QLt(prob.a, prob.b))
Terminates == <>(pc \in {"ok", "err"})
=============================================================================
