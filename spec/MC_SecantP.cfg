SPECIFICATION Spec
INVARIANTS AffineSolvedExactly AffineNeedsAtMostOneLoopPass SingularSlopeGivesErr
PROPERTY Terminates
CHECK_DEADLOCK FALSE
