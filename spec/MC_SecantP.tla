------------------------------- MODULE MC_SecantP -------------------------------
(***************************************************************************)
(* E1 for C08 (secant / Broyden): module SecantP over exact rationals in   *)
(* one dimension, where the Broyden matrix is the secant slope.  On        *)
(* f(x) = a (x - r) the finite-difference slope is exact, the first step   *)
(* lands on r, and the loop returns r after at most one more evaluation;   *)
(* a = 0 gives Err (singular); on f(x) = x^2 - c the steps are the classic *)
(* secant steps, under a cap.                                              *)
(***************************************************************************)
EXTENDS Integers, Sequences, FiniteSets, TLC
VARIABLES pc, x, fx, B, s, tol, nmax, n, nev, result, prob

RECURSIVE GcdN(_, _)
GcdN(a, b) == IF b = 0 THEN a ELSE GcdN(b, a % b)
AbsI(a) == IF a < 0 THEN -a ELSE a
Gcd(a, b) == GcdN(AbsI(a), AbsI(b))
Norm(p, q) == LET g == Gcd(p, q) sg == IF q < 0 THEN -1 ELSE 1 IN IF p = 0 THEN <<0, 1>> ELSE <<sg * (p \div g), sg * (q \div g)>>
QAdd(p, q) == Norm(p[1] * q[2] + q[1] * p[2], p[2] * q[2])
QSub(p, q) == QAdd(p, <<-q[1], q[2]>>)
QMul(p, q) == Norm(p[1] * q[1], p[2] * q[2])
QDiv(p, q) == Norm(p[1] * q[2], p[2] * q[1])
QLe(p, q) == p[1] * q[2] <= q[1] * p[2]
QAbs(p) == IF p[1] < 0 THEN <<-p[1], p[2]>> ELSE p
QZero == <<0, 1>>

\* one dimension: B + (y - B s) s / (s s) = y / s
P == INSTANCE SecantP WITH StepOk <- LAMBDA b, xx, f, xn : QMul(b, QSub(xn, xx)) = QSub(QZero, f),
                           Update <- LAMBDA b, fo, fn, st : IF st = QZero THEN b ELSE QDiv(QSub(fn, fo), st),
                           Singular <- LAMBDA b : b = QZero,
                           StepSmall <- LAMBDA xx, xn, t : QLe(QAbs(QSub(xn, xx)), t), Zero <- QZero
vars == <<pc, x, fx, B, s, tol, nmax, n, nev, result, prob>>

F(y) == IF prob.fam = "affine" THEN QMul(prob.a, QSub(y, prob.r)) ELSE QSub(QMul(y, y), prob.r)
Fd(y) == QDiv(QSub(F(QAdd(y, prob.h)), F(QSub(y, prob.h))), QMul(<<2, 1>>, prob.h))
Probs == { [fam |-> "affine", a |-> a, r |-> r, x0 |-> x0, t |-> t, h |-> <<1, 10>>, nm |-> 5] :
             a \in {<<2, 1>>, <<-1, 3>>, <<0, 1>>}, r \in {<<0, 1>>, <<5, 2>>}, x0 \in {<<0, 1>>, <<3, 1>>, <<5, 2>>},
             t \in {<<1, 1000>>, <<0, 1>>} }
         \cup { [fam |-> "square", a |-> <<1, 1>>, r |-> c, x0 |-> x0, t |-> t, h |-> <<1, 2>>, nm |-> 3] :
                  c \in {<<2, 1>>, <<9, 4>>}, x0 \in {<<1, 1>>, <<3, 2>>}, t \in {<<1, 100>>, <<1, 100000>>} }

Init == P!Init /\ prob \in Probs
Step(b, xx, f) == QSub(xx, QDiv(f, b))          \* the point with b (xn - xx) = -f
Begin == LET j0 == Fd(prob.x0)
             x1 == IF j0 = QZero THEN prob.x0 ELSE Step(j0, prob.x0, F(prob.x0))
         IN P!Begin(prob.x0, prob.t, prob.nm, F(prob.x0), j0, 2, x1, QSub(x1, prob.x0)) /\ UNCHANGED prob
Iter == LET bn == IF s = QZero THEN B ELSE QDiv(QSub(F(x), fx), s) IN
        bn # QZero /\ P!Iter(F(x), Step(bn, x, F(x)), QSub(Step(bn, x, F(x)), x)) /\ UNCHANGED prob
GiveUp == P!GiveUp /\ UNCHANGED prob
Done == P!Done /\ UNCHANGED prob
Next == Begin \/ Iter \/ GiveUp \/ Done
Spec == Init /\ [][Next]_vars /\ WF_vars(Next)

AffineSolvedExactly == (pc = "ok" /\ prob.fam = "affine") => result = prob.r
AffineNeedsAtMostOneLoopPass == prob.fam = "affine" => nev <= 4
SingularSlopeGivesErr == (prob.fam = "affine" /\ prob.a = QZero /\ pc \in {"ok", "err"}) => pc = "err"
Terminates == <>(pc \in {"ok", "err"})
=============================================================================
