INIT Init
NEXT Next
CONSTANTS
  MaxLevel = 3
  StaleLeftEstimate = FALSE
INVARIANTS Disjoint Covers AcceptedPartitionAtEnd OwnEstimate LevelBounded
CHECK_DEADLOCK FALSE
