SPECIFICATION Spec
CONSTANTS
  NK = 3
  Defects = {}
INVARIANTS PassesThroughEveryDataPoint SlopeContinuous CurvatureContinuous EndConditions PivotsPositive
PROPERTY Terminates
CHECK_DEADLOCK FALSE
