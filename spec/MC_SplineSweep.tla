---------------------------- MODULE MC_SplineSweep ----------------------------
(***************************************************************************)
(* E1 for C16: module SplineSweep over exact rationals, for every knot     *)
(* vector with 2..NK knots and integer spacings in Gaps, every vector of   *)
(* integer ordinates in Vals, both kinds, end slopes in Slopes.  What the  *)
(* two sweeps leave is the spline of the statement:                        *)
(*  - every piece ends on the next data point                              *)
(*  - slope and curvature are continuous at every interior knot            *)
(*  - free: zero curvature at both ends; clamped: the prescribed slopes    *)
(*  - no pivot of the forward sweep vanishes (strict diagonal dominance)   *)
(* all exactly.                                                            *)
(***************************************************************************)
EXTENDS Integers, Sequences, FiniteSets, TLC
CONSTANTS NK, Defects
VARIABLES pc, kind, xs, ys, f0, fn, k, al, l, mu, z, c, b, d, prob

RECURSIVE GcdN(_, _)
GcdN(x, y) == IF y = 0 THEN x ELSE GcdN(y, x % y)
AbsI(x) == IF x < 0 THEN -x ELSE x
Norm(p, s) == LET g == GcdN(AbsI(p), AbsI(s)) sg == IF s < 0 THEN -1 ELSE 1 IN IF p = 0 THEN <<0, 1>> ELSE <<sg * (p \div g), sg * (s \div g)>>
QAdd(x, y) == Norm(x[1] * y[2] + y[1] * x[2], x[2] * y[2])
QSub(x, y) == QAdd(x, <<-y[1], y[2]>>)
QMul(x, y) == Norm(x[1] * y[1], x[2] * y[2])
QDiv(x, y) == Norm(x[1] * y[2], x[2] * y[1])
Q(n) == <<n, 1>>

S == INSTANCE SplineSweep WITH Add <- QAdd, Sub <- QSub, Mul <- QMul, Div <- QDiv, Zero <- Q(0), One <- Q(1), Two <- Q(2),
       Three <- Q(3), Third <- <<1, 3>>, Half <- <<1, 2>>, Defects <- Defects
vars == <<pc, kind, xs, ys, f0, fn, k, al, l, mu, z, c, b, d, prob>>

Gaps == {1, 2, 3}
Vals == {-1, 0, 2}
Slopes == {-1, 0, 2}
RECURSIVE Knots(_, _)
Knots(g, j) == IF j = 0 THEN <<-1>> ELSE LET p == Knots(g, j - 1) IN Append(p, p[j] + g[j])
Mk(kd, nn, g, y, s0, sn) == [kind |-> kd, xs |-> [j \in 1..nn |-> Q(Knots(g, nn - 1)[j])], ys |-> [j \in 1..nn |-> Q(y[j])], f0 |-> Q(s0), fn |-> Q(sn)]
Probs == UNION { { Mk("free", nn, g, y, 0, 0) : g \in [1..(nn - 1) -> Gaps], y \in [1..nn -> Vals] }
                 \cup { Mk("clamped", nn, g, y, s0, sn) : g \in [1..(nn - 1) -> Gaps], y \in [1..nn -> Vals], s0 \in Slopes, sn \in Slopes }
                 : nn \in 2..NK }

Init == S!Init /\ prob \in Probs
Begin == S!Begin(prob.kind, prob.xs, prob.ys, prob.f0, prob.fn) /\ UNCHANGED prob
Forward == S!Forward /\ UNCHANGED prob
Close == S!Close /\ UNCHANGED prob
Back == S!Back /\ UNCHANGED prob
Done == S!Done /\ UNCHANGED prob
Next == Begin \/ Forward \/ Close \/ Back \/ Done
Spec == Init /\ [][Next]_vars /\ WF_vars(Next)

n == Len(xs)
h(j) == QSub(xs[j + 1], xs[j])
ValEnd(j) == QAdd(ys[j], QMul(h(j), QAdd(b[j], QMul(h(j), QAdd(c[j], QMul(h(j), d[j]))))))
SlopeEnd(j) == QAdd(b[j], QMul(h(j), QAdd(QMul(Q(2), c[j]), QMul(QMul(Q(3), d[j]), h(j)))))
CurvEnd(j) == QAdd(c[j], QMul(QMul(Q(3), d[j]), h(j)))          \* half the second derivative at the right end

PassesThroughEveryDataPoint == pc = "done" => \A j \in 1..(n - 1) : ValEnd(j) = ys[j + 1]
SlopeContinuous == pc = "done" => \A j \in 1..(n - 2) : SlopeEnd(j) = b[j + 1]
CurvatureContinuous == pc = "done" => \A j \in 1..(n - 1) : CurvEnd(j) = c[j + 1]
EndConditions == pc = "done" => IF kind = "free" THEN c[1] = Q(0) /\ c[n] = Q(0)
                                 ELSE b[1] = f0 /\ SlopeEnd(n - 1) = fn
PivotsPositive == \A j \in 1..Len(l) : l[j][1] > 0
Terminates == <>(pc = "done")
=============================================================================
