SPECIFICATION Spec
CONSTANTS
  NK = 3
  Defects = {"sweep_uses_the_row_s_own_interval"}
INVARIANTS PassesThroughEveryDataPoint SlopeContinuous CurvatureContinuous EndConditions
CHECK_DEADLOCK FALSE
