SPECIFICATION Spec
CONSTANTS
  NK = 4
  Defects = {}
INVARIANTS PassesThroughEveryDataPoint SlopeContinuous CurvatureContinuous EndConditions PivotsPositive
PROPERTY Terminates
CHECK_DEADLOCK FALSE
