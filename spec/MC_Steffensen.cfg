SPECIFICATION Spec
INVARIANTS ReturnsTheFixedPointWithinTolerance ExactAfterOneAitkenStep AtMostThreeEvaluations NeverErrOnAffineMaps
PROPERTY Terminates
CHECK_DEADLOCK FALSE
