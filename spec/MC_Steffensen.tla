----------------------------- MODULE MC_Steffensen -----------------------------
(***************************************************************************)
(* E1 for C08 (Steffensen): module Steffensen over exact rationals on      *)
(* affine maps g(x) = s x + c (s # 1).  Aitken's formula is exact on them: *)
(* the first pass moves to the fixed point c / (1 - s), the second pass    *)
(* sees |g(x) - x| = 0 <= tol and returns it - for every slope, intercept, *)
(* start and tolerance of the catalogue, with three evaluations of g; a    *)
(* start that already is within tol of its image returns after one.        *)
(* (Over the doubles the second pass works on differences of a few ulps:   *)
(* that is where the guard `|guess - x| <= tol` matters, see the seeded    *)
(* change r2-C08-C.)                                                       *)
(***************************************************************************)
EXTENDS Integers, Sequences, FiniteSets, TLC
VARIABLES pc, x, tol, nmax, n, nev, result, prob

RECURSIVE GcdN(_, _)
GcdN(a, b) == IF b = 0 THEN a ELSE GcdN(b, a % b)
AbsI(a) == IF a < 0 THEN -a ELSE a
Gcd(a, b) == GcdN(AbsI(a), AbsI(b))
Norm(p, q) == LET g == Gcd(p, q) s == IF q < 0 THEN -1 ELSE 1 IN IF p = 0 THEN <<0, 1>> ELSE <<s * (p \div g), s * (q \div g)>>
QAdd(p, q) == Norm(p[1] * q[2] + q[1] * p[2], p[2] * q[2])
QSub(p, q) == QAdd(p, <<-q[1], q[2]>>)
QMul(p, q) == Norm(p[1] * q[1], p[2] * q[2])
QDiv(p, q) == Norm(p[1] * q[2], p[2] * q[1])
QLe(p, q) == p[1] * q[2] <= q[1] * p[2]
QAbs(p) == IF p[1] < 0 THEN <<-p[1], p[2]>> ELSE p

S == INSTANCE Steffensen WITH Add <- QAdd, Sub <- QSub, Mul <- QMul, Div <- QDiv, Le <- QLe, AbsV <- QAbs, Two <- <<2, 1>>, Zero <- <<0, 1>>
vars == <<pc, x, tol, nmax, n, nev, result, prob>>

G(y) == QAdd(QMul(prob.s, y), prob.c)
Fixed == QDiv(prob.c, QSub(<<1, 1>>, prob.s))
Probs == { [s |-> s, c |-> c, x0 |-> x0, t |-> t] :
             s \in {<<1, 2>>, <<3, 4>>, <<-1, 2>>, <<9, 10>>, <<-9, 10>>, <<0, 1>>, <<2, 1>>, <<-3, 1>>},
             c \in {<<1, 1>>, <<-3, 2>>, <<0, 1>>},
             x0 \in {<<0, 1>>, <<5, 1>>, <<-7, 3>>, <<2, 1>>},
             t \in {<<1, 1000>>, <<1, 1000000>>, <<0, 1>>} }

Init == S!Init /\ prob \in Probs
\* (named disjuncts: TLC then reports how often each was taken - the vacuity guard of the check reads that)
Begin == S!Begin(prob.x0, prob.t, 5) /\ UNCHANGED prob
Pass == S!Pass(G(x), LAMBDA y : G(y)) /\ UNCHANGED prob
GiveUp == S!GiveUp /\ UNCHANGED prob
Done == S!Done /\ UNCHANGED prob
Next == Begin \/ Pass \/ GiveUp \/ Done
Spec == Init /\ [][Next]_vars /\ WF_vars(Next)

ReturnsTheFixedPointWithinTolerance == pc = "ok" => QLe(QAbs(QSub(result, Fixed)), prob.t) \/ QLe(QAbs(QSub(G(result), result)), prob.t)
ExactAfterOneAitkenStep == (pc = "run" /\ n >= 1) => x = Fixed
AtMostThreeEvaluations == nev <= 3
NeverErrOnAffineMaps == pc # "err"
Terminates == <>(pc = "ok")
=============================================================================
