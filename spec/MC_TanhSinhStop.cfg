INIT Init
NEXT Next
CONSTANTS N = 7
          TolPositive = TRUE
INVARIANTS NeverBeforeThirdLevel ReturnsFirstQualifyingLevel ErrOnlyWithoutQualifyingLevel NoEarlyErr
CHECK_DEADLOCK FALSE
