--------------------------- MODULE MC_TanhSinhStop ---------------------------
(* E1 for the tanh-sinh stopping logic: every pair of verdict sequences over N levels. *)
EXTENDS TanhSinhStop

\* the first level >= 3 with a zero delta or a small estimate, 0 if none
RECURSIVE First(_)
First(j) == IF j > N THEN 0 ELSE IF j >= 3 /\ (zero[j] \/ small[j]) THEN j ELSE First(j + 1)
ReturnsFirstQualifyingLevel == stat = "ok" => result = First(1)
ErrOnlyWithoutQualifyingLevel ==
  stat = "err" => (First(1) = 0 \/ (~TolPositive /\ zero[First(1)]))
NoEarlyErr == (stat = "run" /\ k = N) => First(1) = 0
=============================================================================
