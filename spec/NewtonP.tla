-------------------------------- MODULE NewtonP --------------------------------
(***************************************************************************)
(* Design model of roots::newton as it stands in the tree (C08), over an   *)
(* abstract field / vector space, one action per pass of its loop:         *)
(*    F = f(x);  J = jac(x);  solve J d = -F  (Err when the factorisation  *)
(*    meets a zero pivot);  x_new = x + d;                                 *)
(*    if |d| <= tol  return x_new;   x := x_new                            *)
(* Err after n_max passes.  The linear solve is abstracted to its          *)
(* specification: any x_new for which the Newton equation holds            *)
(* (StepOk: J (x_new - x) = -F, exactly over the rationals, up to the      *)
(* backward error of an LU solve over the doubles) is admitted.  The       *)
(* values F, J and the new point are parameters of the action.             *)
(* Instantiated over exact rationals in one dimension (MC_NewtonP) and     *)
(* over IEEE doubles in dimensions 1-3 (Trace_Newton: the closure calls    *)
(* of every real newton() run).                                            *)
(***************************************************************************)
EXTENDS Integers, Sequences

CONSTANTS StepOk(_, _, _, _),     \* StepOk(x, F, J, xnew): the Newton equation J (xnew - x) = -F
          Singular(_),            \* Singular(J): the factorisation of J meets a zero pivot
          StepSmall(_, _, _),     \* StepSmall(x, xnew, tol): |xnew - x| <= tol
          Zero

VARIABLES pc, x, tol, nmax, n, nev, result
vars == <<pc, x, tol, nmax, n, nev, result>>
(* pc : "idle" | "run" | "ok" | "err";  x : the current iterate;  n : passes completed;  nev : closure calls so far *)

Init == pc = "idle" /\ x = Zero /\ tol = Zero /\ nmax = 0 /\ n = 0 /\ nev = 0 /\ result = Zero

Begin(x0, t, nm) == /\ pc = "idle" /\ pc' = "run" /\ x' = x0 /\ tol' = t /\ nmax' = nm /\ n' = 0 /\ nev' = 0 /\ result' = result

Iter(fx, jx, xn) ==
  /\ pc = "run" /\ n < nmax /\ ~Singular(jx) /\ StepOk(x, fx, jx, xn)
  /\ nev' = nev + 2
  /\ IF StepSmall(x, xn, tol) THEN pc' = "ok" /\ result' = xn /\ UNCHANGED <<x, n>>
                              ELSE x' = xn /\ n' = n + 1 /\ UNCHANGED <<pc, result>>
  /\ UNCHANGED <<tol, nmax>>

SolveFail(jx) == /\ pc = "run" /\ n < nmax /\ Singular(jx)
                 /\ pc' = "err" /\ nev' = nev + 2 /\ UNCHANGED <<x, tol, nmax, n, result>>
GiveUp == pc = "run" /\ n >= nmax /\ pc' = "err" /\ UNCHANGED <<x, tol, nmax, n, nev, result>>
Done == pc \in {"ok", "err"} /\ UNCHANGED vars
=============================================================================
