----------------------------- MODULE OrthoPoly -----------------------------
(***************************************************************************)
(* Closed-form coefficients of the classical orthogonal polynomials, as an *)
(* executable reference (C18).  Integers are carried in F64, where every   *)
(* integer below 2^53 is exact, because TLC's own integers are 32-bit and  *)
(* C(40,20), 20!/10! ... overflow them.  Every intermediate below is an    *)
(* integer < 2^53 for n <= 20, so products and the divisions that are      *)
(* known to be exact are exact.                                            *)
(*                                                                         *)
(* A polynomial is its ascending coefficient sequence c[1] = x^0 ...       *)
(***************************************************************************)
EXTENDS Integers, Sequences, F64

RECURSIVE BinomF(_, _), ProdF(_, _), Pow2F(_)
\* C(n,k) = C(n-1,k-1) * n / k ; the division is exact
BinomF(n, k) == IF k < 0 \/ k > n THEN F0
                ELSE IF k = 0 THEN F1
                ELSE FDiv(FMul(BinomF(n - 1, k - 1), FOfInt(n)), FOfInt(k))
\* a * (a+1) * ... * b   (1 when a > b)
ProdF(a, b) == IF a > b THEN F1 ELSE FMul(ProdF(a, b - 1), FOfInt(b))
FactF(n) == ProdF(1, n)
Pow2F(e) == FScale(1, e)
Sgn(k) == IF k % 2 = 0 THEN F1 ELSE FNeg(F1)

\* coefficient of x^j, j \in 0..n
LegendreCoef(n, j) ==
  IF (n - j) % 2 # 0 THEN F0
  ELSE LET k == (n - j) \div 2
       IN FMul(Sgn(k), FMul(FMul(BinomF(n, k), BinomF(2 * n - 2 * k, n)), Pow2F(-n)))

\* physicists' Hermite: (-1)^k n! / (k! (n-2k)!) 2^(n-2k) = (-1)^k C(n,2k) (2k)!/k! 2^(n-2k)
HermiteCoef(n, j) ==
  IF (n - j) % 2 # 0 THEN F0
  ELSE LET k == (n - j) \div 2
       IN FMul(Sgn(k), FMul(FMul(BinomF(n, 2 * k), ProdF(k + 1, 2 * k)), Pow2F(n - 2 * k)))

\* Laguerre: (-1)^j C(n,j) / j!     (not dyadic: one correctly rounded division)
LaguerreCoef(n, j) == FMul(Sgn(j), FDiv(BinomF(n, j), FactF(j)))

\* Chebyshev T_n, n >= 1: (-1)^k n/(n-k) C(n-k,k) 2^(n-2k-1); the product n*C(n-k,k) is
\* divisible by n-k
ChebTCoef(n, j) ==
  IF n = 0 THEN (IF j = 0 THEN F1 ELSE F0)
  ELSE IF (n - j) % 2 # 0 THEN F0
  ELSE LET k == (n - j) \div 2
       IN FMul(Sgn(k), FMul(FDiv(FMul(FOfInt(n), BinomF(n - k, k)), FOfInt(n - k)), Pow2F(n - 2 * k - 1)))

\* Chebyshev U_n: (-1)^k C(n-k,k) 2^(n-2k)
ChebUCoef(n, j) ==
  IF (n - j) % 2 # 0 THEN F0
  ELSE LET k == (n - j) \div 2
       IN FMul(Sgn(k), FMul(BinomF(n - k, k), Pow2F(n - 2 * k)))

Coef(fam, n, j) ==
  CASE fam = "legendre" -> LegendreCoef(n, j)
    [] fam = "hermite" -> HermiteCoef(n, j)
    [] fam = "laguerre" -> LaguerreCoef(n, j)
    [] fam = "chebyshev" -> ChebTCoef(n, j)
    [] fam = "chebyshev_second" -> ChebUCoef(n, j)

Families == {"legendre", "hermite", "laguerre", "chebyshev", "chebyshev_second"}
RefPoly(fam, n) == [j \in 1..(n + 1) |-> Coef(fam, n, j - 1)]

(***************************************************************************)
(* Helpers on coefficient sequences (real, F64).                           *)
(***************************************************************************)
RECURSIVE HornerF(_, _, _)
HornerF(c, x, k) == IF k = Len(c) THEN c[k] ELSE FAdd(c[k], FMul(x, HornerF(c, x, k + 1)))
EvalF(c, x) == HornerF(c, x, 1)
\* x * p
ShiftUp(c) == <<F0>> \o c
PadTo(c, m) == [k \in 1..m |-> IF k <= Len(c) THEN c[k] ELSE F0]

(***************************************************************************)
(* Self-checks of the reference (checked by TLC as ASSUMEs of the MC       *)
(* module): three-term recurrences, parity, normalisations.  They guard    *)
(* the reference against typos, so that it cannot raise a false alarm.     *)
(***************************************************************************)
\* (n+1) P_{n+1} = (2n+1) x P_n - n P_{n-1}        exactly (all terms dyadic, < 2^53 after scaling)
RecLegendre(n) ==
  LET a == RefPoly("legendre", n + 1) b == ShiftUp(RefPoly("legendre", n)) c == PadTo(RefPoly("legendre", n - 1), n + 2)
  IN \A k \in 1..(n + 2) : FMul(FOfInt(n + 1), a[k]) = FSub(FMul(FOfInt(2 * n + 1), b[k]), FMul(FOfInt(n), c[k]))
\* H_{n+1} = 2x H_n - 2n H_{n-1}
RecHermite(n) ==
  LET a == RefPoly("hermite", n + 1) b == ShiftUp(RefPoly("hermite", n)) c == PadTo(RefPoly("hermite", n - 1), n + 2)
  IN \A k \in 1..(n + 2) : FEq(a[k], FSub(FMul(F2, b[k]), FMul(FOfInt(2 * n), c[k])))
\* T_{n+1} = 2x T_n - T_{n-1},  U likewise
RecCheb(fam, n) ==
  LET a == RefPoly(fam, n + 1) b == ShiftUp(RefPoly(fam, n)) c == PadTo(RefPoly(fam, n - 1), n + 2)
  IN \A k \in 1..(n + 2) : FEq(a[k], FSub(FMul(F2, b[k]), c[k]))
\* (n+1) L_{n+1} = (2n+1-x) L_n - n L_{n-1}   up to rounding (Laguerre coefficients are not dyadic)
RecLaguerre(n) ==
  LET a == RefPoly("laguerre", n + 1) l == PadTo(RefPoly("laguerre", n), n + 2)
      b == ShiftUp(RefPoly("laguerre", n)) c == PadTo(RefPoly("laguerre", n - 1), n + 2)
  IN \A k \in 1..(n + 2) :
       FClose(FMul(FOfInt(n + 1), a[k]),
              FSub(FSub(FMul(FOfInt(2 * n + 1), l[k]), b[k]), FMul(FOfInt(n), c[k])), FScale(1, -44))
SumF(c) == FSum(c)
RefSelfCheck(N) ==
  /\ \A n \in 1..(N - 1) : RecLegendre(n) /\ RecHermite(n) /\ RecCheb("chebyshev", n)
                           /\ RecCheb("chebyshev_second", n) /\ RecLaguerre(n)
  /\ \A n \in 0..N : /\ FClose(SumF(RefPoly("legendre", n)), F1, FScale(1, -30))         \* P_n(1) = 1
                     /\ FClose(SumF(RefPoly("chebyshev", n)), F1, FScale(1, -30))        \* T_n(1) = 1
                     /\ FClose(SumF(RefPoly("chebyshev_second", n)), FOfInt(n + 1), FScale(1, -30)) \* U_n(1) = n+1
                     /\ RefPoly("laguerre", n)[1] = F1                                   \* L_n(0) = 1
                     /\ RefPoly("hermite", n)[n + 1] = Pow2F(n)                          \* leading 2^n
=============================================================================
