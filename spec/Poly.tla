-------------------------------- MODULE Poly --------------------------------
(***************************************************************************)
(* Reference coefficient algebra for Polynomial (C11, C12, C13, C15) and   *)
(* the coefficient-editing state machine (C13).                            *)
(*                                                                         *)
(* A polynomial is its ascending, never empty coefficient sequence         *)
(* c[1] = x^0, c[2] = x^1, ... over complex numbers <<re, im>> with F64    *)
(* parts (real polynomials have zero imaginary parts).  On small integer / *)
(* dyadic data every operation below is exact in binary64, so the          *)
(* specification states the exact expected result.                         *)
(***************************************************************************)
EXTENDS Integers, Sequences, F64

C0 == <<F0, F0>>
C1 == <<F1, F0>>
At(p, k) == IF k >= 1 /\ k <= Len(p) THEN p[k] ELSE C0          \* coefficient of x^(k-1), 0 beyond the end
MaxLen(p, q) == IF Len(p) >= Len(q) THEN Len(p) ELSE Len(q)

PAdd(p, q) == FSeq([k \in 1..MaxLen(p, q) |-> CAdd(At(p, k), At(q, k))])
PSub(p, q) == FSeq([k \in 1..MaxLen(p, q) |-> CSub(At(p, k), At(q, k))])
PNeg(p) == FSeq([k \in 1..Len(p) |-> CNeg(p[k])])
PScale(c, p) == FSeq([k \in 1..Len(p) |-> CMul(p[k], c)])
PDivS(p, c) == FSeq([k \in 1..Len(p) |-> CDiv(p[k], c)])
PAddS(p, c) == FSeq([k \in 1..Len(p) |-> IF k = 1 THEN CAdd(p[1], c) ELSE p[k]])

\* schoolbook product: coefficient k is sum_{i+j=k+1} p[i] q[j]
RECURSIVE ConvAt(_, _, _, _)
ConvAt(p, q, k, i) ==
  IF i > Len(p) \/ i > k THEN C0
  ELSE IF k + 1 - i > Len(q) THEN ConvAt(p, q, k, i + 1)
  ELSE CAdd(CMul(p[i], q[k + 1 - i]), ConvAt(p, q, k, i + 1))
Conv(p, q) == FSeq([k \in 1..(Len(p) + Len(q) - 1) |-> ConvAt(p, q, k, 1)])

RECURSIVE HornerC(_, _, _)
HornerC(p, x, k) == IF k = Len(p) THEN p[k] ELSE CAdd(p[k], CMul(x, HornerC(p, x, k + 1)))
PEval(p, x) == HornerC(p, x, 1)

PDeriv(p) == IF Len(p) = 1 THEN <<C0>> ELSE FSeq([k \in 1..(Len(p) - 1) |-> CScale(FOfInt(k), p[k + 1])])
\* antiderivative with constant c: coefficient of x^k is p_{k-1} / k
PAnti(p, c) == FSeq([k \in 1..(Len(p) + 1) |-> IF k = 1 THEN c ELSE CScale(FDiv(F1, FOfInt(k - 1)), p[k - 1])])

CIsZero(z) == FEq(z[1], F0) /\ FEq(z[2], F0)
RECURSIVE DegFrom(_, _)
DegFrom(p, k) == IF k = 1 THEN 0 ELSE IF CIsZero(p[k]) THEN DegFrom(p, k - 1) ELSE k - 1
Deg(p) == DegFrom(p, Len(p))                       \* exact degree (0 for the zero polynomial)
Trim(p) == FSeq([k \in 1..(Deg(p) + 1) |-> p[k]])
IsZeroPoly(p) == Deg(p) = 0 /\ CIsZero(p[1])
Norm1(p) == FSum([k \in 1..Len(p) |-> CAbs(p[k])])
MaxCoef(p) == FMaxAbs([k \in 1..Len(p) |-> CAbs(p[k])])

\* long division by a polynomial with non-zero leading coefficient: [q, r], deg r < deg d
DivStep(q, r, d, dr, dd) ==
  Bind(FSeq([k \in 1..(dr - dd + 1) |-> IF k = dr - dd + 1 THEN CDiv(r[dr + 1], d[dd + 1]) ELSE C0]), LAMBDA term :
    Bind(PSub(r, Conv(term, d)), LAMBDA r2 :                     \* the leading term cancels exactly
      [q |-> PAdd(q, term), r |-> IF dr = 0 THEN <<C0>> ELSE SubSeq(r2, 1, dr)]))
RECURSIVE DivLoop(_, _, _)
DivLoop(q, r, d) ==
  Bind(Deg(r), LAMBDA dr :
    IF dr < Deg(d) \/ IsZeroPoly(r) THEN [q |-> q, r |-> Trim(r)]
    ELSE Bind(DivStep(q, r, d, dr, Deg(d)), LAMBDA s : DivLoop(s.q, s.r, d)))
DivMod(p, d) == DivLoop(<<C0>>, Trim(p), Trim(d))

\* distance between coefficient sequences, missing entries counted as 0
PDist(p, q) == FMaxAbs([k \in 1..MaxLen(p, q) |-> CAbs(CSub(At(p, k), At(q, k)))])

(***************************************************************************)
(* Coefficient editing (the C13 state machine).  The state is the          *)
(* coefficient sequence; the contract is about the coefficient of every    *)
(* power, so two states are equivalent when they agree as maps power ->    *)
(* coefficient (SameMap), whatever their lengths.                          *)
(***************************************************************************)
SetCoef(p, k, c) == FSeq([j \in 1..(IF k + 1 > Len(p) THEN k + 1 ELSE Len(p)) |-> IF j = k + 1 THEN c ELSE At(p, j)])
\* purging a power the polynomial does not have changes nothing
PurgeCoef(p, k) == IF k + 1 > Len(p) THEN p ELSE FSeq([j \in 1..Len(p) |-> IF j = k + 1 THEN C0 ELSE p[j]])
\* leading coefficients whose real and imaginary parts are both within tol are dropped
RECURSIVE PurgeLeadingT(_, _)
PurgeLeadingT(p, tol) ==
  IF Len(p) > 1 /\ FLe(FAbs(p[Len(p)][1]), tol) /\ FLe(FAbs(p[Len(p)][2]), tol)
    THEN PurgeLeadingT(SubSeq(p, 1, Len(p) - 1), tol) ELSE p
SameMap(p, q) == \A k \in 1..MaxLen(p, q) : FEq(At(p, k)[1], At(q, k)[1]) /\ FEq(At(p, k)[2], At(q, k)[2])
=============================================================================
