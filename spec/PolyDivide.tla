------------------------------ MODULE PolyDivide ------------------------------
(***************************************************************************)
(* Design model of Polynomial::divide as it stands in the tree (C12), over *)
(* an abstract coefficient field, one action per pass of its loop:         *)
(*                                                                         *)
(*    divisor of length 1 and not above the tolerance    -> Err            *)
(*    remainder := dividend with leading coefficients <= tol removed       *)
(*    divisor of length 1 -> (remainder * (1 / divisor[0]), 0)             *)
(*    while len(remainder) >= len(divisor) and remainder is not the zero   *)
(*          polynomial:                                                    *)
(*        t := lead(remainder) / lead(divisor)                             *)
(*        quotient  += t x^order          order = len(rem) - len(div)      *)
(*        remainder -= t x^order divisor                                   *)
(*        the leading coefficient, which cancels by construction, is       *)
(*        dropped; further leading coefficients < tol are dropped          *)
(*                                                                         *)
(* Coefficient sequences are in ascending order of power, as in the code.  *)
(* Defects gives the code before its repair, which TLC found wanting at a  *)
(* zero tolerance (accepted by set_tolerance):                             *)
(*  "cancelled_term_kept_unless_below_tolerance": the cancelled leading    *)
(*     coefficient was removed only by the `< tol` trimming, so an exactly *)
(*     cancelled term stayed, the pass changed nothing and the loop never  *)
(*     ended;                                                              *)
(*  "zero_divisor_test_strict": the zero polynomial was recognised by      *)
(*     `|c| < tol`, which nothing satisfies at tol = 0, and the division   *)
(*     went on to multiply by 1 / 0.                                       *)
(* MC_PolyDivide shows both: its invariants hold for the repaired text and *)
(* TLC finds each failure with the corresponding switch on.                *)
(*                                                                         *)
(* Instantiated over exact rationals (MC_PolyDivide) and over IEEE doubles *)
(* / pairs of doubles (Trace_PolyDivide: quotient and remainder of real    *)
(* runs, bit for bit).                                                     *)
(***************************************************************************)
EXTENDS Integers, Sequences

CONSTANTS Add(_, _), Sub(_, _), Mul(_, _), Div(_, _), Small(_, _), SmallLe(_, _), Zero, One, TolZero, Defects
(* Small(c, t): |re c| < t and |im c| < t;  SmallLe: the same with <= (purge_leading) *)

VARIABLES pc, a, d, tol, q, r, steps
vars == <<pc, a, d, tol, q, r, steps>>
(* pc : "idle" | "loop" | "done" | "err";  q, r : quotient and remainder so far;  steps : passes made *)

Init == pc = "idle" /\ a = <<Zero>> /\ d = <<Zero>> /\ tol = TolZero /\ q = <<Zero>> /\ r = <<Zero>> /\ steps = 0

\* what `while len > 1 && P(last) { pop }` leaves: the length of the shortest prefix after which all entries satisfy P
TrimLen(s, P(_)) == CHOOSE n \in 1..Len(s) : (n = 1 \/ ~P(s[n])) /\ \A m \in (n + 1)..Len(s) : P(s[m])
PurgeLeading(s, t) == SubSeq(s, 1, TrimLen(s, LAMBDA c : SmallLe(c, t)))
TrimStrict(s, t) == SubSeq(s, 1, TrimLen(s, LAMBDA c : Small(c, t)))

Begin(a0, d0, t) ==
  /\ pc = "idle" /\ a' = a0 /\ d' = d0 /\ tol' = t /\ steps' = 0
  /\ IF Len(d0) = 1 /\ (IF "zero_divisor_test_strict" \in Defects THEN Small(d0[1], t) ELSE SmallLe(d0[1], t))
       THEN pc' = "err" /\ q' = <<Zero>> /\ r' = <<Zero>>
       ELSE LET r0 == PurgeLeading(a0, t) IN
            IF Len(d0) = 1
              THEN LET inv == Div(One, d0[1]) IN
                   /\ pc' = "done" /\ q' = [k \in 1..Len(r0) |-> Mul(r0[k], inv)] /\ r' = <<Zero>>
              ELSE pc' = "loop" /\ q' = <<Zero>> /\ r' = r0

Continue == Len(r) >= Len(d) /\ ~(Len(r) = 1 /\ Small(r[1], tol))

Pass ==
  /\ pc = "loop" /\ Continue
  /\ LET order == Len(r) - Len(d)
         t == Div(r[Len(r)], d[Len(d)])
         \* quotient += t x^order (add_assign: entries beyond the shorter operand are copied, not added)
         nq == IF Len(q) >= order + 1 THEN Len(q) ELSE order + 1
         q1 == [k \in 1..nq |-> IF k <= Len(q) /\ k <= order + 1 THEN Add(q[k], IF k = order + 1 THEN t ELSE Zero)
                                ELSE IF k <= Len(q) THEN q[k]
                                ELSE IF k = order + 1 THEN t ELSE Zero]
         \* remainder -= t x^order divisor (the shifted product has the remainder's length)
         r1 == [k \in 1..Len(r) |-> Sub(r[k], IF k <= order THEN Zero ELSE Mul(d[k - order], t))]
         r2 == IF "cancelled_term_kept_unless_below_tolerance" \in Defects THEN r1 ELSE SubSeq(r1, 1, Len(r) - 1)
     IN /\ q' = q1
        /\ r' = TrimStrict(r2, tol)
  /\ steps' = steps + 1
  /\ UNCHANGED <<pc, a, d, tol>>

Exit == pc = "loop" /\ ~Continue /\ pc' = "done" /\ UNCHANGED <<a, d, tol, q, r, steps>>
Done == pc \in {"done", "err"} /\ UNCHANGED vars
=============================================================================
