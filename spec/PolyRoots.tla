------------------------------ MODULE PolyRoots ------------------------------
(***************************************************************************)
(* Contract of Polynomial::roots and of the orthogonal-polynomial zero     *)
(* finders (C14).  The generator builds each polynomial from a known       *)
(* multiset of separated roots (`truth`), so completeness and one-to-one   *)
(* matching can be stated directly.                                        *)
(***************************************************************************)
EXTENDS Integers, Sequences, FiniteSets, F64, Poly, OrthoPoly

RECURSIVE AbsHornerP(_, _, _)
AbsHornerP(p, ax, k) == IF k = Len(p) THEN CAbs(p[k]) ELSE FAdd(CAbs(p[k]), FMul(ax, AbsHornerP(p, ax, k + 1)))
Noise(p, z) == FMul(FMul(FOfInt(64 * Len(p)), FEps), AbsHornerP(p, CAbs(z), 1))       \* rounding of evaluating p at z
KR == FOfInt(16)

RootsBad(o) ==
  LET p == o.coefs
      deg == Len(p) - 1
      d == PDeriv(p)
      \* matching radius around a true root t: tolerance-level error plus conditioning of the root
      Rad(t) == FAdd(FMul(KR, o.tol), FDiv(FMul(FOfInt(16), Noise(p, t)), CAbs(PEval(d, t))))
      near(t) == {j \in 1..Len(o.roots) : FLe(CAbs(CSub(o.roots[j], t)), Rad(t))}
  IN IF o.st = "panic" THEN {"never_panics"}
     ELSE IF o.st # "ok" THEN {"polynomial_built_from_separated_roots_is_solved"}
     ELSE (IF Len(o.roots) # deg THEN {"exactly_degree_many_roots"} ELSE {})
          \cup (IF \E j \in 1..Len(o.roots) : ~CFinite(o.roots[j]) THEN {"roots_are_finite"} ELSE {})
          \cup (IF \E j \in 1..Len(o.roots) : CFinite(o.roots[j]) /\
                     ~FLe(CAbs(PEval(p, o.roots[j])), FAdd(FMul(FMul(KR, o.tol), FAdd(F1, CAbs(PEval(d, o.roots[j])))), Noise(p, o.roots[j])))
                  THEN {"each_value_is_a_root_to_tolerance_scaled_residual"} ELSE {})
          \cup (IF \E k \in 1..Len(o.truth) : Cardinality(near(o.truth[k])) # 1 THEN {"roots_match_the_true_roots_one_to_one"} ELSE {})

\* orthogonal polynomial zeros: n distinct reals inside the interval, each bracketed by a sign change
EvalOrtho(fam, n, x) == EvalF(RefPoly(fam, n), x)
ZerosBad(o) ==
  LET n == o.n
      z(j) == o.roots[j][1]
      delta(j) == FMul(FOfDec("2e-7"), FAdd(F1, FAbs(z(j))))
      expected == IF n = 0 THEN 0 ELSE n
  IN IF o.st = "panic" THEN {"never_panics"}
     ELSE IF o.st # "ok" THEN {"zeros_are_found"}
     ELSE (IF Len(o.roots) # expected THEN {"n_zeros_for_index_n"} ELSE {})
          \cup (IF \E j \in 1..Len(o.roots) : ~FIsFinite(z(j)) THEN {"zeros_are_finite"} ELSE {})
          \cup (IF \E j \in 1..Len(o.roots) : (o.fam = "legendre" /\ ~FLt(FAbs(z(j)), F1)) \/ (o.fam = "laguerre" /\ ~FGt(z(j), F0))
                  THEN {"zeros_inside_the_orthogonality_interval"} ELSE {})
          \cup (IF \E a, b \in 1..Len(o.roots) : a # b /\ FLe(FAbs(FSub(z(a), z(b))), FOfDec("1e-6")) THEN {"zeros_pairwise_distinct"} ELSE {})
          \cup (IF n >= 1 /\ \E j \in 1..Len(o.roots) : FIsFinite(z(j)) /\
                     ~FLe(FMul(EvalOrtho(o.fam, n, FSub(z(j), delta(j))), EvalOrtho(o.fam, n, FAdd(z(j), delta(j)))), F0)
                  THEN {"each_zero_brackets_a_sign_change_of_the_exact_polynomial"} ELSE {})
Bad(o) == IF o.kind = "roots" THEN RootsBad(o) ELSE ZerosBad(o)
=============================================================================
