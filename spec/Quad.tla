-------------------------------- MODULE Quad --------------------------------
(***************************************************************************)
(* Contract of the quadrature routines (C09): closed-form values of the    *)
(* (weighted) integrals of the integrand catalogue, the error cases, and   *)
(* the textbook adaptive Simpson recursion used as the work reference.     *)
(*                                                                         *)
(* Integrands:  poly  sum c_k x^k (complex c_k)     exp  a e^{c x}         *)
(*              sin   a sin(w x + p)                cis  a e^{i (w x + p)} *)
(* Routines:    tanhsinh, legendre, simpson, romberg        on [lo, hi]    *)
(*              laguerre  (weight e^{-x} on [0,inf))                       *)
(*              hermite   (weight e^{-x^2} on R)                           *)
(*              chebyshev / chebyshev_second (weights (1-x^2)^{-+1/2})     *)
(***************************************************************************)
EXTENDS Integers, Sequences, F64, Poly, QuadTables

RECURSIVE FunEval(_, _), IntInterval(_, _, _)
FunEval(f, x) ==
  CASE f.k = "mix" -> <<FunEval(f.re, x)[1], FunEval(f.im, x)[1]>>       \* real part of f.re + i * real part of f.im
    [] f.k = "poly" -> PEval(f.c, <<x, F0>>)
    [] f.k = "exp" -> <<FMul(f.p[1], FExp(FMul(f.p[2], x))), F0>>
    [] f.k = "sin" -> <<FMul(f.p[1], FSin(FAdd(FMul(f.p[2], x), f.p[3]))), F0>>
    [] f.k = "cis" -> LET a == FAdd(FMul(f.p[2], x), f.p[3]) IN <<FMul(f.p[1], FCos(a)), FMul(f.p[1], FSin(a))>>

\* ---- plain integrals over [lo, hi] ------------------------------------------------------------
IntInterval(f, lo, hi) ==
  CASE f.k = "mix" -> <<IntInterval(f.re, lo, hi)[1], IntInterval(f.im, lo, hi)[1]>>
    [] f.k = "poly" -> LET A == PAnti(f.c, C0) IN CSub(PEval(A, <<hi, F0>>), PEval(A, <<lo, F0>>))
    [] f.k = "exp" -> <<FMul(FDiv(f.p[1], f.p[2]), FSub(FExp(FMul(f.p[2], hi)), FExp(FMul(f.p[2], lo)))), F0>>
    [] f.k = "sin" -> <<FMul(FDiv(f.p[1], f.p[2]),
                           FSub(FCos(FAdd(FMul(f.p[2], lo), f.p[3])), FCos(FAdd(FMul(f.p[2], hi), f.p[3])))), F0>>
    [] f.k = "cis" -> \* a/(i w) (e^{i(w hi + p)} - e^{i(w lo + p)})
         LET e(x) == <<FCos(FAdd(FMul(f.p[2], x), f.p[3])), FSin(FAdd(FMul(f.p[2], x), f.p[3]))>>
         IN CMul(<<F0, FNeg(FDiv(f.p[1], f.p[2]))>>, CSub(e(hi), e(lo)))

\* ---- weighted integrals -------------------------------------------------------------------------
RECURSIVE SeriesI(_, _, _, _, _)
\* sum_{k>=0} term_k with term_{k+1} = term_k * q / ((k+1)(k+1+s)) : Bessel-type series, 40 terms
SeriesI(q, s, k, term, acc) ==
  IF k = 40 THEN acc
  ELSE SeriesI(q, s, k + 1, FDiv(FMul(term, q), FOfInt((k + 1) * (k + 1 + s))), FAdd(acc, term))
BesselI0(c) == SeriesI(FDiv(FMul(c, c), FOfInt(4)), 0, 0, F1, F0)
BesselJ0(w) == SeriesI(FNeg(FDiv(FMul(w, w), FOfInt(4))), 0, 0, F1, F0)
\* I1(c)/c = (1/2) sum (c^2/4)^k / (k! (k+1)!),  J1(w)/w likewise with alternating sign
BesselI1Over(c) == FMul(FHalf, SeriesI(FDiv(FMul(c, c), FOfInt(4)), 1, 0, F1, F0))
BesselJ1Over(w) == FMul(FHalf, SeriesI(FNeg(FDiv(FMul(w, w), FOfInt(4))), 1, 0, F1, F0))

PolyMoments(tb, c) ==   \* sum_k c_k * moment_k
  LET n == Len(c) IN
  <<FSum([k \in 1..n |-> IF tb # "laguerre" /\ (k - 1) % 2 = 1 THEN F0 ELSE FMul(c[k][1], ExactMoment(tb, k - 1))]),
    FSum([k \in 1..n |-> IF tb # "laguerre" /\ (k - 1) % 2 = 1 THEN F0 ELSE FMul(c[k][2], ExactMoment(tb, k - 1))])>>
IntWeighted(tb, f) ==
  CASE f.k = "poly" -> PolyMoments(tb, f.c)
    [] f.k = "exp" ->
         <<CASE tb = "laguerre" -> FDiv(f.p[1], FSub(F1, f.p[2]))
             [] tb = "hermite" -> FMul(f.p[1], FMul(SqrtPi, FExp(FDiv(FMul(f.p[2], f.p[2]), FOfInt(4)))))
             [] tb = "chebyshev" -> FMul(f.p[1], FMul(FPi, BesselI0(f.p[2])))
             [] tb = "chebyshev_second" -> FMul(f.p[1], FMul(FPi, BesselI1Over(f.p[2]))), F0>>
    [] f.k = "sin" ->
         LET a == f.p[1] w == f.p[2] p == f.p[3] IN
         <<CASE tb = "laguerre" -> FMul(a, FDiv(FAdd(FSin(p), FMul(w, FCos(p))), FAdd(F1, FMul(w, w))))
             [] tb = "hermite" -> FMul(a, FMul(FMul(SqrtPi, FExp(FNeg(FDiv(FMul(w, w), FOfInt(4))))), FSin(p)))
             [] tb = "chebyshev" -> FMul(a, FMul(FMul(FPi, BesselJ0(w)), FSin(p)))
             [] tb = "chebyshev_second" -> FMul(a, FMul(FMul(FPi, BesselJ1Over(w)), FSin(p))), F0>>

HasInterval(r) == r \in {"tanhsinh", "legendre", "simpson", "romberg"}
Exact(o) == IF HasInterval(o.routine) THEN IntInterval(o.f, o.a, o.b) ELSE IntWeighted(o.routine, o.f)

(***************************************************************************)
(* Textbook adaptive Simpson (Burden & Faires alg. 4.3) as work reference: *)
(* number of function evaluations it needs on the same input with the same *)
(* tolerance schedule (10 tol at the top, halved per level).               *)
(***************************************************************************)
S(f, a, h) == \* Simpson over [a, a+2h]
  CScale(FDiv(h, FOfInt(3)), CAdd(FunEval(f, a), CAdd(CScale(FOfInt(4), FunEval(f, FAdd(a, h))), FunEval(f, FAdd(a, FMul(F2, h))))))
RECURSIVE RefEvals(_, _, _, _, _, _)
RefEvals(f, a, h, whole, tol, depth) ==
  Bind(S(f, a, FMul(h, FHalf)), LAMBDA l : Bind(S(f, FAdd(a, h), FMul(h, FHalf)), LAMBDA r :
    IF depth = 0 \/ FLt(CAbs(CSub(CAdd(l, r), whole)), tol) THEN 2
    ELSE 2 + RefEvals(f, a, FMul(h, FHalf), l, FMul(tol, FHalf), depth - 1)
           + RefEvals(f, FAdd(a, h), FMul(h, FHalf), r, FMul(tol, FHalf), depth - 1)))
RefSimpsonEvals(o) ==
  LET h == FMul(FSub(o.b, o.a), FHalf)
  IN 3 + Bind(S(o.f, o.a, h), LAMBDA w : RefEvals(o.f, o.a, h, w, FMul(FOfInt(10), o.tol), 24))
=============================================================================
