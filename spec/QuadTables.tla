----------------------------- MODULE QuadTables -----------------------------
(***************************************************************************)
(* C10: every tabulated quadrature rule has its full degree of exactness.  *)
(* A rule row is the sequence of <<node, weight>> pairs as shipped in      *)
(* src/integrate/tables.rs (non-negative half only for the symmetric       *)
(* families) and is expanded exactly as the integrators consume it:        *)
(* a node x = 0 counts once, any other node stands for +x and -x.          *)
(*                                                                         *)
(* Exact moments of the weight functions (k even; odd moments vanish by    *)
(* symmetry for the symmetric families):                                   *)
(*   Legendre          int_{-1}^{1} x^k dx               = 2/(k+1)         *)
(*   Hermite           int x^k e^{-x^2} dx               = sqrt(pi) (k-1)!! / 2^{k/2} *)
(*   Laguerre          int_0^inf x^k e^{-x} dx           = k!   (all k)    *)
(*   Chebyshev I       int x^k / sqrt(1-x^2) dx          = pi C(k,k/2) / 2^k *)
(*   Chebyshev II      int x^k sqrt(1-x^2) dx            = (pi/2) C(k,k/2) / (2^k (k/2+1)) *)
(* Tanh-sinh: level L (h = 2^-L), index j: t = j (L = 0) or (2j-1) h,      *)
(*   x = tanh((pi/2) sinh t),  w = h (pi/2) cosh t / cosh^2((pi/2) sinh t) *)
(***************************************************************************)
EXTENDS Integers, Sequences, FiniteSets, F64

Symmetric(tb) == tb \in {"legendre", "hermite", "chebyshev", "chebyshev_second"}
Nodes(tb, pairs) ==
  IF Symmetric(tb)
    THEN UNION { IF FEq(pairs[j][1], F0) THEN {<<j, 0>>} ELSE {<<j, 1>>, <<j, -1>>} : j \in 1..Len(pairs) }
    ELSE { <<j, 1>> : j \in 1..Len(pairs) }
PointCount(tb, pairs) == Cardinality(Nodes(tb, pairs))

\* sum_i w_i x_i^k over the expanded rule (k even for symmetric tables)
Moment(tb, pairs, k) ==
  FSum([j \in 1..Len(pairs) |->
          LET x == pairs[j][1] w == pairs[j][2]
              term == FMul(w, IF k = 0 THEN F1 ELSE FPowI(x, k))
          IN IF Symmetric(tb) /\ ~FEq(x, F0) THEN FMul(F2, term) ELSE term])

RECURSIVE DoubleFact(_), Fact(_), CentralBinomOver4(_)
DoubleFact(n) == IF n <= 1 THEN F1 ELSE FMul(FOfInt(n), DoubleFact(n - 2))
Fact(n) == IF n <= 1 THEN F1 ELSE FMul(FOfInt(n), Fact(n - 1))
\* C(2m,m)/4^m = prod_{i=1..m} (2i-1)/(2i)
CentralBinomOver4(m) == IF m = 0 THEN F1 ELSE FMul(CentralBinomOver4(m - 1), FOfRat(2 * m - 1, 2 * m))
SqrtPi == FSqrt(FPi)
ExactMoment(tb, k) ==
  CASE tb = "legendre" -> FOfRat(2, k + 1)
    [] tb = "hermite" -> FMul(SqrtPi, FDiv(DoubleFact(k - 1), FScale(1, k \div 2)))
    [] tb = "laguerre" -> Fact(k)
    [] tb = "chebyshev" -> FMul(FPi, CentralBinomOver4(k \div 2))
    [] tb = "chebyshev_second" -> FMul(FMul(FPi, FHalf), FDiv(CentralBinomOver4(k \div 2), FOfInt(k \div 2 + 1)))

InDomain(tb, x) ==
  CASE tb \in {"legendre", "chebyshev", "chebyshev_second"} -> FLt(FAbs(x), F1)
    [] tb = "laguerre" -> FGt(x, F0)
    [] OTHER -> FIsFinite(x)

Ks(tb, n) == IF Symmetric(tb) THEN {2 * m : m \in 0..(n - 1)} ELSE 0..(2 * n - 1)
GaussBad(tb, n, pairs, rel) ==
  (IF PointCount(tb, pairs) # n THEN {"rule_at_position_n_has_exactly_n_points"} ELSE {})
  \cup (IF \E a, b \in 1..Len(pairs) : a # b /\ FEq(pairs[a][1], pairs[b][1]) THEN {"nodes_distinct"} ELSE {})
  \cup (IF \E j \in 1..Len(pairs) : ~InDomain(tb, pairs[j][1]) \/ (Symmetric(tb) /\ FLt(pairs[j][1], F0)) THEN {"nodes_inside_the_domain"} ELSE {})
  \cup (IF \E j \in 1..Len(pairs) : ~FGt(pairs[j][2], F0) THEN {"weights_positive"} ELSE {})
  \cup (IF \E k \in Ks(tb, n) : ~FLe(FAbs(FSub(Moment(tb, pairs, k), ExactMoment(tb, k))), FMul(rel, ExactMoment(tb, k)))
          THEN {"integrates_polynomials_up_to_degree_2n_minus_1"} ELSE {})
\* first failing moment, for diagnostics
FirstBadMoment(tb, n, pairs, rel) ==
  LET bad == {k \in Ks(tb, n) : ~FLe(FAbs(FSub(Moment(tb, pairs, k), ExactMoment(tb, k))), FMul(rel, ExactMoment(tb, k)))}
  IN IF bad = {} THEN -1 ELSE CHOOSE k \in bad : \A q \in bad : k <= q

DEBad(level, pairs, rel) ==
  LET h == FScale(1, -level)
      T(j) == IF level = 0 THEN FOfInt(j) ELSE FMul(FOfInt(2 * j - 1), h)
      U(j) == FMul(FMul(FPi, FHalf), FSinh(T(j)))
      X(j) == FTanh(U(j))
      W(j) == FDiv(FMul(FMul(h, FMul(FPi, FHalf)), FCosh(T(j))), FMul(FCosh(U(j)), FCosh(U(j))))
  IN (IF \E j \in 1..Len(pairs) : ~FLe(FAbs(FSub(pairs[j][1], X(j))), FMul(rel, FAbs(X(j)))) THEN {"abscissa_equals_double_exponential_formula"} ELSE {})
     \cup (IF \E j \in 1..Len(pairs) : ~FLe(FAbs(FSub(pairs[j][2], W(j))), FMul(rel, FAbs(W(j)))) THEN {"weight_equals_double_exponential_formula"} ELSE {})
=============================================================================
