------------------------------- MODULE Romberg -------------------------------
(***************************************************************************)
(* Exact model of integrate_fixed (Romberg integration with n rows) over   *)
(* the rationals: the tableau recurrence                                   *)
(*    R(1,1) = h/2 (f(a) + f(b))                                           *)
(*    R(i,1) = 1/2 (R(i-1,1) + h_{i-1} sum_{k=1}^{2^{i-2}} f(a + (k - 1/2) h_{i-1}))   *)
(*    R(i,j) = R(i,j-1) + (R(i,j-1) - R(i-1,j-1)) / (4^{j-1} - 1)          *)
(* is evaluated on monomials and must give the exact integral for every    *)
(* degree <= 2n-1 (n >= 2; one row is the trapezoid rule, exact to         *)
(* degree 1).  Rationals are normalised pairs <<num, den>> of TLC integers.*)
(***************************************************************************)
EXTENDS Integers, Sequences

RECURSIVE Gcd(_, _)
Gcd(a, b) == IF b = 0 THEN (IF a < 0 THEN -a ELSE a) ELSE Gcd(b, a % b)
Norm(n, d) == LET g == Gcd(n, d) s == IF d < 0 THEN -1 ELSE 1 IN IF n = 0 THEN <<0, 1>> ELSE <<s * (n \div g), s * (d \div g)>>
\* addition over the least common denominator keeps the intermediate integers small (TLC integers are 32-bit)
QAdd(p, q) == LET g == Gcd(p[2], q[2]) IN Norm(p[1] * (q[2] \div g) + q[1] * (p[2] \div g), (p[2] \div g) * q[2])
QSub(p, q) == QAdd(p, <<-q[1], q[2]>>)
QMul(p, q) == Norm(p[1] * q[1], p[2] * q[2])
QDiv(p, q) == Norm(p[1] * q[2], p[2] * q[1])
QI(n) == <<n, 1>>
RECURSIVE QPow(_, _), Pow(_, _)
QPow(x, k) == IF k = 0 THEN QI(1) ELSE QMul(x, QPow(x, k - 1))
Pow(b, e) == IF e = 0 THEN 1 ELSE b * Pow(b, e - 1)

\* f = x^deg on [a, b] (rationals)
F(x, deg) == QPow(x, deg)
RECURSIVE SumMid(_, _, _, _, _)
SumMid(a, h, deg, k, m) == IF k > m THEN QI(0)
                           ELSE QAdd(F(QAdd(a, QMul(<<2 * k - 1, 2>>, h)), deg), SumMid(a, h, deg, k + 1, m))
\* rows as sequences; returns R(n, n)
RECURSIVE Row(_, _, _, _, _, _)
Row(prev, i, n, a, h, deg) ==
  IF i > n THEN prev[Len(prev)]
  ELSE LET first == QMul(<<1, 2>>, QAdd(prev[1], QMul(h, SumMid(a, h, deg, 1, Pow(2, i - 2)))))
           RECURSIVE Build(_, _)
           Build(row, j) == IF j > i THEN row
                            ELSE Build(Append(row, QAdd(row[j - 1], QDiv(QSub(row[j - 1], prev[j - 1]), QI(Pow(4, j - 1) - 1)))), j + 1)
       IN Row(Build(<<first>>, 2), i + 1, n, a, QMul(h, <<1, 2>>), deg)
RombergValue(a, b, n, deg) ==
  LET h == QSub(b, a) IN Row(<<QMul(QMul(h, <<1, 2>>), QAdd(F(a, deg), F(b, deg)))>>, 2, n, a, h, deg)
Exact(a, b, deg) == QDiv(QSub(QPow(b, deg + 1), QPow(a, deg + 1)), QI(deg + 1))

ExactUpTo(n) == IF n = 1 THEN 1 ELSE 2 * n - 1
ASSUME \A n \in 1..4, ab \in {<<QI(0), QI(1)>>, <<QI(-1), QI(1)>>} :
         \A deg \in 0..ExactUpTo(n) : RombergValue(ab[1], ab[2], n, deg) = Exact(ab[1], ab[2], deg)
ASSUME \A n \in 1..3, ab \in {<<QI(-1), QI(2)>>, <<<<1, 2>>, QI(2)>>} :
         \A deg \in 0..ExactUpTo(n) : RombergValue(ab[1], ab[2], n, deg) = Exact(ab[1], ab[2], deg)
\* and the degree of exactness is sharp: degree 2n is not integrated exactly
ASSUME \A n \in 2..3 : RombergValue(QI(0), QI(1), n, 2 * n) # Exact(QI(0), QI(1), 2 * n)
VARIABLE x
Init == x = 0
Next == UNCHANGED x
=============================================================================
