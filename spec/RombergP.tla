------------------------------- MODULE RombergP -------------------------------
(***************************************************************************)
(* Design model of integrate_fixed (Romberg integration with n rows) as it *)
(* stands in the tree, over an abstract field, one action per tableau row: *)
(*   Begin   - interval test, f(a), f(b), R(1,1) = (h/2)(f(a) + f(b))      *)
(*   RowStep - row i >= 2:  2^(i-2) new abscissae  a + (k - 1/2) h,        *)
(*             R(i,1) = ((sum f) h + R(i-1,1)) / 2,                        *)
(*             R(i,j) = R(i,j-1) + (R(i,j-1) - R(i-1,j-1)) / (4^(j-1) - 1) *)
(*             then h := h/2                                               *)
(*   Finish  - the result is R(n,n)                                        *)
(* The function values of a row are a parameter of RowStep (vals); the     *)
(* abscissae the row asks for are the state function RowAbscissae.         *)
(* Instantiated over exact rationals (MC_RombergP: exact on every monomial *)
(* of degree <= 2n-1 and not beyond) and over IEEE doubles (Trace_Romberg: *)
(* every abscissa and the result of real runs, bit for bit).               *)
(***************************************************************************)
EXTENDS Integers, Sequences

CONSTANTS Add(_, _), Sub(_, _), Mul(_, _), Div(_, _), Lt(_, _), OfInt(_), HalfOdd(_), Half, Zero
(* OfInt(k) : the integer k;  HalfOdd(k) : k - 1/2;  Half : 1/2 *)

VARIABLES pc, a0, nrows, h, prev, i, nev, result
vars == <<pc, a0, nrows, h, prev, i, nev, result>>
(* pc : "idle" | "rows" | "ok" | "err";  prev : the previous tableau row R(i-1, 1..i-1);  i : the row to build next
   h : the panel width of row i-1;  nev : function evaluations so far *)

RECURSIVE Pow(_, _)
Pow(b, e) == IF e = 0 THEN 1 ELSE b * Pow(b, e - 1)

Init == pc = "idle" /\ a0 = Zero /\ nrows = 0 /\ h = Zero /\ prev = <<>> /\ i = 0 /\ nev = 0 /\ result = Zero

Begin(a, b, n, va, vb) ==
  /\ pc = "idle" /\ n >= 1
  /\ a0' = a /\ nrows' = n /\ result' = result
  /\ IF ~Lt(a, b)
       THEN pc' = "err" /\ nev' = 0 /\ UNCHANGED <<h, prev, i>>
       ELSE /\ pc' = "rows" /\ nev' = 2 /\ i' = 2
            /\ h' = Sub(b, a)
            /\ prev' = << Mul(Mul(Sub(b, a), Half), Add(va, vb)) >>

\* the abscissae row i evaluates, in the order of the code
RowAbscissae == [k \in 1..Pow(2, i - 2) |-> Add(a0, Mul(HalfOdd(k), h))]

RECURSIVE SumSeq(_, _, _)
SumSeq(vals, k, acc) == IF k > Len(vals) THEN acc ELSE SumSeq(vals, k + 1, Add(acc, vals[k]))      \* acc += f(...), in order
RECURSIVE Build(_, _, _)
Build(row, old, j) ==
  IF j > Len(old) + 1 THEN row
  ELSE Build(Append(row, Add(row[j - 1], Div(Sub(row[j - 1], old[j - 1]), Sub(OfInt(Pow(4, j - 1)), OfInt(1))))), old, j + 1)

RowStep(vals) ==
  /\ pc = "rows" /\ i <= nrows /\ Len(vals) = Pow(2, i - 2)
  /\ LET first == Mul(Add(Mul(SumSeq(vals, 1, Zero), h), prev[1]), Half)
     IN prev' = Build(<<first>>, prev, 2)
  /\ h' = Mul(h, Half) /\ i' = i + 1 /\ nev' = nev + Len(vals)
  /\ UNCHANGED <<pc, a0, nrows, result>>

Finish == /\ pc = "rows" /\ i > nrows /\ pc' = "ok" /\ result' = prev[nrows]
          /\ UNCHANGED <<a0, nrows, h, prev, i, nev>>
Done == pc \in {"ok", "err"} /\ UNCHANGED vars
=============================================================================
