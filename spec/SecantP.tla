-------------------------------- MODULE SecantP --------------------------------
(***************************************************************************)
(* Design model of roots::secant (Broyden's method) as it stands in the    *)
(* tree (C08), over an abstract field / vector space.  The code keeps the  *)
(* INVERSE of the Broyden matrix and updates it by the Sherman-Morrison    *)
(* formula; the specification states the method in its defining form, with *)
(* the matrix B itself:                                                    *)
(*    B_0 = central-difference Jacobian at x_0 (step h);                   *)
(*    every step s solves  B s = -f(x);   x := x + s;                      *)
(*    B := B + (y - B s) s^T / (s^T s),   y = f(x_new) - f(x_old)          *)
(*    ("good" Broyden update: B_new s = y, unchanged on the complement);   *)
(*    stop when |s| <= tol; Err when B_0 is singular or after n_max.       *)
(* The linear algebra is abstracted to these equations (StepOk: any new    *)
(* point for which B (x_new - x) = -f holds is admitted).  The values of f *)
(* and the finite-difference matrix are parameters of the actions.         *)
(* Instantiated over exact rationals in one dimension (MC_SecantP) and     *)
(* over IEEE doubles in dimensions 1-4 (Trace_Secant: the closure calls of *)
(* every real secant() run).                                               *)
(***************************************************************************)
EXTENDS Integers, Sequences

CONSTANTS StepOk(_, _, _, _),     \* StepOk(B, x, f, xnew): B (xnew - x) = -f
          Update(_, _, _, _),     \* Update(B, fold, fnew, s): the good Broyden update of B
          Singular(_),            \* Singular(B0): the initial matrix cannot be inverted
          StepSmall(_, _, _),     \* StepSmall(x, xnew, tol): |xnew - x| <= tol
          Zero

VARIABLES pc, x, fx, B, s, tol, nmax, n, nev, result
vars == <<pc, x, fx, B, s, tol, nmax, n, nev, result>>
(* pc : "idle" | "run" | "ok" | "err";  x : the current guess;  fx : f at the point the last step started from
   B : the Broyden matrix;  s : the last step;  n : the loop counter of the code (starts at 2) *)

Init == /\ pc = "idle" /\ x = Zero /\ fx = Zero /\ B = Zero /\ s = Zero /\ tol = Zero /\ nmax = 0 /\ n = 0 /\ nev = 0
        /\ result = Zero

\* f at the start, the 2 S evaluations of the finite-difference Jacobian J0, and the first step to x1
Begin(x0, t, nm, f0, J0, nfd, x1, stepOf) ==
  /\ pc = "idle" /\ tol' = t /\ nmax' = nm /\ n' = 2 /\ nev' = 1 + nfd /\ fx' = f0 /\ B' = J0
  /\ IF Singular(J0) THEN pc' = "err" /\ x' = x0 /\ s' = s /\ result' = result
     ELSE /\ StepOk(J0, x0, f0, x1)
          /\ x' = x1 /\ s' = stepOf
          /\ IF StepSmall(x0, x1, t) THEN pc' = "ok" /\ result' = x1 ELSE pc' = "run" /\ result' = result

\* one pass of the loop: f at the current guess, Broyden update, next step to xn
Iter(fnew, xn, stepOf) ==
  /\ pc = "run" /\ n < nmax
  /\ LET Bn == Update(B, fx, fnew, s) IN
     /\ StepOk(Bn, x, fnew, xn)
     /\ B' = Bn /\ fx' = fnew /\ s' = stepOf /\ x' = xn /\ nev' = nev + 1
     /\ IF StepSmall(x, xn, tol) THEN pc' = "ok" /\ result' = xn /\ n' = n
                                 ELSE n' = n + 1 /\ UNCHANGED <<pc, result>>
  /\ UNCHANGED <<tol, nmax>>

GiveUp == pc = "run" /\ n >= nmax /\ pc' = "err" /\ UNCHANGED <<x, fx, B, s, tol, nmax, n, nev, result>>
Done == pc \in {"ok", "err"} /\ UNCHANGED vars
=============================================================================
