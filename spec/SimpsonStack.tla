---------------------------- MODULE SimpsonStack ----------------------------
(***************************************************************************)
(* Design model of the explicit-stack adaptive Simpson loop of             *)
(* integrate_simpson (src/integrate/mod.rs).  Panels are dyadic: a frame   *)
(* is [lvl, idx] = the idx-th panel (from the left, 0-based) of width      *)
(* 2^-lvl of the whole interval; each frame carries the tolerance of its   *)
(* level and `own`, the identity of the panel whose coarse Simpson         *)
(* estimate it stores (sum_i in the code).  The accept/split verdict of a  *)
(* panel is an arbitrary function of the panel (its estimate), explored    *)
(* exhaustively: Verdicts is the set of panels that are accepted.          *)
(*                                                                         *)
(* The pinned code pushes the LEFT half with sum_i of the PARENT panel     *)
(* (`sum_i[i-1] = sum_i[i-2]`, i.e. the right half's estimate after the    *)
(* preceding push): the switch StaleLeftEstimate re-creates that, and the  *)
(* invariant OwnEstimate exposes it.                                       *)
(***************************************************************************)
EXTENDS Integers, Sequences, FiniteSets

CONSTANTS MaxLevel,           \* n_max of the routine (levels are 1-based in the code)
          StaleLeftEstimate   \* defect switch
VARIABLES stack, accepted, stat, evals, split
vars == <<stack, accepted, stat, evals, split>>
(* split: the set of panels the (nondeterministic) error test rejects - chosen up front so that the
   verdict is a function of the panel, as in a real run *)

Panel(l, i) == [lvl |-> l, idx |-> i]
Frame(l, i, ownl, owni) == [lvl |-> l, idx |-> i, own |-> Panel(ownl, owni)]
AllPanels == UNION { {Panel(l, i) : i \in 0..(2^(l - 1) - 1)} : l \in 1..(MaxLevel + 1) }

Init == /\ stack = << Frame(1, 0, 1, 0) >>
        /\ accepted = {} /\ stat = "run" /\ evals = 3
        /\ split \in SUBSET {p \in AllPanels : p.lvl <= MaxLevel}

Top == stack[Len(stack)]
Pop == SubSeq(stack, 1, Len(stack) - 1)

\* The stack operations without the verdict guard (AcceptV, SplitV): used as they are by the trace
\* specification Trace_Simpson, where the verdict is computed from the recorded function values.
AcceptV ==
  /\ stat = "run" /\ Len(stack) > 0
  /\ accepted' = accepted \cup {Panel(Top.lvl, Top.idx)}
  /\ stack' = Pop /\ evals' = evals + 2
  /\ UNCHANGED <<stat, split>>

SplitV ==
  /\ stat = "run" /\ Len(stack) > 0
  /\ evals' = evals + 2
  /\ IF Top.lvl >= MaxLevel
       THEN stat' = "err" /\ UNCHANGED <<stack, accepted>>
       ELSE LET l == Top.lvl + 1
                right == Frame(l, 2 * Top.idx + 1, l, 2 * Top.idx + 1)
                left == IF StaleLeftEstimate THEN Frame(l, 2 * Top.idx, l, 2 * Top.idx + 1)     \* sum_i[i-1] = sum_i[i-2]
                        ELSE Frame(l, 2 * Top.idx, l, 2 * Top.idx)
            IN stack' = Pop \o <<right, left>> /\ UNCHANGED <<stat, accepted>>
  /\ UNCHANGED split

Accept == stat = "run" /\ Len(stack) > 0 /\ Panel(Top.lvl, Top.idx) \notin split /\ AcceptV
Split == stat = "run" /\ Len(stack) > 0 /\ Panel(Top.lvl, Top.idx) \in split /\ SplitV

Finish == stat = "run" /\ Len(stack) = 0 /\ stat' = "ok" /\ UNCHANGED <<stack, accepted, evals, split>>
Next == Accept \/ Split \/ Finish

\* ---- invariants -------------------------------------------------------------------------------
\* the unit interval measured in units of 2^-MaxLevel
Width(p) == 2^(MaxLevel + 1 - p.lvl)
Start(p) == p.idx * Width(p)
Overlap(p, q) == Start(p) < Start(q) + Width(q) /\ Start(q) < Start(p) + Width(p)
OnStack == {Panel(stack[j].lvl, stack[j].idx) : j \in 1..Len(stack)}
\* pending and accepted panels never overlap and together tile the interval
Disjoint == \A p, q \in OnStack \cup accepted : p # q => ~Overlap(p, q)
Covers == stat = "run" =>
            LET S == OnStack \cup accepted
                sum[T \in SUBSET S] == IF T = {} THEN 0 ELSE LET p == CHOOSE p \in T : TRUE IN Width(p) + sum[T \ {p}]
            IN sum[S] = 2^MaxLevel
AcceptedPartitionAtEnd == stat = "ok" =>
            LET sum[T \in SUBSET accepted] == IF T = {} THEN 0 ELSE LET p == CHOOSE p \in T : TRUE IN Width(p) + sum[T \ {p}]
            IN sum[accepted] = 2^MaxLevel
\* the coarse estimate stored with a frame is that frame's own panel
OwnEstimate == \A j \in 1..Len(stack) : stack[j].own = Panel(stack[j].lvl, stack[j].idx)
LevelBounded == \A j \in 1..Len(stack) : stack[j].lvl <= MaxLevel
\* evaluations = 3 + 2 * (panels examined)
EvalAccounting == evals = 3 + 2 * (Cardinality(accepted) + Cardinality({p \in split : \E q \in OnStack \cup accepted : q.lvl > p.lvl /\ Overlap(p, q)})
                              + (IF stat = "err" THEN 1 ELSE 0))
Terminates == <>(stat # "run")
=============================================================================
