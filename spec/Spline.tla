------------------------------- MODULE Spline -------------------------------
(***************************************************************************)
(* Characterisation of the interpolating cubic spline (C16).  By the       *)
(* uniqueness theorem a piecewise cubic S on knots x_1 < ... < x_n is the  *)
(* free (natural) / clamped spline of the data iff                         *)
(*   (1) S(x_i) = y_i,   (2) S' and (3) S'' are continuous at interior     *)
(*   knots,   (4) S''(x_1) = S''(x_n) = 0  (free)  or  S'(x_1) = f0,        *)
(*   S'(x_n) = fn (clamped).                                               *)
(* The implementation exposes value and first derivative only.  For each   *)
(* piece the harness samples both near its two ends (at distance e = h/2^20 *)
(* inside the piece) and at h/4, h/2, 3h/4.  The end samples give the      *)
(* piece's Hermite data (y, m at both ends), from which the one-sided      *)
(* second derivatives follow:                                              *)
(*   S''(left+)  = (6 (yR - yL)/h - 4 mL - 2 mR) / h                        *)
(*   S''(right-) = (-6 (yR - yL)/h + 2 mL + 4 mR) / h                       *)
(* and the three interior samples confirm that the piece *is* the cubic    *)
(* those data define (so the formulas apply).                              *)
(* States/values are complex <<re, im>>; knots are real.                   *)
(***************************************************************************)
EXTENDS Integers, Sequences, F64

\* Hermite cubic through (0,yL,mL), (h,yR,mR) evaluated at s in [0,h]: value and derivative
HermiteCubic(yL, mL, yR, mR, h, s) ==
  LET t == FDiv(s, h)
      t2 == FMul(t, t) t3 == FMul(t2, t)
      h00 == FAdd(FSub(FMul(F2, t3), FMul(FOfInt(3), t2)), F1)
      h10 == FAdd(FSub(t3, FMul(F2, t2)), t)
      h01 == FAdd(FMul(FOfInt(-2), t3), FMul(FOfInt(3), t2))
      h11 == FSub(t3, t2)
  IN CAdd(CAdd(CScale(h00, yL), CScale(FMul(h10, h), mL)), CAdd(CScale(h01, yR), CScale(FMul(h11, h), mR)))
Sec(yL, mL, yR, mR, h, atLeft) ==
  LET slope == CScale(FDiv(FOfInt(6), h), CSub(yR, yL))
  IN IF atLeft THEN CScale(FDiv(F1, h), CSub(CSub(slope, CScale(FOfInt(4), mL)), CScale(F2, mR)))
     ELSE CScale(FDiv(F1, h), CAdd(CAdd(CNeg(slope), CScale(F2, mL)), CScale(FOfInt(4), mR)))
=============================================================================
