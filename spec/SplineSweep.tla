------------------------------ MODULE SplineSweep ------------------------------
(***************************************************************************)
(* Design model of interp::spline_free and interp::spline_clamped as they  *)
(* stand in the tree (C16), over an abstract field: the right-hand sides   *)
(* alpha, the forward sweep of the tridiagonal system (l, mu, z; one       *)
(* action per row), the closing row, and the back substitution (c, b, d;   *)
(* one action per piece).  Sequences are 1-based: entry k stands for the   *)
(* code's index k - 1.  The piece over [x_k, x_k+1] is                     *)
(*     y_k + b_k (x - x_k) + c_k (x - x_k)^2 + d_k (x - x_k)^3 .           *)
(* Instantiated over exact rationals in MC_SplineSweep, where TLC checks   *)
(* that what the sweeps produce is the spline of the contract (Spline):    *)
(* interpolation, continuity of value, slope and curvature at every        *)
(* interior knot, the end conditions, and that no pivot l_k vanishes.      *)
(* Defects = {"sweep_uses_the_row_s_own_interval"} is a slip of the kind   *)
(* the seeded changes made (h_j for h_j-1 in the pivot); TLC refutes it on *)
(* the first unequally spaced knot vector (self-test).                     *)
(***************************************************************************)
EXTENDS Integers, Sequences

CONSTANTS Add(_, _), Sub(_, _), Mul(_, _), Div(_, _), Zero, One, Two, Three, Third, Half, Defects
VARIABLES pc, kind, xs, ys, f0, fn, k, al, l, mu, z, c, b, d
vars == <<pc, kind, xs, ys, f0, fn, k, al, l, mu, z, c, b, d>>
(* pc : "idle" | "fwd" | "close" | "back" | "done";  k : rows (fwd) or pieces (back) still to do *)

N == Len(xs)
H(j) == Sub(xs[j + 1], xs[j])
Slope(j) == Div(Sub(ys[j + 1], ys[j]), H(j))

Init == /\ pc = "idle" /\ kind = "free" /\ xs = <<>> /\ ys = <<>> /\ f0 = Zero /\ fn = Zero /\ k = 0
        /\ al = <<>> /\ l = <<>> /\ mu = <<>> /\ z = <<>> /\ c = <<>> /\ b = <<>> /\ d = <<>>

\* right-hand sides; the two constructors group the same expression differently (it matters over the doubles only)
AlphaFree(x, y, j) == LET h(i) == Sub(x[i + 1], x[i]) IN
  Sub(Mul(Div(Three, h(j)), Sub(y[j + 1], y[j])), Mul(Div(Three, h(j - 1)), Sub(y[j], y[j - 1])))
AlphaClamped(x, y, j) == LET h(i) == Sub(x[i + 1], x[i]) IN
  Mul(Three, Sub(Div(Sub(y[j + 1], y[j]), h(j)), Div(Sub(y[j], y[j - 1]), h(j - 1))))

Begin(kd, x, y, s0, sn) ==
  /\ pc = "idle" /\ Len(x) = Len(y) /\ Len(x) >= 2
  /\ kind' = kd /\ xs' = x /\ ys' = y /\ f0' = s0 /\ fn' = sn
  /\ LET n == Len(x) h(i) == Sub(x[i + 1], x[i]) IN
     /\ al' = [j \in 1..n |->
                IF j = 1 THEN (IF kd = "free" THEN Zero ELSE Mul(Three, Sub(Div(Sub(y[2], y[1]), h(1)), s0)))
                ELSE IF j = n THEN (IF kd = "free" THEN Zero ELSE Mul(Three, Sub(sn, Div(Sub(y[n], y[n - 1]), h(n - 1)))))
                ELSE IF kd = "free" THEN AlphaFree(x, y, j) ELSE AlphaClamped(x, y, j)]
     /\ l' = <<IF kd = "free" THEN One ELSE Mul(Two, h(1))>>
     /\ mu' = <<IF kd = "free" THEN Zero ELSE Half>>
     /\ z' = <<IF kd = "free" THEN Zero ELSE Div(al'[1], l'[1])>>
  /\ c' = <<>> /\ b' = <<>> /\ d' = <<>>
  /\ k' = Len(x) - 2                                   \* interior rows to sweep
  /\ pc' = "fwd"

\* row j = Len(l) + 1 of the forward sweep
Forward ==
  /\ pc = "fwd" /\ k > 0
  /\ LET j == Len(l) + 1
         lj == Sub(Mul(Two, Sub(xs[j + 1], xs[j - 1])), Mul(H(IF "sweep_uses_the_row_s_own_interval" \in Defects THEN j ELSE j - 1), mu[j - 1]))
     IN /\ l' = Append(l, lj)
        /\ mu' = Append(mu, Div(H(j), lj))
        /\ z' = Append(z, Div(Sub(al[j], Mul(H(j - 1), z[j - 1])), lj))
  /\ k' = k - 1
  /\ UNCHANGED <<pc, kind, xs, ys, f0, fn, al, c, b, d>>

\* the last row, and the end value of c from which the back substitution starts
Close ==
  /\ pc = "fwd" /\ k = 0
  /\ LET n == N
         ln == IF kind = "free" THEN One ELSE Mul(H(n - 1), Sub(Two, mu[n - 1]))
         zn == IF kind = "free" THEN Zero ELSE Div(Sub(al[n], Mul(H(n - 1), z[n - 1])), ln)
     IN /\ l' = Append(l, ln) /\ z' = Append(z, zn)
        /\ c' = [j \in 1..n |-> IF j = n THEN (IF kind = "free" THEN Zero ELSE zn) ELSE Zero]
        /\ b' = [j \in 1..n |-> Zero] /\ d' = [j \in 1..n |-> Zero]
  /\ k' = N - 1                                        \* pieces to fill, from the last to the first
  /\ pc' = "back"
  /\ UNCHANGED <<kind, xs, ys, f0, fn, al, mu>>

Back ==
  /\ pc = "back" /\ k > 0
  /\ LET j == k
         cj == Sub(z[j], Mul(mu[j], c[j + 1]))
         bj == IF kind = "free"
                 THEN Sub(Slope(j), Mul(Mul(H(j), Add(c[j + 1], Mul(Two, cj))), Third))
                 ELSE Sub(Slope(j), Mul(Mul(H(j), Third), Add(c[j + 1], Mul(Two, cj))))
         dj == Div(Sub(c[j + 1], cj), Mul(Three, H(j)))
     IN /\ c' = [c EXCEPT ![j] = cj] /\ b' = [b EXCEPT ![j] = bj] /\ d' = [d EXCEPT ![j] = dj]
  /\ k' = k - 1
  /\ pc' = IF k = 1 THEN "done" ELSE "back"
  /\ UNCHANGED <<kind, xs, ys, f0, fn, al, l, mu, z>>

Done == pc = "done" /\ UNCHANGED vars
=============================================================================
