------------------------------ MODULE Steffensen ------------------------------
(***************************************************************************)
(* Design model of roots::steffensen as it stands in the tree (C08), over  *)
(* an abstract field, one action per pass of its loop (two evaluations of  *)
(* the map g):                                                             *)
(*    guess = g(x);   if |guess - x| <= tol  return guess                  *)
(*    new   = g(guess)                                                     *)
(*    d     = x - (guess - x)^2 / (new - 2 guess + x)     (Aitken)         *)
(*    if |d - x| <= tol  return d;   x := d                                *)
(* Err after n_max passes.  The values of g are parameters of the action.  *)
(* Instantiated over exact rationals (MC_Steffensen: on an affine map      *)
(* Aitken's formula is exact, so the second pass returns the fixed point)  *)
(* and over IEEE doubles (Trace_Steffensen: every abscissa and the         *)
(* returned number of real runs, bit for bit).                             *)
(***************************************************************************)
EXTENDS Integers, Sequences

CONSTANTS Add(_, _), Sub(_, _), Mul(_, _), Div(_, _), Le(_, _), AbsV(_), Two, Zero

VARIABLES pc, x, tol, nmax, n, nev, result
vars == <<pc, x, tol, nmax, n, nev, result>>
(* pc : "idle" | "run" | "ok" | "err";  x : the current iterate (`initial` in the code);  n : passes completed *)

Init == pc = "idle" /\ x = Zero /\ tol = Zero /\ nmax = 0 /\ n = 0 /\ nev = 0 /\ result = Zero

Begin(x0, t, nm) == /\ pc = "idle" /\ pc' = "run" /\ x' = x0 /\ tol' = t /\ nmax' = nm /\ n' = 0 /\ nev' = 0 /\ result' = result

Aitken(x0, x1, x2) == Sub(x0, Div(Mul(Sub(x1, x0), Sub(x1, x0)), Add(Sub(x2, Mul(Two, x1)), x0)))

\* one pass; G1 = g(x), G2(y) = g(y) for the second evaluation (only made when the first test fails)
Pass(G1, G2(_)) ==
  /\ pc = "run" /\ n < nmax
  /\ IF Le(AbsV(Sub(G1, x)), tol)
       THEN pc' = "ok" /\ result' = G1 /\ nev' = nev + 1 /\ UNCHANGED <<x, n>>
       ELSE LET d == Aitken(x, G1, G2(G1)) IN
            /\ nev' = nev + 2
            /\ IF Le(AbsV(Sub(d, x)), tol)
                 THEN pc' = "ok" /\ result' = d /\ UNCHANGED <<x, n>>
                 ELSE x' = d /\ n' = n + 1 /\ UNCHANGED <<pc, result>>
  /\ UNCHANGED <<tol, nmax>>

GiveUp == pc = "run" /\ n >= nmax /\ pc' = "err" /\ UNCHANGED <<x, tol, nmax, n, nev, result>>
Done == pc \in {"ok", "err"} /\ UNCHANGED vars
=============================================================================
