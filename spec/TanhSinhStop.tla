---------------------------- MODULE TanhSinhStop ----------------------------
(***************************************************************************)
(* Design model of the stopping logic of the tanh-sinh integrator          *)
(* (integrate_core in src/integrate/mod.rs): one centre evaluation, then   *)
(* up to N table levels.  After each level the change of the estimate      *)
(* (delta) gives an error estimate - delta^2 when the ratio of the         *)
(* logarithms of the last two deltas is about 2, else delta - and the loop *)
(* stops at the first level >= 3 whose estimate is below the tolerance     *)
(* (levels 1 and 2 are never tested: after them only 13 evaluations have   *)
(* been made and the previous delta is meaningless), or whose delta is     *)
(* exactly zero.  Err when no level qualifies.                             *)
(* The numbers are abstracted to two verdict sequences chosen up front     *)
(* (they are functions of the integrand):                                  *)
(*     small[k] == estimate_k < tol        zero[k] == delta_k = 0          *)
(* and TLC explores all of them.                                           *)
(***************************************************************************)
EXTENDS Integers, Sequences

CONSTANTS N, TolPositive       \* TolPositive: tol > 0 (a tolerance of exactly 0 is accepted by the argument check)
VARIABLES small, zero, k, stat, result
vars == <<small, zero, k, stat, result>>

Init == /\ small \in [1..N -> BOOLEAN] /\ zero \in [1..N -> BOOLEAN] /\ k = 0 /\ stat = "run" /\ result = 0

\* one level with its verdicts (LevelV is used as it is by the trace specification Trace_TanhSinh)
LevelV(v, z) ==
  /\ stat = "run" /\ k < N
  /\ k' = k + 1
  /\ IF k + 1 <= 2 THEN UNCHANGED <<stat, result>>
     ELSE IF z THEN /\ stat' = (IF TolPositive THEN "ok" ELSE "err") /\ result' = k + 1     \* estimate := 0, break; 0 < tol ?
     ELSE IF v THEN stat' = "ok" /\ result' = k + 1
     ELSE UNCHANGED <<stat, result>>
  /\ UNCHANGED <<small, zero>>
Level == stat = "run" /\ k < N /\ LevelV(small[k + 1], zero[k + 1])
Exhausted == stat = "run" /\ k = N /\ stat' = "err" /\ UNCHANGED <<small, zero, k, result>>
Next == Level \/ Exhausted

NeverBeforeThirdLevel == stat = "ok" => result >= 3
\* (the invariants that need the recursively defined "first qualifying level" are in MC_TanhSinhStop; this module is
\* kept free of RECURSIVE so that TLAPS can read it: TanhSinhLemmas proves NeverBeforeThirdLevel for every N)
=============================================================================
