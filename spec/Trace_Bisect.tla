----------------------------- MODULE Trace_Bisect -----------------------------
(***************************************************************************)
(* E3, design level, for C07: the abscissae the real roots::bisection      *)
(* asked its function for (recorded by the harness's closure, with the     *)
(* values it returned) are validated against module Bisect instantiated    *)
(* over IEEE doubles.  bisection() uses only + - * abs max and             *)
(* comparisons, so the specification reproduces every abscissa and the     *)
(* returned number bit for bit: Begin consumes the two end-point           *)
(* evaluations, every Iter one more (taking the function value from the    *)
(* log, FV) and must ask for the logged abscissa.  One observation line    *)
(* per run:  [solver, a, b, tol, n_max, evals = << <<x, f(x)>>, ... >>,    *)
(*            n, ret, x]                                                   *)
(* A mismatch is DRIFT, reported per run; the run is abandoned.            *)
(***************************************************************************)
EXTENDS Integers, Sequences, FiniteSets, TLC, Json, IOUtils, F64

Obs == ndJsonDeserialize(IOEnv.VH_OBS)

VARIABLES pc, tol, nmax, a0, b0, left, right, fa, middle, n, nev, inside, result, i, bad, nok
bvars == <<pc, tol, nmax, a0, b0, left, right, fa, middle, n, nev, inside, result>>
vars == <<pc, tol, nmax, a0, b0, left, right, fa, middle, n, nev, inside, result, i, bad, nok>>

B == INSTANCE Bisect WITH Plus <- FAdd, Minus <- FSub, Half <- LAMBDA x : FMul(x, FHalf), Le <- FLe, Lt <- FLt, AbsV <- FAbs,
                         TolAt <- LAMBDA t, m : FMul(t, FMax(FAbs(m), F1)),
                         SignPosProd <- LAMBDA u, v : ~FSignBit(FMul(u, v)), Zero <- F0, Defects <- {}

Row == Obs[i]
Ev(j) == Row.evals[j]
Usable(o) == o.solver = "bisection" /\ o.ret \in {"ok", "err"} /\ o.n <= Len(o.evals)
Drift(what) == PrintT(<<"DRIFT", i, what>>)
RowOver == IF i = 0 THEN TRUE ELSE IF ~Usable(Row) THEN TRUE ELSE (bad \/ pc \in {"ok", "err"})
Live == i > 0 /\ ~bad /\ Usable(Row)

Init == B!Init /\ i = 0 /\ bad = FALSE /\ nok = 0 /\ TLCSet(1, 0)

NextRow ==
  /\ RowOver /\ i < Len(Obs)
  /\ i' = i + 1 /\ bad' = FALSE /\ UNCHANGED nok
  /\ pc' = "idle" /\ UNCHANGED <<tol, nmax, a0, b0, left, right, fa, middle, n, nev, inside, result>>

TBegin ==
  /\ Live /\ pc = "idle"
  /\ IF Row.n >= 2
       THEN /\ B!Begin(Row.a, Row.b, Row.tol, Row.n_max, Ev(1)[2], Ev(2)[2])
            /\ bad' = ~(nev' = 2 /\ FEq(Ev(1)[1], Row.a) /\ FEq(Ev(2)[1], Row.b) /\ (pc' = "err" => Row.ret = "err" /\ Row.n = 2))
            /\ bad' => Drift("first_two_evaluations_are_the_end_points")
       ELSE /\ B!Begin(Row.a, Row.b, Row.tol, Row.n_max, F0, F0)
            /\ bad' = ~(pc' = "err" /\ nev' = 0 /\ Row.ret = "err" /\ Row.n = 0)
            /\ bad' => Drift("error_without_evaluation_only_for_misordered_ends")
  /\ nok' = nok + (IF ~bad' /\ pc' = "err" THEN 1 ELSE 0)
  /\ UNCHANGED i

TIter ==
  /\ Live /\ pc = "run" /\ n <= nmax
  /\ IF nev < Row.n
       THEN /\ B!Iter(LAMBDA x : Ev(nev + 1)[2])
            /\ bad' = ~(/\ FEq(middle, Ev(nev + 1)[1])
                        /\ (pc' = "ok" => nev' = Row.n /\ Row.ret = "ok" /\ FEq(result', Row.x)))
            /\ bad' => Drift(IF pc' = "ok" THEN "stopping_test_and_returned_midpoint" ELSE "loop_abscissa_is_the_midpoint_of_the_bracket")
       ELSE /\ bad' = TRUE /\ Drift("run_stopped_while_the_design_continues") /\ UNCHANGED bvars
  /\ nok' = nok + (IF ~bad' /\ pc' = "ok" THEN 1 ELSE 0)
  /\ UNCHANGED i

TGiveUp ==
  /\ Live /\ B!GiveUp
  /\ bad' = ~(Row.ret = "err" /\ nev = Row.n)
  /\ bad' => Drift("iteration_cap_gives_err")
  /\ nok' = nok + (IF bad' THEN 0 ELSE 1)
  /\ UNCHANGED i

Finish == /\ i = Len(Obs) /\ RowOver
          /\ TLCGet(1) = 0 /\ TLCSet(1, 1)
          /\ PrintT(<<"STAT", "bisection_runs_explained", nok>>)
          /\ PrintT(<<"CHECKED", Len(Obs)>>)
          /\ UNCHANGED vars

Next == NextRow \/ TBegin \/ TIter \/ TGiveUp \/ Finish
=============================================================================
