----------------------------- MODULE Trace_Brent -----------------------------
(***************************************************************************)
(* E3, design level, for C07: the abscissae the real roots::brent asked    *)
(* its function for (recorded by the harness's closure, with the values    *)
(* it returned) are validated against module Brent instantiated over IEEE  *)
(* doubles.  brent() uses only + - * / abs and comparisons, so the         *)
(* specification reproduces every abscissa bit for bit: each Brent action  *)
(* consumes one recorded evaluation, takes the function value from the     *)
(* log (FV) and must produce the logged abscissa; Exit must produce the    *)
(* returned number.  One observation line per run:                         *)
(*   [solver, a, b, tol, evals = << <<x, f(x)>>, ... >>, n, ret, x]        *)
(* A mismatch is DRIFT (the code left the verified design) and is reported *)
(* per run; the run is then abandoned and the next one started.            *)
(***************************************************************************)
EXTENDS Integers, Sequences, FiniteSets, TLC, Json, IOUtils, F64

Obs == ndJsonDeserialize(IOEnv.VH_OBS)

VARIABLES pc, tol, a0, b0, left, right, fl, fr, c, fc, d, s, fs, mflag, n, inside, iqi, i, k, bad, nok
bvars == <<pc, tol, a0, b0, left, right, fl, fr, c, fc, d, s, fs, mflag, n, inside, iqi>>
vars == <<pc, tol, a0, b0, left, right, fl, fr, c, fc, d, s, fs, mflag, n, inside, iqi, i, k, bad, nok>>
(* i : current observation (0 before the first);  k : evaluations of it consumed so far
   bad : the current run has drifted;  nok : runs explained completely *)

B == INSTANCE Brent WITH Plus <- FAdd, Minus <- FSub, Times <- FMul, Quot <- FDiv, Lt <- FLt, Le <- FLe,
                        AbsV <- FAbs, SignNeg <- FSignBit, Num <- FOfInt, Defects <- {}

Row == Obs[i]
Ev(j) == Row.evals[j]
Usable(o) == o.solver = "brent" /\ o.ret \in {"ok", "err"} /\ o.n <= Len(o.evals)
Drift(what) == PrintT(<<"DRIFT", i, what>>)

Init == B!Init /\ i = 0 /\ k = 0 /\ bad = FALSE /\ nok = 0 /\ TLCSet(1, 0)

\* the current observation has been dealt with (IF, not a disjunction: TLC would evaluate Row at i = 0)
RowOver == IF i = 0 THEN TRUE ELSE IF ~Usable(Row) THEN TRUE ELSE (bad \/ pc \in {"ok", "err"})

\* move to the next observation (runs of other solvers, truncated logs and budget / panic runs are skipped)
NextRow ==
  /\ RowOver
  /\ i < Len(Obs)
  /\ i' = i + 1 /\ k' = 0 /\ bad' = FALSE /\ UNCHANGED nok
  /\ pc' = "idle" /\ UNCHANGED <<tol, a0, b0, left, right, fl, fr, c, fc, d, s, fs, mflag, n, inside, iqi>>

Live == i > 0 /\ ~bad /\ Usable(Row)

TBegin ==
  /\ Live /\ pc = "idle"
  /\ IF Row.n >= 2
       THEN /\ B!Begin(Row.a, Row.b, Row.tol, Ev(1)[2], Ev(2)[2])
            /\ k' = 2
            /\ bad' = ~(FEq(Ev(1)[1], Row.a) /\ FEq(Ev(2)[1], Row.b) /\ (pc' = "err" => Row.ret = "err" /\ Row.n = 2))
            /\ bad' => Drift("first_two_evaluations_are_the_end_points")
       ELSE \* no evaluation at all: only a negative tolerance explains it
            /\ B!Begin(Row.a, Row.b, Row.tol, F0, F0)
            /\ k' = 0
            /\ bad' = ~(pc' = "err" /\ n' = 0 /\ Row.ret = "err" /\ Row.n = 0)
            /\ bad' => Drift("error_without_evaluation_only_for_invalid_tolerance")
  /\ nok' = nok + (IF ~bad' /\ pc' = "err" THEN 1 ELSE 0)
  /\ UNCHANGED i

TFirst ==
  /\ Live /\ pc = "first"
  /\ IF k < Row.n
       THEN /\ B!First(LAMBDA x : Ev(k + 1)[2])
            /\ k' = k + 1
            /\ bad' = ~FEq(s, Ev(k + 1)[1])
            /\ bad' => Drift("first_trial_point_is_the_secant_point")
       ELSE /\ bad' = TRUE /\ Drift("run_ended_before_the_first_trial_point") /\ UNCHANGED <<bvars, k>>
  /\ UNCHANGED <<i, nok>>

TIter ==
  /\ Live /\ pc = "loop" /\ ~B!Stop
  /\ IF k < Row.n
       THEN /\ B!Iter(LAMBDA x : Ev(k + 1)[2], LAMBDA v : {v})
            /\ k' = k + 1
            /\ bad' = ~FEq(s', Ev(k + 1)[1])
            /\ bad' => Drift("loop_abscissa_is_the_safeguarded_interpolation_point")
       ELSE /\ bad' = TRUE /\ Drift("run_stopped_while_the_design_continues") /\ UNCHANGED <<bvars, k>>
  /\ UNCHANGED <<i, nok>>

TExit ==
  /\ Live /\ pc = "loop" /\ B!Stop
  /\ B!Exit
  /\ bad' = ~(k = Row.n /\ Row.ret = "ok" /\ FEq(s', Row.x))
  /\ bad' => Drift(IF k # Row.n THEN "run_continued_after_the_design_stopped" ELSE "returned_number_is_s_or_right")
  /\ nok' = nok + (IF bad' THEN 0 ELSE 1)
  /\ UNCHANGED <<i, k>>

Finish == /\ i = Len(Obs) /\ RowOver
          /\ TLCGet(1) = 0 /\ TLCSet(1, 1)
          /\ PrintT(<<"STAT", "brent_runs_explained", nok>>)
          /\ PrintT(<<"CHECKED", Len(Obs)>>)
          /\ UNCHANGED vars

Next == NextRow \/ TBegin \/ TFirst \/ TIter \/ TExit \/ Finish
=============================================================================
