------------------------------ MODULE Trace_Gauss ------------------------------
(***************************************************************************)
(* E3, design level, for C09 and C10: the abscissae the five real Gaussian *)
(* integrators (integrate_gaussian, _laguerre, _hermite, _chebyshev,       *)
(* _chebyshev_second) asked their integrand for are validated against      *)
(*   - the shipped rule tables, dumped from the tree under test (VH_TABLES)*)
(*     and consumed exactly as module QuadTables (C10) assumes: a node 0   *)
(*     is evaluated once, any other node of a symmetric family stands for  *)
(*     +x then -x, Laguerre nodes are taken as they are, Gauss-Legendre    *)
(*     nodes are mapped by  scale * x + shift ;                            *)
(*   - the stopping rule model-checked in GaussStop, whose own action      *)
(*     RuleV is taken once per rule with the verdict computed here from    *)
(*     the recorded function values (real integrands: + - * / abs only,    *)
(*     so areas, verdicts and the returned value are bit for bit).         *)
(* One TLC run per family (VH_FAMILY).  One observation line per run:      *)
(*   [routine, cx, a, b, tol, evals = << <<x, <<re, im>> >>, ... >>,       *)
(*    calls, ret, val]                                                     *)
(* A mismatch is DRIFT, reported per run; the run is abandoned.            *)
(***************************************************************************)
EXTENDS Integers, Sequences, FiniteSets, TLC, Json, IOUtils, F64

Obs == ndJsonDeserialize(IOEnv.VH_OBS)
Family == IOEnv.VH_FAMILY
AllRows == ndJsonDeserialize(IOEnv.VH_TABLES)
Idx == {j \in 1..Len(AllRows) : AllRows[j].table = Family}
NRules == Cardinality(Idx)
\* Tab[n] = the pairs <<node, weight>> of the n-th rule of the family
Tab == [n \in 1..NRules |-> AllRows[CHOOSE j \in Idx : AllRows[j].row = n].pairs]

VARIABLES small, k, prevSmall, stat, result, prevArea, area, tolEff, scale, shift, nev, r, bad, nok
gvars == <<small, k, prevSmall, stat, result>>
vars == <<small, k, prevSmall, stat, result, prevArea, area, tolEff, scale, shift, nev, r, bad, nok>>

G == INSTANCE GaussStop WITH N <- NRules

Row == Obs[r]
X(j) == Row.evals[j][1]
Y(j) == Row.evals[j][2][1]
Routine == IF Family = "legendre" THEN "legendre" ELSE Family
Usable(o) == o.routine = Routine /\ ~o.cx /\ o.ret \in {"ok", "err"} /\ o.calls <= Len(o.evals)
Drift(what) == PrintT(<<"DRIFT", r, what>>)
RowOver == IF r = 0 THEN TRUE ELSE IF ~Usable(Row) THEN TRUE ELSE (bad \/ stat \in {"ok", "err"})
Live == r > 0 /\ ~bad /\ Usable(Row)
Symmetric == Family # "laguerre"

Init == /\ small = <<>> /\ k = 0 /\ prevSmall = FALSE /\ stat = "idle" /\ result = 0
        /\ prevArea = F0 /\ area = F0 /\ tolEff = F0 /\ scale = F1 /\ shift = F0 /\ nev = 0
        /\ r = 0 /\ bad = FALSE /\ nok = 0 /\ TLCSet(1, 0)

NextObs ==
  /\ RowOver /\ r < Len(Obs)
  /\ r' = r + 1 /\ bad' = FALSE /\ stat' = "idle" /\ k' = 0 /\ prevSmall' = FALSE /\ result' = 0 /\ nev' = 0
  /\ prevArea' = F0 /\ area' = F0 /\ UNCHANGED <<small, tolEff, scale, shift, nok>>

\* argument checks of the routine
TBegin ==
  /\ Live /\ stat = "idle"
  /\ LET invalid == (Family = "legendre" /\ FLe(Row.b, Row.a)) \/ FSignBit(Row.tol)
         sc == IF Family = "legendre" THEN FMul(FHalf, FSub(Row.b, Row.a)) ELSE F1
     IN IF invalid
          THEN /\ stat' = "err"
               /\ bad' = ~(Row.ret = "err" /\ Row.calls = 0)
               /\ bad' => Drift("invalid_interval_or_tolerance_gives_err_without_evaluation")
               /\ nok' = nok + (IF bad' THEN 0 ELSE 1)
               /\ UNCHANGED <<tolEff, scale, shift>>
          ELSE /\ stat' = "run" /\ bad' = FALSE /\ UNCHANGED nok
               /\ scale' = sc
               /\ shift' = (IF Family = "legendre" THEN FMul(FHalf, FAdd(Row.b, Row.a)) ELSE F0)
               /\ tolEff' = (IF Family = "legendre" THEN FDiv(FMul(FOfDec("0.25"), Row.tol), sc) ELSE Row.tol)
  /\ UNCHANGED <<small, k, prevSmall, result, prevArea, area, nev, r>>

\* the abscissae rule n evaluates, in the order of the code, and the area it forms from the values vals
Map(x) == IF Family = "legendre" THEN FAdd(FMul(scale, x), shift) ELSE x
RECURSIVE Absc(_, _)
Absc(pairs, j) ==
  IF j > Len(pairs) THEN <<>>
  ELSE (IF Symmetric /\ ~FEq(pairs[j][1], F0) THEN <<Map(pairs[j][1]), Map(FNeg(pairs[j][1]))>>
        ELSE <<Map(IF Symmetric THEN F0 ELSE pairs[j][1])>>) \o Absc(pairs, j + 1)
RECURSIVE AreaOf(_, _, _, _, _)
AreaOf(pairs, vals, j, p, acc) ==          \* p: next index into vals
  IF j > Len(pairs) THEN acc
  ELSE IF Symmetric /\ ~FEq(pairs[j][1], F0)
         THEN AreaOf(pairs, vals, j + 1, p + 2, FAdd(acc, FMul(pairs[j][2], FAdd(vals[p], vals[p + 1]))))
         ELSE AreaOf(pairs, vals, j + 1, p + 1, FAdd(acc, FMul(pairs[j][2], vals[p])))

TRule ==
  /\ Live /\ stat = "run" /\ k < NRules
  /\ LET pairs == Tab[k + 1]
         xs == Absc(pairs, 1)
         m == Len(xs)
     IN IF nev + m > Row.calls
          THEN /\ bad' = TRUE /\ Drift("run_stopped_while_rules_remain_and_no_agreement_was_reached")
               /\ UNCHANGED <<gvars, prevArea, area, nev, nok>>
          ELSE LET vals == [j \in 1..m |-> Y(nev + j)]
                   ar == AreaOf(pairs, vals, 1, 1, F0)
                   v == FLt(FAbs(FSub(ar, prevArea)), tolEff)
               IN /\ G!RuleV(v)
                  /\ area' = ar /\ prevArea' = ar /\ nev' = nev + m
                  /\ bad' = ~(/\ \A j \in 1..m : FEq(X(nev + j), xs[j])
                              /\ (stat' = "ok" => /\ nev' = Row.calls /\ Row.ret = "ok"
                                                  /\ FEq(Row.val[1], IF Family = "legendre" THEN FMul(ar, scale) ELSE ar)))
                  /\ bad' => Drift(IF stat' = "ok" THEN "returns_the_area_of_the_first_rule_with_two_consecutive_agreements"
                                   ELSE "rule_evaluates_its_table_nodes_in_order")
                  /\ nok' = nok + (IF ~bad' /\ stat' = "ok" THEN 1 ELSE 0)
  /\ UNCHANGED <<tolEff, scale, shift, r>>

TExhausted ==
  /\ Live /\ G!Exhausted
  /\ bad' = ~(Row.ret = "err" /\ nev = Row.calls)
  /\ bad' => Drift("err_only_when_the_table_is_exhausted")
  /\ nok' = nok + (IF bad' THEN 0 ELSE 1)
  /\ UNCHANGED <<prevArea, area, tolEff, scale, shift, nev, r>>

Finish == /\ r = Len(Obs) /\ RowOver
          /\ TLCGet(1) = 0 /\ TLCSet(1, 1)
          /\ PrintT(<<"STAT", "gauss_runs_explained", nok>>)
          /\ PrintT(<<"CHECKED", Len(Obs)>>)
          /\ UNCHANGED vars

Next == NextObs \/ TBegin \/ TRule \/ TExhausted \/ Finish
=============================================================================
