-------------------------- MODULE Trace_HermiteDD --------------------------
(***************************************************************************)
(* Design-level trace validation for C15 (Hermite): every recorded call of *)
(* interp::hermite (nodes, ordinates, derivatives, tolerance -> Ok(poly) / *)
(* Err) is replayed through the design model HermiteDD over IEEE doubles - *)
(* the divided-difference table cell by cell, the Horner assembly factor   *)
(* by factor, the cleaning - and the coefficients the model ends with must *)
(* be the recorded ones, bit for bit (real data with real arithmetic,      *)
(* complex data with num_complex's product and quotient formulas).         *)
(* A mismatch is a DRIFT, not a violation.                                 *)
(***************************************************************************)
EXTENDS Integers, Sequences, FiniteSets, TLC, Json, IOUtils, F64
Obs == ndJsonDeserialize(IOEnv.VH_OBS)
VARIABLES pc, xs, ys, ds, tol, q, r, cc, p, i, bad, nok
C0 == <<F0, F0>>
RMul(x, y) == <<FMul(x[1], y[1]), F0>>
RDiv(x, y) == <<FDiv(x[1], y[1]), F0>>
RAdd(x, y) == <<FAdd(x[1], y[1]), F0>>
RSub(x, y) == <<FSub(x[1], y[1]), F0>>
RNeg(x) == <<FNeg(x[1]), F0>>
AbsLtC(c, t) == FLt(CAbs(c), t)
AbsLtR(c, t) == FLt(FAbs(c[1]), t)
SmallLeC(c, t) == FLe(FAbs(c[1]), t) /\ FLe(FAbs(c[2]), t)
HR == INSTANCE HermiteDD WITH Add <- RAdd, Sub <- RSub, Mul <- RMul, Div <- RDiv, Neg <- RNeg, AbsLt <- AbsLtR, SmallLe <- SmallLeC,
        Zero <- C0, One <- <<F1, F0>>, DefaultTol <- FOfDec("1e-10"), TolZero <- F0, Defects <- {}
HC == INSTANCE HermiteDD WITH Add <- CAdd, Sub <- CSub, Mul <- CMul, Div <- CDiv, Neg <- CNeg, AbsLt <- AbsLtC, SmallLe <- SmallLeC,
        Zero <- C0, One <- <<F1, F0>>, DefaultTol <- FOfDec("1e-10"), TolZero <- F0, Defects <- {}
svars == <<pc, xs, ys, ds, tol, q, r, cc, p>>
vars == <<svars, i, bad, nok>>

Row == Obs[i]
Usable(o) == o.kind = "hermite" /\ o.obs.st \in {"ok", "err", "panic"}
Drift(what) == PrintT(<<"DRIFT", i, what>>)
SameSeq(s, t) == Len(s) = Len(t) /\ \A j \in 1..Len(s) : FEq(s[j][1], t[j][1]) /\ FEq(s[j][2], t[j][2])

Init == HR!Init /\ i = 0 /\ bad = FALSE /\ nok = 0 /\ TLCSet(1, 0)
RowOver == IF i = 0 THEN TRUE ELSE IF ~Usable(Row) THEN TRUE ELSE (bad \/ pc \in {"done", "err", "panic"})
Live == i >= 1 /\ Usable(Row) /\ ~bad

NextRow == /\ i < Len(Obs) /\ RowOver
           /\ i' = i + 1 /\ bad' = FALSE /\ pc' = "idle"
           /\ UNCHANGED <<xs, ys, ds, tol, q, r, cc, p, nok>>
Matches == IF pc' = "err" THEN Row.obs.st = "err" ELSE IF pc' = "panic" THEN Row.obs.st = "panic"
           ELSE Row.obs.st = "ok" /\ SameSeq(p', Row.obs.coefs)
Judge == IF pc' \in {"done", "err", "panic"}
           THEN /\ bad' = ~Matches
                /\ bad' => Drift(IF pc' = "err" \/ Row.obs.st = "err" THEN "err_exactly_for_mismatched_lengths"
                                 ELSE "coefficients_of_the_divided_difference_table_and_its_assembly")
                /\ nok' = nok + (IF bad' THEN 0 ELSE 1)
           ELSE bad' = bad /\ nok' = nok
TBegin == /\ Live /\ (IF Row.cx THEN HC!Begin(Row.xs, Row.ys, Row.ds, Row.tol) ELSE HR!Begin(Row.xs, Row.ys, Row.ds, Row.tol))
          /\ Judge /\ UNCHANGED i
TCell == Live /\ (IF Row.cx THEN HC!Cell ELSE HR!Cell) /\ Judge /\ UNCHANGED i
THorner == Live /\ (IF Row.cx THEN HC!Horner ELSE HR!Horner) /\ Judge /\ UNCHANGED i
TFinish == Live /\ (IF Row.cx THEN HC!Finish ELSE HR!Finish) /\ Judge /\ UNCHANGED i
Finish == /\ i = Len(Obs) /\ RowOver
          /\ TLCGet(1) = 0 /\ TLCSet(1, 1)
          /\ PrintT(<<"STAT", "hermite_runs_explained", nok>>)
          /\ PrintT(<<"CHECKED", Len(Obs)>>)
          /\ UNCHANGED vars
Next == NextRow \/ TBegin \/ TCell \/ THorner \/ TFinish \/ Finish
=============================================================================
