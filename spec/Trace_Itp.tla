------------------------------ MODULE Trace_Itp ------------------------------
(***************************************************************************)
(* E3, design level, for C07: the abscissae the real roots::itp asked its  *)
(* function for are validated against module ItpP instantiated over IEEE   *)
(* doubles - a refinement check rather than a reproduction: ItpP abstracts *)
(* the interpolation to "any point of the closed bracket within the        *)
(* projection radius of the midpoint", and every recorded abscissa         *)
(* must be such an admitted point of the current design state (ItpP!Step   *)
(* is enabled for it); the bracket update follows the sign class of the    *)
(* recorded value, the loop ends exactly when the bracket is 2 tol wide    *)
(* and the midpoint is returned.  itp() computes n_half through a floating *)
(* logarithm; the specification uses the exact smallest n with             *)
(* |b - a| <= 2 tol 2^n plus one (the radius of the code can be one        *)
(* doubling larger when the logarithm rounds up).                          *)
(* One observation line per run:                                           *)
(*   [solver, a, b, tol, k1, k2, n0, evals = << <<x, f(x)>>, ... >>, n,    *)
(*    ret, x]                                                              *)
(* A mismatch is DRIFT, reported per run; the run is abandoned.            *)
(***************************************************************************)
EXTENDS Integers, Sequences, FiniteSets, TLC, Json, IOUtils, F64

Obs == ndJsonDeserialize(IOEnv.VH_OBS)

VARIABLES pc, a0, b0, eps, n0, nhalf, lo, hi, j, nev, inside, result, r, bad, nok
ivars == <<pc, a0, b0, eps, n0, nhalf, lo, hi, j, nev, inside, result>>
vars == <<pc, a0, b0, eps, n0, nhalf, lo, hi, j, nev, inside, result, r, bad, nok>>

I == INSTANCE ItpP WITH Plus <- FAdd, Minus <- FSub, Lt <- FLt, Le <- FLe, AbsV <- FAbs, Dbl <- LAMBDA x : FMul(F2, x),
                       TimesPow2 <- LAMBDA t, e : FMul(t, FScale(1, e)), Zero <- F0,
                       Slack <- LAMBDA l, h : FMul(FScale(1, -44), FAdd(FAdd(FAbs(l), FAbs(h)), F1))

Row == Obs[r]
Ev(k) == Row.evals[k]
Usable(o) == o.solver = "itp" /\ o.ret \in {"ok", "err"} /\ o.n <= Len(o.evals)
Drift(what) == PrintT(<<"DRIFT", r, what>>)
RowOver == IF r = 0 THEN TRUE ELSE IF ~Usable(Row) THEN TRUE ELSE (bad \/ pc \in {"ok", "err"})
Live == r > 0 /\ ~bad /\ Usable(Row)

Phi1 == FAdd(F1, FMul(FHalf, FAdd(F1, FSqrt(FOfInt(5)))))
Valid(o) == ~FSignBit(o.tol) /\ ~FSignBit(o.k1) /\ FLt(F1, o.k2) /\ FLt(o.k2, Phi1) /\ ~FLt(o.n0, F0)
\* smallest n with |b - a| <= 2 tol 2^n, plus one
RECURSIVE ExactNHalf(_, _, _)
ExactNHalf(w, t2, n) == IF n >= 1100 \/ FLe(w, FMul(t2, FScale(1, n))) THEN n ELSE ExactNHalf(w, t2, n + 1)
NHalfOf(o) == ExactNHalf(FAbs(FSub(o.b, o.a)), FMul(F2, o.tol), 0) + 1
Cls(v) == IF FEq(v, F0) THEN "zero" ELSE IF FSignBit(v) THEN "neg" ELSE "pos"

Init == I!Init /\ r = 0 /\ bad = FALSE /\ nok = 0 /\ TLCSet(1, 0)

NextObs ==
  /\ RowOver /\ r < Len(Obs)
  /\ r' = r + 1 /\ bad' = FALSE /\ UNCHANGED nok
  /\ pc' = "idle" /\ UNCHANGED <<a0, b0, eps, n0, nhalf, lo, hi, j, nev, inside, result>>

TBegin ==
  /\ Live /\ pc = "idle"
  /\ IF ~Valid(Row)
       THEN /\ I!Begin(Row.a, Row.b, Row.tol, 0, 0, FALSE, FALSE, FALSE)
            /\ bad' = ~(Row.ret = "err" /\ Row.n = 0)
            /\ bad' => Drift("invalid_parameters_give_err_without_evaluation")
       ELSE IF Row.n < 2
         THEN /\ bad' = TRUE /\ Drift("two_end_point_evaluations_first") /\ UNCHANGED ivars
         ELSE /\ I!Begin(Row.a, Row.b, Row.tol, FToInt(Row.n0), NHalfOf(Row), TRUE,
                         FSignBit(FMul(Ev(1)[2], Ev(2)[2])), FSignBit(Ev(1)[2]))
              /\ bad' = ~(FEq(Ev(1)[1], Row.a) /\ FEq(Ev(2)[1], Row.b) /\ (pc' = "err" => Row.ret = "err" /\ Row.n = 2))
              /\ bad' => Drift("first_two_evaluations_are_the_end_points")
  /\ nok' = nok + (IF ~bad' /\ pc' = "err" THEN 1 ELSE 0)
  /\ UNCHANGED r

TStep ==
  /\ Live /\ pc = "run" /\ FLt(FMul(F2, eps), I!Width)
  /\ IF nev + 1 > Row.n
       THEN /\ bad' = TRUE /\ Drift("run_stopped_while_the_bracket_is_wider_than_two_tol") /\ UNCHANGED ivars
       ELSE IF I!Admitted(Ev(nev + 1)[1])
              THEN I!Step(Ev(nev + 1)[1], Cls(Ev(nev + 1)[2])) /\ bad' = FALSE
              ELSE /\ bad' = TRUE /\ UNCHANGED ivars
                   /\ Drift("abscissa_in_the_bracket_and_within_the_projection_radius")
  /\ UNCHANGED <<r, nok>>

TFinish ==
  /\ Live /\ I!Finish
  /\ bad' = ~(nev = Row.n /\ Row.ret = "ok" /\ FEq(Row.x, FDiv(result', F2)))
  /\ bad' => Drift(IF nev # Row.n THEN "run_continued_after_the_bracket_was_two_tol_wide" ELSE "returned_number_is_the_midpoint")
  /\ nok' = nok + (IF bad' THEN 0 ELSE 1)
  /\ UNCHANGED r

Finish == /\ r = Len(Obs) /\ RowOver
          /\ TLCGet(1) = 0 /\ TLCSet(1, 1)
          /\ PrintT(<<"STAT", "itp_runs_explained", nok>>)
          /\ PrintT(<<"CHECKED", Len(Obs)>>)
          /\ UNCHANGED vars

Next == NextObs \/ TBegin \/ TStep \/ TFinish \/ Finish
=============================================================================
