INIT TInit
NEXT Next
INVARIANT HistAlignedF
POSTCONDITION Reached
CHECK_DEADLOCK FALSE
