------------------------- MODULE Trace_IvpProtocol -------------------------
(***************************************************************************)
(* E3, design level: step() snapshots recorded from the real solvers by    *)
(* the cfg(bacon_verif) hooks are validated against the design module      *)
(* IvpProtocol instantiated over IEEE doubles.  Each `snap` event is the   *)
(* scalar solver state at the entry of one step() call; the driver has     *)
(* annotated it (pure look-ahead in the recorded stream, no state is       *)
(* guessed) with what that call made the iterator do (`nxt`: redo / item / *)
(* none / err, `nt`: time of the yielded item) and with the next snapshot  *)
(* of the same run (`has_next`, `n_time`, `n_dt`, `n_ym`, `n_vlen`).       *)
(*                                                                         *)
(* When the run was recorded with the derivative-evaluation times (`ets`:  *)
(* the times at which the user's function was called during this step()    *)
(* call, in order), they must be exactly the design's EvalPlan for the     *)
(* state before the call: Runge-Kutta stage times, the RK4 start-up and    *)
(* closing steps of the multistep solvers with Adams' extra history        *)
(* evaluations, the predictor evaluation, the implicit solves of BDF.      *)
(*                                                                         *)
(* The design state (time, dt, phase, k, hist, ...) is carried by the      *)
(* specification; unlogged choices (accept / reject, grow) are chosen by   *)
(* TLC among IvpProtocol's actions so that the successor agrees with the   *)
(* next snapshot.  A trace is accepted when every event is consumed; the   *)
(* driver reads the longest consumed prefix from the REACHED line.         *)
(*                                                                         *)
(* A rejection here is DRIFT (the code left the verified design), not a    *)
(* violation of a listed property.                                         *)
(***************************************************************************)
EXTENDS Integers, Sequences, FiniteSets, TLC, Json, IOUtils, F64

Obs == ndJsonDeserialize(IOEnv.VH_OBS)
Slack(a, b) == FMul(FOfDec("1e-12"), FAdd(FAbs(a), FAbs(b)))

VARIABLES i, cfg, time, dt, phase, k, hist, saveTime, noSent, stat, obs, out
vars == <<i, cfg, time, dt, phase, k, hist, saveTime, noSent, stat, obs, out>>

P == INSTANCE IvpProtocol WITH
       Plus <- FAdd, Minus <- FSub, Mul <- LAMBDA n, x : FMul(FOfInt(n), x), DivN <- LAMBDA x, n : FDiv(x, FOfInt(n)),
       Lt <- FLt, Le <- FLe,
       LtC <- LAMBDA a, b : FLt(a, FAdd(b, Slack(a, b))), LeC <- LAMBDA a, b : FLe(a, FAdd(b, Slack(a, b))),
       Defects <- {}, KeepHistory <- FALSE,
       Frac <- LAMBDA n, d, x : FMul(FOfRat(n, d), x),
       StagesOf <- LAMBDA c : IF c.solver = "rk23" THEN << <<0, 1>>, <<1, 2>>, <<3, 4>>, <<1, 1>> >>
                              ELSE << <<0, 1>>, <<1, 4>>, <<3, 8>>, <<12, 13>>, <<1, 1>>, <<1, 2>> >>

KindOf(solver) == CASE solver = "euler" -> "euler" [] solver \in {"rk45", "rk23"} -> "rk"
                    [] solver \in {"adams5", "adams3"} -> "adams" [] OTHER -> "bdf"
HOf(solver) == CASE solver = "adams5" -> 4 [] solver = "adams3" -> 2 [] solver = "bdf6" -> 7 [] solver = "bdf2" -> 3 [] OTHER -> 0
CfgOf(e) == [kind |-> KindOf(e.solver), solver |-> e.solver, h |-> HOf(e.solver), t0 |-> e.t0, t1 |-> e.t1, dtmin |-> e.dtmin, dtmax |-> e.dtmax,
             dt0 |-> IF e.solver = "euler" THEN e.dtmax ELSE FMul(FAdd(e.dtmax, e.dtmin), FHalf)]

\* yield_memory -> phase (adams: O = h+1; bdf: O = h)
PhaseOf(c, ym) ==
  IF c.kind \notin {"adams", "bdf"} \/ ym = 0 THEN "plain"
  ELSE IF ym = c.h + 1 THEN "spec"
  ELSE IF ym = c.h + 2 THEN "sent"
  ELSE "hand"

\* the design state agrees with a snapshot
Agrees(e) ==
  /\ FEq(time, e.time) /\ FEq(dt, e.dt)
  /\ phase = PhaseOf(cfg, e.ym)
  /\ (phase = "hand" => k = e.ym)
  /\ (cfg.kind \in {"adams", "bdf"} => Len(hist) = e.vlen)

ObsAgrees(e) ==
  CASE e.nxt = "item" -> obs'[1] = "item" /\ FEq(obs'[2], e.nt)
    [] e.nxt = "redo" -> obs' = <<"redo">>
    [] e.nxt = "none" -> obs' = <<"none">>
    [] e.nxt = "err" -> obs'[1] = "err"

\* the derivative evaluations recorded during this step() call are the ones the design plans for the state before
\* it, time by time (a BDF trial step: any number >= 2 of evaluations, all at the new time).  Calls that ended in an
\* error were cut short and are not compared.
SameTimes(ts, plan, off) == \A q \in 1..Len(plan) : FEq(ts[off + q], plan[q])
EvalsAgree(e) ==
  IF ~e.has_evals \/ e.nxt = "err" THEN TRUE
  ELSE LET p == P!EvalPlan
           nf == Len(p.fixed)
       IN /\ Len(e.ets) >= nf /\ SameTimes(e.ets, p.fixed, 0)
          /\ IF p.tail = <<>> THEN Len(e.ets) = nf
             ELSE Len(e.ets) >= nf + 2 /\ \A q \in (nf + 1)..Len(e.ets) : FEq(e.ets[q], p.tail[1])

NextAgrees(e) ==
  e.has_next =>
    /\ FEq(time', e.n_time) /\ FEq(dt', e.n_dt)
    /\ phase' = PhaseOf(cfg, e.n_ym)
    /\ (cfg.kind \in {"adams", "bdf"} => Len(hist') = e.n_vlen)

\* the controller's proposal for the next step: observed in the next snapshot; after the last snapshot of a
\* run (the step that reported MinimumTimeDeltaExceeded, or Done) it is not observable, and the smallest
\* proposals the clamps admit are tried
NextDts(e) == IF e.has_next THEN {e.n_dt}
              ELSE {dt, FMul(dt, FHalf), FMul(dt, FOfRat(1, 10)), FMul(dt, FOfRat(84, 100))}
Init == /\ i = 0 /\ cfg = [kind |-> "none"] /\ time = F0 /\ dt = F0 /\ phase = "plain" /\ k = 0 /\ hist = <<>>
        /\ saveTime = F0 /\ noSent = FALSE /\ stat = "idle" /\ obs = <<"init">> /\ out = <<>>

Consume ==
  /\ i < Len(Obs)
  /\ i' = i + 1
  /\ LET e == Obs[i + 1] IN
     CASE e.ev = "reset" ->
            /\ cfg' = CfgOf(e) /\ time' = e.t0 /\ dt' = CfgOf(e).dt0 /\ phase' = "plain" /\ k' = 0 /\ hist' = <<>>
            /\ saveTime' = e.t0 /\ noSent' = FALSE /\ stat' = "run" /\ obs' = <<"init">> /\ out' = <<>>
       [] e.ev = "snap" ->
            /\ Agrees(e)
            /\ EvalsAgree(e)
            /\ IF e.nxt = "err" /\ e.errkind # "MinimumTimeDeltaExceeded"      \* failures raised below the stepper's protocol
                 THEN P!Faults /\ obs'[1] = "err"
                 ELSE /\ \E accept \in BOOLEAN, grow \in BOOLEAN, d2 \in NextDts(e) : P!StepActions(accept, grow, d2)
                      /\ ObsAgrees(e)
                      /\ NextAgrees(e)
       [] OTHER -> UNCHANGED <<cfg, time, dt, phase, k, hist, saveTime, noSent, stat, obs, out>>
  /\ TLCSet(1, IF TLCGet(1) > i' THEN TLCGet(1) ELSE i')

TInit == Init /\ TLCSet(1, 0)
Next == Consume
Reached == PrintT(<<"REACHED", TLCGet(1), Len(Obs)>>)
\* the hand-over history stays aligned in every reached state (the E1 invariant, now on real data)
HistAlignedF ==
  (P!MS /\ stat = "run" /\ phase \in {"plain", "spec"} /\ hist # <<>> /\ FLt(time, cfg.t1)) => FEq(hist[Len(hist)], time)
=============================================================================
