-------------------------- MODULE Trace_LagrangeNeville --------------------------
(***************************************************************************)
(* Design-level trace validation for C15 (Lagrange): every recorded call   *)
(* of interp::lagrange (nodes, ordinates, tolerance -> Ok(poly) / Err) is  *)
(* replayed through the design model LagrangeNeville over IEEE doubles -   *)
(* Neville's table of polynomials cell by cell, the cleaning of the last   *)
(* cell - and the coefficients the model ends with must be the recorded    *)
(* ones, bit for bit (real data with real arithmetic, complex data with    *)
(* num_complex's product and quotient formulas).                           *)
(* A mismatch is a DRIFT, not a violation.                                 *)
(***************************************************************************)
EXTENDS Integers, Sequences, FiniteSets, TLC, Json, IOUtils, F64
Obs == ndJsonDeserialize(IOEnv.VH_OBS)
VARIABLES pc, xs, ys, tol, t, r, cc, p, i, bad, nok
C0 == <<F0, F0>>
RMul(x, y) == <<FMul(x[1], y[1]), F0>>
RDiv(x, y) == <<FDiv(x[1], y[1]), F0>>
RAdd(x, y) == <<FAdd(x[1], y[1]), F0>>
RSub(x, y) == <<FSub(x[1], y[1]), F0>>
RNeg(x) == <<FNeg(x[1]), F0>>
AbsLtC(c, tl) == FLt(CAbs(c), tl)
AbsLtR(c, tl) == FLt(FAbs(c[1]), tl)
SmallLeC(c, tl) == FLe(FAbs(c[1]), tl) /\ FLe(FAbs(c[2]), tl)
HR == INSTANCE LagrangeNeville WITH Add <- RAdd, Sub <- RSub, Mul <- RMul, Div <- RDiv, Neg <- RNeg, AbsLt <- AbsLtR, SmallLe <- SmallLeC,
        Zero <- C0, One <- <<F1, F0>>, TolZero <- F0
HC == INSTANCE LagrangeNeville WITH Add <- CAdd, Sub <- CSub, Mul <- CMul, Div <- CDiv, Neg <- CNeg, AbsLt <- AbsLtC, SmallLe <- SmallLeC,
        Zero <- C0, One <- <<F1, F0>>, TolZero <- F0
svars == <<pc, xs, ys, tol, t, r, cc, p>>
vars == <<svars, i, bad, nok>>

Row == Obs[i]
Usable(o) == o.kind = "lagrange" /\ o.obs.st \in {"ok", "err", "panic"}
Drift(what) == PrintT(<<"DRIFT", i, what>>)
SameSeq(s, u) == Len(s) = Len(u) /\ \A j \in 1..Len(s) : FEq(s[j][1], u[j][1]) /\ FEq(s[j][2], u[j][2])

Init == HR!Init /\ i = 0 /\ bad = FALSE /\ nok = 0 /\ TLCSet(1, 0)
RowOver == IF i = 0 THEN TRUE ELSE IF ~Usable(Row) THEN TRUE ELSE (bad \/ pc \in {"done", "err", "panic"})
Live == i >= 1 /\ Usable(Row) /\ ~bad

NextRow == /\ i < Len(Obs) /\ RowOver
           /\ i' = i + 1 /\ bad' = FALSE /\ pc' = "idle"
           /\ UNCHANGED <<xs, ys, tol, t, r, cc, p, nok>>
Matches == IF pc' = "err" THEN Row.obs.st = "err" ELSE IF pc' = "panic" THEN Row.obs.st = "panic"
           ELSE Row.obs.st = "ok" /\ SameSeq(p', Row.obs.coefs)
Judge == IF pc' \in {"done", "err", "panic"}
           THEN /\ bad' = ~Matches
                /\ bad' => Drift(IF pc' = "err" \/ Row.obs.st = "err" THEN "err_exactly_for_mismatched_lengths"
                                 ELSE "coefficients_of_the_last_cell_of_neville_s_table")
                /\ nok' = nok + (IF bad' THEN 0 ELSE 1)
           ELSE bad' = bad /\ nok' = nok
TBegin == /\ Live /\ (IF Row.cx THEN HC!Begin(Row.xs, Row.ys, Row.tol) ELSE HR!Begin(Row.xs, Row.ys, Row.tol))
          /\ Judge /\ UNCHANGED i
TCell == Live /\ (IF Row.cx THEN HC!Cell ELSE HR!Cell) /\ Judge /\ UNCHANGED i
TClean == Live /\ (IF Row.cx THEN HC!Clean ELSE HR!Clean) /\ Judge /\ UNCHANGED i
Finish == /\ i = Len(Obs) /\ RowOver
          /\ TLCGet(1) = 0 /\ TLCSet(1, 1)
          /\ PrintT(<<"STAT", "lagrange_runs_explained", nok>>)
          /\ PrintT(<<"CHECKED", Len(Obs)>>)
          /\ UNCHANGED vars
Next == NextRow \/ TBegin \/ TCell \/ TClean \/ Finish
=============================================================================
