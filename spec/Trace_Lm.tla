------------------------------- MODULE Trace_Lm -------------------------------
(***************************************************************************)
(* E3, design level, for C17: the closure calls of real curve_fit_jac runs *)
(* - grouped by the harness into blocks, one sweep of the model ("f", with *)
(* the values returned) or of the Jacobian ("j") over the data at one      *)
(* parameter vector - are validated against the control skeleton           *)
(* LmControl: its actions are taken with the verdicts computed here from   *)
(* the recorded model values (residual sums of squares in the order of the *)
(* code, bit for bit), and each action must find the blocks it stands for: *)
(* the initial J / f / f at the initial parameters; per search pass f then *)
(* J at one new point; per main pass f at two points then J at the one     *)
(* that is kept (the less damped one only if strictly better); the loop    *)
(* continues exactly while |last_sum_sq - sum_sq| > tol; the returned      *)
(* parameters are those of the point kept last; Err only where a linear    *)
(* solve happens.  One observation line per run:                           *)
(*   [variant, xs, ys, init, tol, damping, st, params, blocks = << [k, p,  *)
(*    same, n, v], ... >>]                                                 *)
(* A mismatch is DRIFT, reported per run; the run is abandoned.            *)
(***************************************************************************)
EXTENDS Integers, Sequences, FiniteSets, TLC, Json, IOUtils, F64

Obs == ndJsonDeserialize(IOEnv.VH_OBS)

VARIABLES phase, ks, km, kept, fblocks, jblocks, sinit, last, sum, keptP, pk, r, bad, nok
cvars == <<phase, ks, km, kept, fblocks, jblocks>>
vars == <<phase, ks, km, kept, fblocks, jblocks, sinit, last, sum, keptP, pk, r, bad, nok>>
(* sinit : the initial sum of squares;  last, sum : last_sum_sq and sum_sq of the code;  keptP : the parameters the
   routine would return now;  pk : blocks consumed *)

C == INSTANCE LmControl WITH SearchCap <- 1000

Row == Obs[r]
M == Len(Row.xs)
Blk(q) == Row.blocks[q]
NB == Len(Row.blocks)
Invalid(o) == FSignBit(o.tol) \/ FSignBit(o.damping) \/ Len(o.xs) # Len(o.ys)
Usable(o) == o.variant = "jac" /\ o.st \in {"ok", "err"} /\ o.blocks_complete
Drift(what) == PrintT(<<"DRIFT", r, what>>)
RowOver == IF r = 0 THEN TRUE ELSE IF ~Usable(Row) THEN TRUE ELSE (bad \/ phase \in {"ok", "err"})
Live == r > 0 /\ ~bad /\ Usable(Row)

SameVec(u, v) == Len(u) = Len(v) /\ \A q \in 1..Len(u) : FEq(u[q], v[q])
FBlockAt(q, p) == q <= NB /\ Blk(q).k = "f" /\ Blk(q).n = M /\ Blk(q).same /\ SameVec(Blk(q).p, p)
FBlock(q) == q <= NB /\ Blk(q).k = "f" /\ Blk(q).n = M /\ Blk(q).same
JBlockAt(q, p) == q <= NB /\ Blk(q).k = "j" /\ Blk(q).n = M /\ Blk(q).same /\ SameVec(Blk(q).p, p)
RECURSIVE SumSqFrom(_, _, _)
SumSqFrom(v, q, acc) == IF q > Len(v) THEN acc
                        ELSE LET d == FSub(Row.ys[q], v[q]) IN SumSqFrom(v, q + 1, FAdd(acc, FMul(d, d)))
SumSq(v) == SumSqFrom(v, 1, F0)

Init == /\ C!Init /\ sinit = F0 /\ last = F0 /\ sum = F0 /\ keptP = <<>> /\ pk = 0
        /\ r = 0 /\ bad = FALSE /\ nok = 0 /\ TLCSet(1, 0)

NextObs ==
  /\ RowOver /\ r < Len(Obs)
  /\ r' = r + 1 /\ bad' = FALSE /\ UNCHANGED nok
  /\ phase' = "idle" /\ ks' = 0 /\ km' = 0 /\ kept' = "none" /\ fblocks' = 0 /\ jblocks' = 0
  /\ sinit' = F0 /\ last' = F0 /\ sum' = F0 /\ keptP' = <<>> /\ pk' = 0

TInvalid ==
  /\ Live /\ phase = "idle" /\ Invalid(Row)
  /\ phase' = "err" /\ UNCHANGED <<ks, km, kept, fblocks, jblocks, sinit, last, sum, keptP, pk, r>>
  /\ bad' = ~(Row.st = "err" /\ NB = 0)
  /\ bad' => Drift("invalid_settings_give_err_without_any_closure_call")
  /\ nok' = nok + (IF bad' THEN 0 ELSE 1)

TStart ==
  /\ Live /\ phase = "idle" /\ ~Invalid(Row)
  /\ IF JBlockAt(1, Row.init) /\ FBlockAt(2, Row.init) /\ FBlockAt(3, Row.init)
       THEN /\ C!Start /\ pk' = 3 /\ sinit' = SumSq(Blk(2).v) /\ keptP' = Row.init /\ bad' = FALSE
            /\ UNCHANGED <<last, sum>>
       ELSE /\ bad' = TRUE /\ Drift("starts_with_the_jacobian_and_two_model_sweeps_at_the_initial_parameters")
            /\ UNCHANGED <<cvars, sinit, last, sum, keptP, pk>>
  /\ UNCHANGED <<r, nok>>

TSearch ==
  /\ Live /\ phase = "search" /\ pk < NB
  /\ IF FBlock(pk + 1) /\ JBlockAt(pk + 2, Blk(pk + 1).p)
       THEN LET s1 == SumSq(Blk(pk + 1).v)
                down == ~FLt(sinit, s1)
            IN /\ C!SearchPass(down)
               /\ pk' = pk + 2 /\ bad' = FALSE
               \* when the search ends:  last_sum_sq = sum_sq;  sum_sq += 2 tol
               /\ last' = s1 /\ sum' = FAdd(s1, FMul(F2, Row.tol))
               /\ UNCHANGED <<sinit, keptP>>
       ELSE /\ bad' = TRUE /\ Drift("search_pass_is_a_model_sweep_then_a_jacobian_sweep_at_one_new_point")
            /\ UNCHANGED <<cvars, sinit, last, sum, keptP, pk>>
  /\ UNCHANGED <<r, nok>>

TTest ==
  /\ Live /\ phase = "test"
  /\ LET again == FLt(Row.tol, FAbs(FSub(last, sum))) IN
     /\ C!MainTest(again)
     /\ bad' = ~(again \/ (pk = NB /\ Row.st = "ok" /\ SameVec(Row.params, keptP)))
     /\ bad' => Drift(IF pk # NB THEN "loop_ends_when_the_change_of_the_sum_of_squares_is_within_tol"
                      ELSE "returns_the_parameters_kept_last")
     /\ nok' = nok + (IF ~again /\ ~bad' THEN 1 ELSE 0)
  /\ UNCHANGED <<sinit, last, sum, keptP, pk, r>>

TMain ==
  /\ Live /\ phase = "main" /\ pk < NB
  /\ IF FBlock(pk + 1) /\ FBlock(pk + 2)
       THEN LET ra == SumSq(Blk(pk + 1).v)
                rb == SumSq(Blk(pk + 2).v)
                better == FLt(rb, ra)
                kp == IF better THEN Blk(pk + 2).p ELSE Blk(pk + 1).p
            IN IF JBlockAt(pk + 3, kp)
                 THEN /\ C!MainPass(better)
                      /\ pk' = pk + 3 /\ keptP' = kp /\ bad' = FALSE
                      /\ last' = sum /\ sum' = (IF better THEN rb ELSE ra)
                      /\ UNCHANGED sinit
                 ELSE /\ bad' = TRUE /\ Drift("keeps_the_trial_point_with_the_smaller_residual_and_takes_the_jacobian_there")
                      /\ UNCHANGED <<cvars, sinit, last, sum, keptP, pk>>
       ELSE /\ bad' = TRUE /\ Drift("main_pass_sweeps_the_model_at_two_trial_points")
            /\ UNCHANGED <<cvars, sinit, last, sum, keptP, pk>>
  /\ UNCHANGED <<r, nok>>

\* the log ends where a linear solve happens: Err
TSolveFail ==
  /\ Live /\ phase \in {"search", "main"} /\ pk = NB
  /\ C!SolveFail
  /\ bad' = ~(Row.st = "err")
  /\ bad' => Drift("run_ended_without_error_in_the_middle_of_the_iteration")
  /\ nok' = nok + (IF bad' THEN 0 ELSE 1)
  /\ UNCHANGED <<sinit, last, sum, keptP, pk, r>>

Finish == /\ r = Len(Obs) /\ RowOver
          /\ TLCGet(1) = 0 /\ TLCSet(1, 1)
          /\ PrintT(<<"STAT", "lm_runs_explained", nok>>)
          /\ PrintT(<<"CHECKED", Len(Obs)>>)
          /\ UNCHANGED vars

Next == NextObs \/ TInvalid \/ TStart \/ TSearch \/ TTest \/ TMain \/ TSolveFail \/ Finish
=============================================================================
