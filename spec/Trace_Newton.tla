----------------------------- MODULE Trace_Newton -----------------------------
(***************************************************************************)
(* E3, design level, for C08: the closure calls of real roots::newton runs *)
(* (f and jac with their arguments and the values they returned, in order) *)
(* are validated against module NewtonP over IEEE doubles - a refinement   *)
(* check: each pass must call f then jac at the current iterate, and the   *)
(* next iterate (the argument of the next pass, or the returned vector)    *)
(* must satisfy the Newton equation  J (x_new - x) = -F  up to the         *)
(* backward error of an LU solve; the loop ends exactly when the step is   *)
(* within the tolerance, with Err only for a (numerically) singular        *)
(* Jacobian or after n_max passes.  One observation line per run:          *)
(*   [method, dim, start, tol, n_max, obs = [ret, x, nf, nj, calls =       *)
(*    << [k, x, v, m], ... >>]]                                            *)
(* A mismatch is DRIFT, reported per run; the run is abandoned.            *)
(***************************************************************************)
EXTENDS Integers, Sequences, FiniteSets, TLC, Json, IOUtils, F64

Obs == ndJsonDeserialize(IOEnv.VH_OBS)

VARIABLES pc, x, tol, nmax, n, nev, result, r, bad, nok, nskip

MatVec(m, v) == [i \in 1..Len(m) |-> FSum([c \in 1..Len(v) |-> FMul(m[i][c], v[c])])]
MaxAbsM(m) == FMaxAbs([i \in 1..Len(m) |-> FMaxAbs(m[i])])
\* residual of the Newton equation against the scale of its terms
StepOkF(xx, f, j, xn) ==
  LET d == VSub(xn, xx)
      res == VAdd(MatVec(j, d), f)
      scale == FAdd(FMul(FMul(FOfInt(Len(xx)), MaxAbsM(j)), FMaxAbs(d)), FMaxAbs(f))
      \* the trace has fl(x + d), not d: the difference of the recorded points carries the rounding of x itself
      round == FMul(FMul(FMul(FOfInt(8 * Len(xx)), FEps), MaxAbsM(j)), FAdd(FMaxAbs(xx), FMaxAbs(xn)))
  IN FLe(FMaxAbs(res), FAdd(FAdd(FMul(FOfDec("1e-8"), scale), round), FScale(1, -1000)))
\* determinant by Laplace expansion along the first row (dimensions 1-4); "singular" when it vanishes against
\* the product of the row norms
Minor(m, c) == [i \in 1..(Len(m) - 1) |-> [q \in 1..(Len(m) - 1) |-> m[i + 1][IF q < c THEN q ELSE q + 1]]]
RECURSIVE Det(_)
Det(m) ==
  IF Len(m) = 1 THEN m[1][1]
  ELSE FSum([c \in 1..Len(m) |-> FMul(IF c % 2 = 1 THEN m[1][c] ELSE FNeg(m[1][c]), Det(FSeq(Minor(m, c))))])
RECURSIVE RowProd(_, _)
RowProd(m, i) == IF i > Len(m) THEN F1 ELSE FMul(FMaxAbs(m[i]), RowProd(m, i + 1))
SingularF(m) == FLe(FAbs(Det(m)), FMul(FOfDec("1e-9"), RowProd(m, 1)))

\* |xn - x| against tol cannot be decided from the recorded points when it is this close (rounding of x + d)
Borderline(xx, xn, t) ==
  LET nrm == FNorm2(VSub(xn, xx))
      slack == FMul(FScale(1, -48), FAdd(FAdd(FMaxAbs(xx), FMaxAbs(xn)), FScale(1, -1000)))
  IN FLe(FAbs(FSub(nrm, t)), FMul(FOfInt(4 * Len(xx)), slack))

\* the run may have ended in Err at this Jacobian for either reason the code has; the specification cannot see which
P == INSTANCE NewtonP WITH StepOk <- StepOkF, Singular <- LAMBDA j : FALSE,
                           StepSmall <- LAMBDA xx, xn, t : FLe(FNorm2(VSub(xn, xx)), t), Zero <- <<>>

Row == Obs[r]
Calls == Row.obs.calls
NC == Len(Calls)
Usable(o) == o.method = "newton" /\ o.obs.ret \in {"ok", "err"} /\ o.obs.nf + o.obs.nj = Len(o.obs.calls)
Drift(what) == PrintT(<<"DRIFT", r, what>>)
RowOver == IF r = 0 THEN TRUE ELSE IF ~Usable(Row) THEN TRUE ELSE (bad \/ pc \in {"ok", "err"})
Live == r > 0 /\ ~bad /\ Usable(Row)
SameVec(u, v) == Len(u) = Len(v) /\ \A q \in 1..Len(u) : FEq(u[q], v[q])
nvars == <<pc, x, tol, nmax, n, nev, result>>
vars == <<pc, x, tol, nmax, n, nev, result, r, bad, nok, nskip>>

Init == P!Init /\ r = 0 /\ bad = FALSE /\ nok = 0 /\ nskip = 0 /\ TLCSet(1, 0)

NextObs ==
  /\ RowOver /\ r < Len(Obs)
  /\ r' = r + 1 /\ bad' = FALSE /\ UNCHANGED <<nok, nskip>>
  /\ pc' = "idle" /\ UNCHANGED <<x, tol, nmax, n, nev, result>>

TBegin == Live /\ P!Begin(Row.start, Row.tol, Row.n_max) /\ UNCHANGED <<r, bad, nok, nskip>>

TIter ==
  /\ Live /\ pc = "run" /\ n < nmax
  /\ LET have == nev + 2 <= NC
         cf == Calls[nev + 1]  cj == Calls[nev + 2]
         last == nev + 2 = NC
         xn == IF last THEN Row.obs.x ELSE Calls[nev + 3].x
         verdict == IF ~have THEN "short"
                    ELSE IF ~(cf.k = "f" /\ cj.k = "j" /\ SameVec(cf.x, x) /\ SameVec(cj.x, x)) THEN "shape"
                    ELSE IF last /\ Row.obs.ret = "err" THEN (IF n + 1 = nmax THEN "cap" ELSE "solve")
                    ELSE IF ~StepOkF(x, cf.v, cj.m, xn) THEN "equation"
                    ELSE IF Borderline(x, xn, tol) THEN "border"
                    ELSE "iter"
     IN CASE verdict = "short" ->
               /\ bad' = TRUE /\ Drift("run_ended_before_the_pass_it_still_had") /\ UNCHANGED <<nvars, nok, nskip>>
          [] verdict = "shape" ->
               /\ bad' = TRUE /\ Drift("pass_evaluates_f_then_the_jacobian_at_the_current_iterate") /\ UNCHANGED <<nvars, nok, nskip>>
          [] verdict = "solve" ->
               \* Err right after a Jacobian: a failed solve - accepted only for a numerically singular matrix
               /\ pc' = "err" /\ nev' = nev + 2 /\ UNCHANGED <<x, tol, nmax, n, result, nskip>>
               /\ bad' = ~SingularF(cj.m)
               /\ bad' => Drift("err_in_the_middle_only_for_a_singular_jacobian")
               /\ nok' = nok + (IF bad' THEN 0 ELSE 1)
          [] verdict = "cap" ->
               \* the last pass the cap allows, then Err: the new iterate is never used, so there is nothing to compare
               /\ pc' = "err" /\ nev' = nev + 2 /\ n' = n + 1 /\ bad' = FALSE /\ nok' = nok + 1
               /\ UNCHANGED <<x, tol, nmax, result, nskip>>
          [] verdict = "equation" ->
               /\ bad' = TRUE /\ Drift("next_iterate_satisfies_the_newton_equation") /\ UNCHANGED <<nvars, nok, nskip>>
          [] verdict = "border" ->
               \* the code tests |d| <= tol on the solved step d, the trace only has fl(x + d) - x: too close to call
               /\ bad' = TRUE /\ nskip' = nskip + 1 /\ UNCHANGED <<nvars, nok>>
          [] verdict = "iter" ->
               /\ P!Iter(cf.v, cj.m, xn)
               /\ bad' = ~(IF pc' = "ok" THEN last /\ Row.obs.ret = "ok" ELSE ~last)
               /\ bad' => Drift("loop_ends_exactly_when_the_step_is_within_the_tolerance")
               /\ nok' = nok + (IF ~bad' /\ pc' = "ok" THEN 1 ELSE 0)
               /\ UNCHANGED nskip
  /\ UNCHANGED r

TGiveUp ==
  /\ Live /\ P!GiveUp
  /\ bad' = ~(Row.obs.ret = "err" /\ nev = NC)
  /\ bad' => Drift("iteration_cap_gives_err")
  /\ nok' = nok + (IF bad' THEN 0 ELSE 1)
  /\ UNCHANGED <<r, nskip>>

Finish == /\ r = Len(Obs) /\ RowOver
          /\ TLCGet(1) = 0 /\ TLCSet(1, 1)
          /\ PrintT(<<"STAT", "newton_runs_explained", nok, "set_aside_as_borderline", nskip>>)
          /\ PrintT(<<"CHECKED", Len(Obs)>>)
          /\ UNCHANGED vars

Next == NextObs \/ TBegin \/ TIter \/ TGiveUp \/ Finish
=============================================================================
