-------------------------- MODULE Trace_PolyDivide --------------------------
(***************************************************************************)
(* Design-level trace validation for C12: every recorded call of           *)
(* Polynomial::divide (dividend, divisor, tolerance -> Ok(quotient,        *)
(* remainder) / Err) is replayed through the design model PolyDivide over  *)
(* IEEE doubles - one Begin, the passes of the loop, Exit - and the        *)
(* quotient and remainder the model ends with must be the recorded ones,   *)
(* bit for bit (real polynomials with real arithmetic, complex ones with   *)
(* num_complex's product and quotient formulas).  A mismatch is a DRIFT    *)
(* (the code no longer is the algorithm of the model), not a violation.    *)
(***************************************************************************)
EXTENDS Integers, Sequences, FiniteSets, TLC, Json, IOUtils, F64
Obs == ndJsonDeserialize(IOEnv.VH_OBS)
VARIABLES pc, a, d, tol, q, r, steps, i, bad, nok
C0 == <<F0, F0>>
SmallC(c, t) == FLt(FAbs(c[1]), t) /\ FLt(FAbs(c[2]), t)
SmallLeC(c, t) == FLe(FAbs(c[1]), t) /\ FLe(FAbs(c[2]), t)
\* real polynomials: the imaginary parts are the constant 0 of f64's ComplexField impl
RMul(x, y) == <<FMul(x[1], y[1]), F0>>
RDiv(x, y) == <<FDiv(x[1], y[1]), F0>>
RAdd(x, y) == <<FAdd(x[1], y[1]), F0>>
RSub(x, y) == <<FSub(x[1], y[1]), F0>>
PR == INSTANCE PolyDivide WITH Add <- RAdd, Sub <- RSub, Mul <- RMul, Div <- RDiv, Small <- SmallC, SmallLe <- SmallLeC,
        Zero <- C0, One <- <<F1, F0>>, TolZero <- F0, Defects <- {}
PC == INSTANCE PolyDivide WITH Add <- CAdd, Sub <- CSub, Mul <- CMul, Div <- CDiv, Small <- SmallC, SmallLe <- SmallLeC,
        Zero <- C0, One <- <<F1, F0>>, TolZero <- F0, Defects <- {}
vars == <<pc, a, d, tol, q, r, steps, i, bad, nok>>

Usable(o) == o.st \in {"ok", "err"}
Row == Obs[i]
Drift(what) == PrintT(<<"DRIFT", i, what>>)
SameSeq(s, t) == Len(s) = Len(t) /\ \A k \in 1..Len(s) : FEq(s[k][1], t[k][1]) /\ FEq(s[k][2], t[k][2])
\* bit-level equality would distinguish +0 from -0; FEq does not, which is what "the same polynomial" needs here

Init == PR!Init /\ i = 0 /\ bad = FALSE /\ nok = 0 /\ TLCSet(1, 0)
RowOver == IF i = 0 THEN TRUE ELSE IF ~Usable(Row) THEN TRUE ELSE (bad \/ pc \in {"done", "err"})
Live == i >= 1 /\ Usable(Row) /\ ~bad

NextRow == /\ i < Len(Obs) /\ RowOver
           /\ i' = i + 1 /\ bad' = FALSE
           /\ pc' = "idle" /\ steps' = 0
           /\ UNCHANGED <<a, d, tol, q, r, nok>>

\* the verdict, taken by the step that ends the run in the model
Matches == IF pc' = "err" THEN Row.st = "err"
           ELSE Row.st = "ok" /\ SameSeq(q', Row.q) /\ SameSeq(r', Row.r)
Judge == IF pc' \in {"done", "err"}
           THEN /\ bad' = ~Matches
                /\ bad' => Drift(IF pc' = "err" \/ Row.st = "err" THEN "err_exactly_for_a_negligible_constant_divisor"
                                 ELSE "quotient_and_remainder_of_the_long_division_loop")
                /\ nok' = nok + (IF bad' THEN 0 ELSE 1)
           ELSE /\ bad' = (steps' > 300) /\ (bad' => Drift("more_than_300_passes")) /\ nok' = nok

TBegin == /\ Live /\ pc = "idle"
          /\ (IF Row.cx THEN PC!Begin(Row.a, Row.d, Row.ta) ELSE PR!Begin(Row.a, Row.d, Row.ta))
          /\ Judge /\ UNCHANGED i
TPass == /\ Live /\ (IF Row.cx THEN PC!Pass ELSE PR!Pass) /\ Judge /\ UNCHANGED i
TExit == /\ Live /\ PR!Exit /\ Judge /\ UNCHANGED i

Finish == /\ i = Len(Obs) /\ RowOver
          /\ TLCGet(1) = 0 /\ TLCSet(1, 1)
          /\ PrintT(<<"STAT", "divide_runs_explained", nok>>)
          /\ PrintT(<<"CHECKED", Len(Obs)>>)
          /\ UNCHANGED vars

Next == NextRow \/ TBegin \/ TPass \/ TExit \/ Finish
=============================================================================
