---------------------------- MODULE Trace_Romberg ----------------------------
(***************************************************************************)
(* E3, design level, for C09: the abscissae the real integrate_fixed asked *)
(* its integrand for and the value it returned are validated against       *)
(* module RombergP instantiated over IEEE doubles (real integrands: the    *)
(* code uses only + - * / and exact powers of four, so every abscissa and  *)
(* the result are reproduced bit for bit).  Each RowStep consumes the      *)
(* 2^(i-2) recorded evaluations of one tableau row, which must be at       *)
(* RowAbscissae, in order.  One observation line per run:                  *)
(*   [routine, cx, a, b, n, evals = << <<x, <<re, im>> >>, ... >>, calls,  *)
(*    ret, val]                                                            *)
(* A mismatch is DRIFT, reported per run; the run is abandoned.            *)
(***************************************************************************)
EXTENDS Integers, Sequences, FiniteSets, TLC, Json, IOUtils, F64

Obs == ndJsonDeserialize(IOEnv.VH_OBS)

VARIABLES pc, a0, nrows, h, prev, i, nev, result, r, bad, nok
rvars == <<pc, a0, nrows, h, prev, i, nev, result>>
vars == <<pc, a0, nrows, h, prev, i, nev, result, r, bad, nok>>

R == INSTANCE RombergP WITH Add <- FAdd, Sub <- FSub, Mul <- FMul, Div <- FDiv, Lt <- FLt, OfInt <- FOfInt,
                            HalfOdd <- LAMBDA k : FOfRat(2 * k - 1, 2), Half <- FHalf, Zero <- F0

Row == Obs[r]
X(j) == Row.evals[j][1]
Y(j) == Row.evals[j][2][1]
Usable(o) == o.routine = "romberg" /\ ~o.cx /\ o.n >= 1 /\ o.ret \in {"ok", "err"} /\ o.calls <= Len(o.evals)
Drift(what) == PrintT(<<"DRIFT", r, what>>)
RowOver == IF r = 0 THEN TRUE ELSE IF ~Usable(Row) THEN TRUE ELSE (bad \/ pc \in {"ok", "err"})
Live == r > 0 /\ ~bad /\ Usable(Row)

Init == R!Init /\ r = 0 /\ bad = FALSE /\ nok = 0 /\ TLCSet(1, 0)

NextObs ==
  /\ RowOver /\ r < Len(Obs)
  /\ r' = r + 1 /\ bad' = FALSE /\ UNCHANGED nok
  /\ pc' = "idle" /\ UNCHANGED <<a0, nrows, h, prev, i, nev, result>>

TBegin ==
  /\ Live /\ pc = "idle"
  /\ IF Row.calls >= 2
       THEN /\ R!Begin(Row.a, Row.b, Row.n, Y(1), Y(2))
            /\ bad' = ~(nev' = 2 /\ FEq(X(1), Row.a) /\ FEq(X(2), Row.b))
            /\ bad' => Drift("first_two_evaluations_are_the_end_points")
       ELSE /\ R!Begin(Row.a, Row.b, Row.n, F0, F0)
            /\ bad' = ~(pc' = "err" /\ Row.ret = "err" /\ Row.calls = 0)
            /\ bad' => Drift("error_without_evaluation_only_for_an_empty_or_reversed_interval")
  /\ nok' = nok + (IF ~bad' /\ pc' = "err" THEN 1 ELSE 0)
  /\ UNCHANGED r

TRow ==
  /\ Live /\ pc = "rows" /\ i <= nrows
  /\ LET m == R!Pow(2, i - 2) IN
     IF nev + m > Row.calls
       THEN /\ bad' = TRUE /\ Drift("run_stopped_before_the_last_tableau_row") /\ UNCHANGED rvars
       ELSE /\ R!RowStep([k \in 1..m |-> Y(nev + k)])
            /\ bad' = ~(\A k \in 1..m : FEq(X(nev + k), R!RowAbscissae[k]))
            /\ bad' => Drift("row_evaluates_the_midpoints_of_the_previous_panels_in_order")
  /\ UNCHANGED <<r, nok>>

TFinish ==
  /\ Live /\ R!Finish
  /\ bad' = ~(nev = Row.calls /\ Row.ret = "ok" /\ FEq(result', Row.val[1]))
  /\ bad' => Drift(IF nev # Row.calls THEN "run_continued_after_the_last_row" ELSE "returned_value_is_the_last_tableau_entry")
  /\ nok' = nok + (IF bad' THEN 0 ELSE 1)
  /\ UNCHANGED r

Finish == /\ r = Len(Obs) /\ RowOver
          /\ TLCGet(1) = 0 /\ TLCSet(1, 1)
          /\ PrintT(<<"STAT", "romberg_runs_explained", nok>>)
          /\ PrintT(<<"CHECKED", Len(Obs)>>)
          /\ UNCHANGED vars

Next == NextObs \/ TBegin \/ TRow \/ TFinish \/ Finish
=============================================================================
