----------------------------- MODULE Trace_Secant -----------------------------
(***************************************************************************)
(* E3, design level, for C08: the closure calls of real roots::secant runs *)
(* (f with its arguments and values, in order) are validated against       *)
(* module SecantP over IEEE doubles - a refinement check against the       *)
(* DEFINING form of Broyden's method, while the code works with the        *)
(* inverse matrix and the Sherman-Morrison formula: the calls must be f at *)
(* the start, the 2 S central-difference evaluations (+h then -h in each   *)
(* coordinate), then one evaluation per pass at the current guess; the     *)
(* first step must solve J0 s = -f(x0) with J0 the central-difference      *)
(* matrix of the recorded values; every later step must solve B s = -f     *)
(* with B the Broyden matrix built by the forward update from the recorded *)
(* history (residual test); the loop ends exactly when a step is within    *)
(* the tolerance.  Runs on badly conditioned matrices (B rows nearly       *)
(* dependent) and runs too close to call on the stopping test are set      *)
(* aside.  One observation line per run:                                   *)
(*   [method, dim, start, h, tol, n_max, obs = [ret, x, nf, calls]]        *)
(* A mismatch is DRIFT, reported per run; the run is abandoned.            *)
(***************************************************************************)
EXTENDS Integers, Sequences, FiniteSets, TLC, Json, IOUtils, F64

Obs == ndJsonDeserialize(IOEnv.VH_OBS)

VARIABLES pc, x, fx, B, s, tol, nmax, n, nev, result, r, bad, nok, nskip
pvars == <<pc, x, fx, B, s, tol, nmax, n, nev, result>>
vars == <<pc, x, fx, B, s, tol, nmax, n, nev, result, r, bad, nok, nskip>>


MatVec(m, v) == [i \in 1..Len(m) |-> FSum([c \in 1..Len(v) |-> FMul(m[i][c], v[c])])]
MaxAbsM(m) == FMaxAbs([i \in 1..Len(m) |-> FMaxAbs(m[i])])
Dot(u, v) == FSum([q \in 1..Len(u) |-> FMul(u[q], v[q])])
\* B + (y - B s) s^T / (s^T s)
UpdateF(b, fo, fn, st) ==
  LET y == VSub(fn, fo)
      w == VSub(y, MatVec(b, st))
      ss == Dot(st, st)
  IN IF FEq(ss, F0) THEN b
     ELSE FSeq([i \in 1..Len(b) |-> [c \in 1..Len(st) |-> FAdd(b[i][c], FDiv(FMul(w[i], st[c]), ss))]])
\* residual of B (xn - x) = -f against the scale of its terms; the recorded points carry the rounding of x itself, and
\* the specification's B and the code's inverse drift apart at rounding level per pass
StepOkF(b, xx, f, xn) ==
  LET d == VSub(xn, xx)
      res == VAdd(MatVec(b, d), f)
      scale == FAdd(FMul(FMul(FOfInt(Len(xx)), MaxAbsM(b)), FMaxAbs(d)), FMaxAbs(f))
      round == FMul(FMul(FMul(FOfInt(8 * Len(xx)), FEps), MaxAbsM(b)), FAdd(FMaxAbs(xx), FMaxAbs(xn)))
  IN FLe(FMaxAbs(res), FAdd(FAdd(FMul(FOfDec("1e-6"), scale), round), FScale(1, -1000)))

Minor(m, c) == [i \in 1..(Len(m) - 1) |-> [q \in 1..(Len(m) - 1) |-> m[i + 1][IF q < c THEN q ELSE q + 1]]]
RECURSIVE Det(_)
Det(m) ==
  IF Len(m) = 1 THEN m[1][1]
  ELSE FSum([c \in 1..Len(m) |-> FMul(IF c % 2 = 1 THEN m[1][c] ELSE FNeg(m[1][c]), Det(FSeq(Minor(m, c))))])
RECURSIVE RowProd(_, _)
RowProd(m, i) == IF i > Len(m) THEN F1 ELSE FMul(FMaxAbs(m[i]), RowProd(m, i + 1))
\* nearly dependent rows: |det| against the product of the row norms
IllConditioned(m) == FLe(FAbs(Det(m)), FMul(FOfDec("1e-4"), RowProd(m, 1)))

P == INSTANCE SecantP WITH StepOk <- StepOkF, Update <- UpdateF, Singular <- LAMBDA b : FALSE,
                           StepSmall <- LAMBDA xx, xn, t : FLe(FNorm2(VSub(xn, xx)), t), Zero <- <<>>

Row == Obs[r]
Calls == Row.obs.calls
NC == Len(Calls)
S == Row.dim
Usable(o) == o.method = "secant" /\ o.obs.ret \in {"ok", "err"} /\ o.obs.nf = Len(o.obs.calls)
Drift(what) == PrintT(<<"DRIFT", r, what>>)
RowOver == IF r = 0 THEN TRUE ELSE IF ~Usable(Row) THEN TRUE ELSE (bad \/ pc \in {"ok", "err"})
Live == r > 0 /\ ~bad /\ Usable(Row)
SameVec(u, v) == Len(u) = Len(v) /\ \A q \in 1..Len(u) : FEq(u[q], v[q])
Borderline(xx, xn, t) ==
  LET nrm == FNorm2(VSub(xn, xx))
      slack == FMul(FScale(1, -48), FAdd(FAdd(FMaxAbs(xx), FMaxAbs(xn)), FScale(1, -1000)))
  IN FLe(FAbs(FSub(nrm, t)), FMul(FOfInt(4 * Len(xx)), slack))

\* the central-difference matrix of the recorded values: column c from calls 2c (x0 + h e_c) and 2c + 1 (x0 - h e_c)
Denom == FDiv(F1, FMul(F2, Row.h))
Jfd == FSeq([i \in 1..S |-> [c \in 1..S |-> FMul(FSub(Calls[2 * c].v[i], Calls[2 * c + 1].v[i]), Denom)]])
\* the arguments of those calls: x0 with +h / -h in coordinate c (up to the rounding of the in-place perturbation)
Near(u, v) == FLe(FAbs(FSub(u, v)), FMul(FScale(1, -46), FAdd(FAdd(FAbs(u), FAbs(v)), FAbs(Row.h))))
FdArgsOk ==
  \A c \in 1..S : \A q \in 1..S :
     /\ Near(Calls[2 * c].x[q], IF q = c THEN FAdd(Row.start[q], Row.h) ELSE Row.start[q])
     /\ Near(Calls[2 * c + 1].x[q], IF q = c THEN FSub(Row.start[q], Row.h) ELSE Row.start[q])

Init == P!Init /\ r = 0 /\ bad = FALSE /\ nok = 0 /\ nskip = 0 /\ TLCSet(1, 0)

NextObs ==
  /\ RowOver /\ r < Len(Obs)
  /\ r' = r + 1 /\ bad' = FALSE /\ UNCHANGED <<nok, nskip>>
  /\ pc' = "idle" /\ UNCHANGED <<x, fx, B, s, tol, nmax, n, nev, result>>

TBegin ==
  /\ Live /\ pc = "idle"
  /\ LET need == 1 + 2 * S
         shape == NC >= need /\ SameVec(Calls[1].x, Row.start) /\ FdArgsOk
         endsHere == NC = need
         x1 == IF endsHere THEN Row.obs.x ELSE Calls[need + 1].x
         verdict == IF ~shape THEN "shape"
                    ELSE IF endsHere /\ Row.obs.ret = "err" THEN (IF Row.n_max <= 2 THEN "cap" ELSE "singular")
                    ELSE IF IllConditioned(Jfd) THEN "skip"
                    ELSE IF ~StepOkF(Jfd, Row.start, Calls[1].v, x1) THEN "equation"
                    ELSE IF Borderline(Row.start, x1, Row.tol) THEN "skip"
                    ELSE "go"
     IN CASE verdict = "shape" ->
               /\ bad' = TRUE /\ Drift("starts_with_f_at_the_start_and_the_central_difference_evaluations") /\ UNCHANGED <<pvars, nok, nskip>>
          [] verdict = "singular" ->
               \* Err right after the finite differences: the matrix could not be inverted - accepted for nearly dependent rows
               /\ pc' = "err" /\ UNCHANGED <<x, fx, B, s, tol, nmax, n, nev, result, nskip>>
               /\ bad' = ~IllConditioned(Jfd)
               /\ bad' => Drift("err_after_the_finite_differences_only_for_a_singular_matrix")
               /\ nok' = nok + (IF bad' THEN 0 ELSE 1)
          [] verdict = "cap" ->
               \* the loop counter starts at 2: with n_max <= 2 there is no pass, and a first step above tol ends in Err
               /\ pc' = "err" /\ bad' = FALSE /\ nok' = nok + 1 /\ UNCHANGED <<x, fx, B, s, tol, nmax, n, nev, result, nskip>>
          [] verdict = "skip" ->
               /\ bad' = TRUE /\ nskip' = nskip + 1 /\ UNCHANGED <<pvars, nok>>
          [] verdict = "equation" ->
               /\ bad' = TRUE /\ Drift("first_step_solves_the_finite_difference_newton_equation") /\ UNCHANGED <<pvars, nok, nskip>>
          [] verdict = "go" ->
               /\ P!Begin(Row.start, Row.tol, Row.n_max, Calls[1].v, Jfd, 2 * S, x1, VSub(x1, Row.start))
               /\ bad' = ~(IF pc' = "ok" THEN endsHere /\ Row.obs.ret = "ok" ELSE ~endsHere \/ (Row.obs.ret = "err" /\ 2 >= Row.n_max))
               /\ bad' => Drift("returns_after_the_first_step_exactly_when_it_is_within_the_tolerance")
               /\ nok' = nok + (IF ~bad' /\ pc' = "ok" THEN 1 ELSE 0)
               /\ UNCHANGED nskip
  /\ UNCHANGED r

TIter ==
  /\ Live /\ pc = "run" /\ n < nmax
  /\ LET have == nev + 1 <= NC
         cf == Calls[nev + 1]
         last == nev + 1 = NC
         xn == IF last THEN Row.obs.x ELSE Calls[nev + 2].x
         Bn == UpdateF(B, fx, cf.v, s)
         verdict == IF ~have THEN "short"
                    ELSE IF ~SameVec(cf.x, x) THEN "shape"
                    ELSE IF last /\ Row.obs.ret = "err" THEN (IF n + 1 = nmax THEN "cap" ELSE "short")
                    ELSE IF IllConditioned(Bn) THEN "skip"
                    ELSE IF ~StepOkF(Bn, x, cf.v, xn) THEN "equation"
                    ELSE IF Borderline(x, xn, tol) THEN "skip"
                    ELSE "iter"
     IN CASE verdict = "short" ->
               /\ bad' = TRUE /\ Drift("run_ended_before_the_pass_it_still_had") /\ UNCHANGED <<pvars, nok, nskip>>
          [] verdict = "shape" ->
               /\ bad' = TRUE /\ Drift("pass_evaluates_f_at_the_current_guess") /\ UNCHANGED <<pvars, nok, nskip>>
          [] verdict = "cap" ->
               /\ pc' = "err" /\ nev' = nev + 1 /\ n' = n + 1 /\ bad' = FALSE /\ nok' = nok + 1
               /\ UNCHANGED <<x, fx, B, s, tol, nmax, result, nskip>>
          [] verdict = "skip" ->
               /\ bad' = TRUE /\ nskip' = nskip + 1 /\ UNCHANGED <<pvars, nok>>
          [] verdict = "equation" ->
               /\ bad' = TRUE /\ Drift("step_solves_the_equation_of_the_broyden_matrix_of_the_history") /\ UNCHANGED <<pvars, nok, nskip>>
          [] verdict = "iter" ->
               /\ P!Iter(cf.v, xn, VSub(xn, x))
               /\ bad' = ~(IF pc' = "ok" THEN last /\ Row.obs.ret = "ok" ELSE ~last)
               /\ bad' => Drift("loop_ends_exactly_when_the_step_is_within_the_tolerance")
               /\ nok' = nok + (IF ~bad' /\ pc' = "ok" THEN 1 ELSE 0)
               /\ UNCHANGED nskip
  /\ UNCHANGED r

TGiveUp ==
  /\ Live /\ P!GiveUp
  /\ bad' = ~(Row.obs.ret = "err" /\ nev = NC)
  /\ bad' => Drift("iteration_cap_gives_err")
  /\ nok' = nok + (IF bad' THEN 0 ELSE 1)
  /\ UNCHANGED <<r, nskip>>

Finish == /\ r = Len(Obs) /\ RowOver
          /\ TLCGet(1) = 0 /\ TLCSet(1, 1)
          /\ PrintT(<<"STAT", "secant_runs_explained", nok, "set_aside", nskip>>)
          /\ PrintT(<<"CHECKED", Len(Obs)>>)
          /\ UNCHANGED vars

Next == NextObs \/ TBegin \/ TIter \/ TGiveUp \/ Finish
=============================================================================
