---------------------------- MODULE Trace_Simpson ----------------------------
(***************************************************************************)
(* E3, design level, for C09: the abscissae the real integrate_simpson     *)
(* asked its integrand for (recorded by the harness's closure, with the    *)
(* values it returned) are validated against the stack discipline that     *)
(* TLC model-checks in SimpsonStack.  The stack operations are             *)
(* SimpsonStack's own actions (AcceptV, SplitV, Finish); this module adds  *)
(* the numbers the code keeps with each frame (left end, half-width,       *)
(* tolerance, three function values, coarse estimate) over IEEE doubles.   *)
(* Real integrands use only + - * abs and <, so every abscissa, the        *)
(* accept / split verdict of every panel and the returned area are         *)
(* reproduced bit for bit: each pass consumes two recorded evaluations     *)
(* which must be at  left + step/2  and  left + 3 step/2  of the frame on  *)
(* top of the stack.  After every pass the numeric frames must agree with  *)
(* the abstract ones (level <-> width, index <-> left end).                *)
(* One observation line per run:                                           *)
(*   [routine, cx, a, b, tol, n, evals = << <<x, <<re, im>> >>, ... >>,    *)
(*    calls, ret, val]                                                     *)
(* A mismatch is DRIFT, reported per run; the run is abandoned.            *)
(***************************************************************************)
EXTENDS Integers, Sequences, FiniteSets, TLC, Json, IOUtils, F64

Obs == ndJsonDeserialize(IOEnv.VH_OBS)
NMax == atoi(IOEnv.VH_NMAX)          \* n_max of all runs in this file (the driver groups runs by it)

VARIABLES stack, accepted, stat, evals, split, num, area, i, k, bad, nok
svars == <<stack, accepted, stat, evals, split>>
vars == <<stack, accepted, stat, evals, split, num, area, i, k, bad, nok>>
(* num : the numeric frames, parallel to `stack`;  area : the running sum of accepted panels
   i, k : current observation / evaluations of it consumed;  bad : this run has drifted;  nok : runs explained *)

S == INSTANCE SimpsonStack WITH MaxLevel <- NMax, StaleLeftEstimate <- FALSE

Sixth == FDiv(F1, FOfInt(6))
Third == FDiv(F1, FOfInt(3))
F4 == FOfInt(4)
OneAndAHalf == FOfDec("1.5")

Row == Obs[i]
X(j) == Row.evals[j][1]
Y(j) == Row.evals[j][2][1]
Usable(o) == o.routine = "simpson" /\ ~o.cx /\ o.n = NMax /\ o.ret \in {"ok", "err"} /\ o.calls <= Len(o.evals)
Drift(what) == PrintT(<<"DRIFT", i, what>>)
RowOver == IF i = 0 THEN TRUE ELSE IF ~Usable(Row) THEN TRUE ELSE (bad \/ stat \in {"ok", "err"})
Live == i > 0 /\ ~bad /\ Usable(Row)

Init == /\ stack = <<>> /\ accepted = {} /\ stat = "idle" /\ evals = 0 /\ split = {}
        /\ num = <<>> /\ area = F0 /\ i = 0 /\ k = 0 /\ bad = FALSE /\ nok = 0 /\ TLCSet(1, 0)

NextRow ==
  /\ RowOver /\ i < Len(Obs)
  /\ i' = i + 1 /\ k' = 0 /\ bad' = FALSE /\ stat' = "idle" /\ stack' = <<>> /\ accepted' = {} /\ evals' = 0
  /\ num' = <<>> /\ area' = F0 /\ UNCHANGED <<split, nok>>

\* argument checks and the three evaluations before the loop
TBegin ==
  /\ Live /\ stat = "idle"
  /\ IF FLe(Row.b, Row.a) \/ FSignBit(Row.tol)
       THEN /\ stat' = "err" /\ UNCHANGED <<stack, accepted, evals, split, num, area, k>>
            /\ bad' = ~(Row.ret = "err" /\ Row.calls = 0)
            /\ bad' => Drift("invalid_interval_or_tolerance_gives_err_without_evaluation")
            /\ nok' = nok + (IF bad' THEN 0 ELSE 1)
       ELSE LET step == FMul(FSub(Row.b, Row.a), FHalf) IN
            IF Row.calls < 3
              THEN /\ bad' = TRUE /\ Drift("three_evaluations_before_the_loop") /\ UNCHANGED <<svars, num, area, k, nok>>
              ELSE /\ stack' = << S!Frame(1, 0, 1, 0) >> /\ accepted' = {} /\ stat' = "run" /\ evals' = 3 /\ UNCHANGED split
                   /\ num' = << [left |-> Row.a, step |-> step, tol |-> FMul(FOfInt(10), Row.tol),
                                 fa |-> Y(1), fc |-> Y(2), fb |-> Y(3),
                                 sum |-> FMul(FMul(step, FAdd(FAdd(Y(1), FMul(F4, Y(2))), Y(3))), Third)] >>
                   /\ area' = F0 /\ k' = 3 /\ UNCHANGED nok
                   /\ bad' = ~(FEq(X(1), Row.a) /\ FEq(X(2), FAdd(Row.a, step)) /\ FEq(X(3), Row.b))
                   /\ bad' => Drift("first_evaluations_are_left_midpoint_right")
  /\ UNCHANGED i

\* the numeric frames agree with the abstract ones: width 2^-(lvl-1) of the whole, left end at idx widths
Geometry(st, nm) ==
  /\ Len(st) = Len(nm)
  /\ \A j \in 1..Len(st) :
       LET w0 == FMul(FSub(Row.b, Row.a), FHalf)
           stepj == FMul(w0, FScale(1, 1 - st[j].lvl))
           leftj == FAdd(Row.a, FMul(FOfInt(2 * st[j].idx), stepj))
       IN /\ FEq(nm[j].step, stepj)
          /\ FLe(FAbs(FSub(nm[j].left, leftj)), FMul(FOfDec("1e-12"), FAdd(FAbs(Row.a), FAbs(Row.b))))
          /\ FEq(nm[j].tol, FMul(FMul(FOfInt(10), Row.tol), FScale(1, 1 - st[j].lvl)))

\* one pass of the while loop: two evaluations, the verdict, pop and possibly two pushes
TPass ==
  /\ Live /\ stat = "run" /\ Len(stack) > 0
  /\ IF k + 2 > Row.calls
       THEN /\ bad' = TRUE /\ Drift("run_stopped_while_panels_are_pending") /\ UNCHANGED <<svars, num, area, k>>
       ELSE LET nf == num[Len(num)]
                fd == Y(k + 1)  fe == Y(k + 2)
                s1 == FMul(FMul(nf.step, FAdd(FAdd(nf.fa, FMul(F4, fd)), nf.fc)), Sixth)
                s2 == FMul(FMul(nf.step, FAdd(FAdd(nf.fc, FMul(F4, fe)), nf.fb)), Sixth)
                ok == FLt(FAbs(FSub(FAdd(s1, s2), nf.sum)), nf.tol)
                rest == SubSeq(num, 1, Len(num) - 1)
                hs == FMul(FHalf, nf.step)  ht == FMul(FHalf, nf.tol)
                rightF == [left |-> FAdd(nf.left, nf.step), step |-> hs, tol |-> ht, fa |-> nf.fc, fc |-> fe, fb |-> nf.fb, sum |-> s2]
                leftF == [left |-> nf.left, step |-> hs, tol |-> ht, fa |-> nf.fa, fc |-> fd, fb |-> nf.fc, sum |-> s1]
            IN /\ k' = k + 2
               /\ IF ok THEN S!AcceptV /\ num' = rest /\ area' = FAdd(area, FAdd(s1, s2))
                        ELSE S!SplitV /\ num' = (IF stat' = "err" THEN num ELSE rest \o <<rightF, leftF>>) /\ area' = area
               /\ bad' = ~(/\ FEq(X(k + 1), FAdd(nf.left, FMul(FHalf, nf.step)))
                           /\ FEq(X(k + 2), FAdd(nf.left, FMul(OneAndAHalf, nf.step)))
                           /\ (stat' = "run" => Geometry(stack', num') /\ S!OwnEstimate' /\ S!LevelBounded')
                           /\ (stat' = "err" => Row.ret = "err" /\ k' = Row.calls))
               /\ bad' => Drift(IF stat' = "err" THEN "depth_error_ends_the_run"
                                ELSE "pass_evaluates_the_quarter_points_of_the_top_frame")
  /\ nok' = nok + (IF ~bad' /\ stat' = "err" THEN 1 ELSE 0)
  /\ UNCHANGED i

TFinish ==
  /\ Live /\ stat = "run" /\ Len(stack) = 0
  /\ S!Finish
  /\ bad' = ~(k = Row.calls /\ Row.ret = "ok" /\ FEq(Row.val[1], area))
  /\ bad' => Drift(IF k # Row.calls THEN "run_continued_after_the_stack_emptied" ELSE "returned_area_is_the_sum_of_accepted_panels")
  /\ nok' = nok + (IF bad' THEN 0 ELSE 1)
  /\ UNCHANGED <<num, area, i, k>>

Finish == /\ i = Len(Obs) /\ RowOver
          /\ TLCGet(1) = 0 /\ TLCSet(1, 1)
          /\ PrintT(<<"STAT", "simpson_runs_explained", nok>>)
          /\ PrintT(<<"CHECKED", Len(Obs)>>)
          /\ UNCHANGED vars

Next == NextRow \/ TBegin \/ TPass \/ TFinish \/ Finish
=============================================================================
