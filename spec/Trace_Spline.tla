---------------------------- MODULE Trace_Spline ----------------------------
(***************************************************************************)
(* Design-level trace validation for C16 (refinement, not bit for bit):    *)
(* for every recorded spline the design model SplineSweep is run over      *)
(* IEEE doubles on the recorded knots, ordinates and end slopes - Begin,   *)
(* the forward rows, Close, the back substitution - and the cubic it ends  *)
(* with,  y_k + b_k s + c_k s^2 + d_k s^3  (s = x - x_k),  must agree with *)
(* the values and first derivatives the real spline returned at the five   *)
(* probes inside every piece, within the rounding allowance of the         *)
(* contract (the real pieces are stored expanded in powers of x, the model *)
(* keeps them in powers of s).  A mismatch is a DRIFT: the code no longer  *)
(* computes what the model's sweeps compute.                               *)
(***************************************************************************)
EXTENDS Integers, Sequences, FiniteSets, TLC, Json, IOUtils, F64
Obs == ndJsonDeserialize(IOEnv.VH_OBS)
KS == FOfDec(IOEnv.VH_KS)
VARIABLES pc, kind, xs, ys, f0, fn, k, al, l, mu, z, c, b, d, i, bad, nok
C0 == <<F0, F0>>
CR(x) == <<x, F0>>
S == INSTANCE SplineSweep WITH Add <- CAdd, Sub <- CSub, Mul <- CMul, Div <- CDiv, Zero <- C0, One <- CR(F1), Two <- CR(F2),
       Three <- CR(FOfInt(3)), Third <- CR(FDiv(F1, FOfInt(3))), Half <- CR(FHalf), Defects <- {}
svars == <<pc, kind, xs, ys, f0, fn, k, al, l, mu, z, c, b, d>>
vars == <<svars, i, bad, nok>>

Row == Obs[i]
Usable(o) == o.err_case = "none" /\ o.obs.st = "ok" /\ Len(o.xs) >= 2 /\ \A q \in 1..(Len(o.xs) + 5 * (Len(o.xs) - 1)) : o.obs.pts[q].ok
Drift(what) == PrintT(<<"DRIFT", i, what>>)

\* the contract's rounding allowance (Val_C16: Tol0 for values, Tol1 for first derivatives)
N(o) == Len(o.xs)
H(o, j) == FSub(o.xs[j + 1], o.xs[j])
HMax(o) == FMaxAbs([j \in 1..(N(o) - 1) |-> H(o, j)])
RECURSIVE MinH(_, _)
MinH(o, j) == IF j = N(o) - 1 THEN H(o, j) ELSE FMin(H(o, j), MinH(o, j + 1))
XMax(o) == FMaxAbs(o.xs)
YMax(o) == FMaxAbs([j \in 1..N(o) |-> CAbs(o.ys[j])])
Scale(o) == FAdd(F1, FAdd(YMax(o), FMul(FMax(CAbs(o.f0), CAbs(o.fn)), HMax(o))))
Cond(o) == LET r == FDiv(HMax(o), MinH(o, 1)) x == FAdd(F1, XMax(o)) IN FMul(FMul(r, r), FMul(x, FMul(x, x)))
CondX(o) == LET q == FAdd(F1, FDiv(XMax(o), MinH(o, 1))) IN FMul(q, FMul(q, q))
Tol0(o) == FMul(FEps, FMul(Scale(o), FMax(FMul(KS, Cond(o)), FMul(FOfInt(64), CondX(o)))))
Tol1(o) == FDiv(Tol0(o), MinH(o, 1))
P(o, j, q) == o.obs.pts[N(o) + 5 * (j - 1) + q]

\* the model's piece j at abscissa x: value and first derivative
PieceV(j, x) == LET s == CR(FSub(x, xs[j][1])) IN CAdd(ys[j], CMul(s, CAdd(b[j], CMul(s, CAdd(c[j], CMul(s, d[j]))))))
PieceD(j, x) == LET s == CR(FSub(x, xs[j][1])) IN CAdd(b[j], CMul(s, CAdd(CScale(F2, c[j]), CMul(s, CScale(FOfInt(3), d[j])))))
Agrees(o) == \A j \in 1..(N(o) - 1) : \A q \in 1..5 :
               /\ FLe(CAbs(CSub(P(o, j, q).v, PieceV(j, P(o, j, q).x))), Tol0(o))
               /\ FLe(CAbs(CSub(P(o, j, q).d, PieceD(j, P(o, j, q).x))), Tol1(o))

Init == S!Init /\ i = 0 /\ bad = FALSE /\ nok = 0 /\ TLCSet(1, 0)
RowOver == IF i = 0 THEN TRUE ELSE IF ~Usable(Row) THEN TRUE ELSE (bad \/ pc = "judged")
Live == i >= 1 /\ Usable(Row) /\ ~bad

NextRow == /\ i < Len(Obs) /\ RowOver
           /\ i' = i + 1 /\ bad' = FALSE /\ pc' = "idle"
           /\ UNCHANGED <<kind, xs, ys, f0, fn, k, al, l, mu, z, c, b, d, nok>>
TBegin == /\ Live /\ S!Begin(Row.kind, [j \in 1..Len(Row.xs) |-> CR(Row.xs[j])], Row.ys, Row.f0, Row.fn) /\ UNCHANGED <<i, bad, nok>>
TForward == Live /\ S!Forward /\ UNCHANGED <<i, bad, nok>>
TClose == Live /\ S!Close /\ UNCHANGED <<i, bad, nok>>
TBack == Live /\ S!Back /\ UNCHANGED <<i, bad, nok>>
TJudge == /\ Live /\ pc = "done" /\ pc' = "judged"
          /\ bad' = ~Agrees(Row)
          /\ bad' => Drift("pieces_of_the_forward_and_backward_sweeps")
          /\ nok' = nok + (IF bad' THEN 0 ELSE 1)
          /\ UNCHANGED <<kind, xs, ys, f0, fn, k, al, l, mu, z, c, b, d, i>>
Finish == /\ i = Len(Obs) /\ RowOver
          /\ TLCGet(1) = 0 /\ TLCSet(1, 1)
          /\ PrintT(<<"STAT", "spline_runs_explained", nok>>)
          /\ PrintT(<<"CHECKED", Len(Obs)>>)
          /\ UNCHANGED vars
Next == NextRow \/ TBegin \/ TForward \/ TClose \/ TBack \/ TJudge \/ Finish
=============================================================================
