--------------------------- MODULE Trace_Steffensen ---------------------------
(***************************************************************************)
(* E3, design level, for C08: the points at which the real                 *)
(* roots::steffensen evaluated its map g (recorded by the harness, with    *)
(* the values returned) are validated against module Steffensen over IEEE  *)
(* doubles.  The routine uses only + - * / abs and comparisons, so every   *)
(* abscissa and the returned number are reproduced bit for bit: each Pass  *)
(* consumes one or two recorded evaluations, the first at the current      *)
(* iterate, the second at the value of the first.  One observation line    *)
(* per run: [method, start, tol, n_max, obs = [ret, x, nf, gevals]]        *)
(* A mismatch is DRIFT, reported per run; the run is abandoned.            *)
(***************************************************************************)
EXTENDS Integers, Sequences, FiniteSets, TLC, Json, IOUtils, F64

Obs == ndJsonDeserialize(IOEnv.VH_OBS)

VARIABLES pc, x, tol, nmax, n, nev, result, r, bad, nok
svars == <<pc, x, tol, nmax, n, nev, result>>
vars == <<pc, x, tol, nmax, n, nev, result, r, bad, nok>>

S == INSTANCE Steffensen WITH Add <- FAdd, Sub <- FSub, Mul <- FMul, Div <- FDiv, Le <- FLe, AbsV <- FAbs, Two <- F2, Zero <- F0

Row == Obs[r]
Ev(j) == Row.obs.gevals[j]
NCalls == Row.obs.nf
Usable(o) == o.method = "steffensen" /\ o.obs.ret \in {"ok", "err"} /\ o.obs.nf <= Len(o.obs.gevals)
Drift(what) == PrintT(<<"DRIFT", r, what>>)
RowOver == IF r = 0 THEN TRUE ELSE IF ~Usable(Row) THEN TRUE ELSE (bad \/ pc \in {"ok", "err"})
Live == r > 0 /\ ~bad /\ Usable(Row)

Init == S!Init /\ r = 0 /\ bad = FALSE /\ nok = 0 /\ TLCSet(1, 0)

NextObs ==
  /\ RowOver /\ r < Len(Obs)
  /\ r' = r + 1 /\ bad' = FALSE /\ UNCHANGED nok
  /\ pc' = "idle" /\ UNCHANGED <<x, tol, nmax, n, nev, result>>

TBegin == Live /\ S!Begin(Row.start[1], Row.tol, Row.n_max) /\ UNCHANGED <<r, bad, nok>>

TPass ==
  /\ Live /\ pc = "run" /\ n < nmax
  /\ IF nev + 1 > NCalls
       THEN /\ bad' = TRUE /\ Drift("run_stopped_while_the_design_continues") /\ UNCHANGED svars
       ELSE /\ S!Pass(Ev(nev + 1)[2], LAMBDA y : IF nev + 2 <= NCalls THEN Ev(nev + 2)[2] ELSE F0)
            /\ bad' = ~(/\ FEq(Ev(nev + 1)[1], x)
                        /\ nev' <= NCalls
                        /\ (nev' = nev + 2 => FEq(Ev(nev + 2)[1], Ev(nev + 1)[2]))
                        /\ (pc' = "ok" => nev' = NCalls /\ Row.obs.ret = "ok" /\ FEq(result', Row.obs.x[1])))
            /\ bad' => Drift(IF pc' = "ok" THEN "stopping_tests_and_returned_number" ELSE "pass_evaluates_g_at_the_iterate_then_at_its_image")
  /\ nok' = nok + (IF ~bad' /\ pc' = "ok" THEN 1 ELSE 0)
  /\ UNCHANGED r

TGiveUp ==
  /\ Live /\ S!GiveUp
  /\ bad' = ~(Row.obs.ret = "err" /\ nev = NCalls)
  /\ bad' => Drift("iteration_cap_gives_err")
  /\ nok' = nok + (IF bad' THEN 0 ELSE 1)
  /\ UNCHANGED r

Finish == /\ r = Len(Obs) /\ RowOver
          /\ TLCGet(1) = 0 /\ TLCSet(1, 1)
          /\ PrintT(<<"STAT", "steffensen_runs_explained", nok>>)
          /\ PrintT(<<"CHECKED", Len(Obs)>>)
          /\ UNCHANGED vars

Next == NextObs \/ TBegin \/ TPass \/ TGiveUp \/ Finish
=============================================================================
