---------------------------- MODULE Trace_TanhSinh ----------------------------
(***************************************************************************)
(* E3, design level, for C09 and C10: the abscissae the real tanh-sinh     *)
(* integrator (integrate) asked its integrand for are validated against    *)
(* the shipped double-exponential table, dumped from the tree under test   *)
(* (VH_TABLES, rows "tanhsinh": pairs <<abscissa, weight>>, each standing  *)
(* for +x then -x, mapped to the interval by scale * x + shift), and       *)
(* against the stopping logic model-checked in TanhSinhStop, whose own     *)
(* action LevelV is taken once per level with the verdicts computed here   *)
(* from the recorded function values.  Real integrands; + - * abs are bit  *)
(* for bit, the logarithms of the deltas are Java's: a run whose ratio of  *)
(* logarithms falls within 1e-9 of the thresholds 1.9 / 2.1 is set aside   *)
(* (counted, not judged).  One observation line per run:                   *)
(*   [routine, cx, a, b, tol, evals = << <<x, <<re, im>> >>, ... >>,       *)
(*    calls, ret, val]                                                     *)
(* A mismatch is DRIFT, reported per run; the run is abandoned.            *)
(***************************************************************************)
EXTENDS Integers, Sequences, FiniteSets, TLC, Json, IOUtils, F64

Obs == ndJsonDeserialize(IOEnv.VH_OBS)
AllRows == ndJsonDeserialize(IOEnv.VH_TABLES)
Idx == {j \in 1..Len(AllRows) : AllRows[j].table = "tanhsinh"}
NLevels == Cardinality(Idx)
\* Tab[n] = the pairs <<abscissa, weight>> of level n (rows are numbered from 0 in the dump)
Tab == [n \in 1..NLevels |-> AllRows[CHOOSE j \in Idx : AllRows[j].row = n - 1].pairs]

VARIABLES small, zero, k, stat, result, integral, delta, scale, shift, nev, r, bad, nok, nskip
svars == <<small, zero, k, stat, result>>
vars == <<small, zero, k, stat, result, integral, delta, scale, shift, nev, r, bad, nok, nskip>>

S == INSTANCE TanhSinhStop WITH N <- NLevels, TolPositive <- TRUE

Row == Obs[r]
X(j) == Row.evals[j][1]
\* the integrator replaces a non-finite integrand value by zero
Y(j) == LET y == Row.evals[j][2][1] IN IF FIsFinite(y) THEN y ELSE F0
Usable(o) == o.routine = "tanhsinh" /\ ~o.cx /\ o.ret \in {"ok", "err"} /\ o.calls <= Len(o.evals)
Drift(what) == PrintT(<<"DRIFT", r, what>>)
RowOver == IF r = 0 THEN TRUE ELSE IF ~Usable(Row) THEN TRUE ELSE (bad \/ stat \in {"ok", "err", "skip"})
Live == r > 0 /\ ~bad /\ Usable(Row)
Map(x) == FAdd(FMul(scale, x), shift)
Near(x, c) == FLe(FAbs(FSub(x, c)), FOfDec("1e-9"))

Init == /\ small = <<>> /\ zero = <<>> /\ k = 0 /\ stat = "idle" /\ result = 0
        /\ integral = F0 /\ delta = F0 /\ scale = F1 /\ shift = F0 /\ nev = 0
        /\ r = 0 /\ bad = FALSE /\ nok = 0 /\ nskip = 0 /\ TLCSet(1, 0)

NextObs ==
  /\ RowOver /\ r < Len(Obs)
  /\ r' = r + 1 /\ bad' = FALSE /\ stat' = "idle" /\ k' = 0 /\ result' = 0 /\ nev' = 0
  /\ integral' = F0 /\ delta' = F0 /\ UNCHANGED <<small, zero, scale, shift, nok, nskip>>

\* argument checks, the centre evaluation
TBegin ==
  /\ Live /\ stat = "idle"
  /\ IF FLe(Row.b, Row.a) \/ FSignBit(Row.tol)
       THEN /\ stat' = "err"
            /\ bad' = ~(Row.ret = "err" /\ Row.calls = 0)
            /\ bad' => Drift("invalid_interval_or_tolerance_gives_err_without_evaluation")
            /\ nok' = nok + (IF bad' THEN 0 ELSE 1)
            /\ UNCHANGED <<scale, shift, integral, nev>>
       ELSE LET sc == FMul(FSub(Row.b, Row.a), FHalf)
                sh == FMul(FAdd(Row.b, Row.a), FHalf)
            IN IF Row.calls < 1
                 THEN /\ bad' = TRUE /\ Drift("centre_evaluation_first") /\ UNCHANGED <<stat, scale, shift, integral, nev, nok>>
                 ELSE /\ stat' = "run" /\ scale' = sc /\ shift' = sh /\ nev' = 1 /\ UNCHANGED nok
                      /\ integral' = FMul(FPi, Y(1))
                      /\ bad' = ~FEq(X(1), FAdd(FMul(sc, F0), sh))
                      /\ bad' => Drift("centre_evaluation_first")
  /\ UNCHANGED <<small, zero, k, result, delta, r, nskip>>

RECURSIVE Absc(_, _)
Absc(pairs, j) == IF j > Len(pairs) THEN <<>> ELSE <<Map(pairs[j][1]), Map(FNeg(pairs[j][1]))>> \o Absc(pairs, j + 1)
RECURSIVE Contribution(_, _, _, _)
Contribution(pairs, vals, j, acc) ==
  IF j > Len(pairs) THEN acc
  ELSE Contribution(pairs, vals, j + 1, FAdd(acc, FMul(pairs[j][2], FAdd(vals[2 * j - 1], vals[2 * j]))))

TLevel ==
  /\ Live /\ stat = "run" /\ k < NLevels
  /\ LET pairs == Tab[k + 1]
         xs == Absc(pairs, 1)
         m == Len(xs)
     IN IF nev + m > Row.calls
          THEN /\ bad' = TRUE /\ Drift("run_stopped_while_levels_remain_and_no_level_qualified")
               /\ UNCHANGED <<svars, integral, delta, nev, nok, nskip>>
          ELSE LET vals == [j \in 1..m |-> Y(nev + j)]
                   con == Contribution(pairs, vals, 1, F0)
                   prevLn == FLn(delta)
                   d == FAbs(FSub(FMul(FHalf, integral), con))
                   integ == FAdd(FMul(FHalf, integral), con)
                   ratio == FDiv(FLn(d), prevLn)
                   conv == FLt(FOfDec("1.9"), ratio) /\ FLt(ratio, FOfDec("2.1"))
                   est == IF conv THEN FMul(d, d) ELSE d
                   z == FEq(d, F0)
                   borderline == k + 1 > 2 /\ ~z /\ (Near(ratio, FOfDec("1.9")) \/ Near(ratio, FOfDec("2.1")))
               IN IF borderline
                    THEN /\ stat' = "skip" /\ nskip' = nskip + 1 /\ bad' = FALSE
                         /\ UNCHANGED <<small, zero, k, result, integral, delta, nev, nok>>
                    ELSE /\ S!LevelV(FLt(est, Row.tol), z)
                         /\ integral' = integ /\ delta' = d /\ nev' = nev + m /\ UNCHANGED nskip
                         /\ bad' = ~(/\ \A j \in 1..m : FEq(X(nev + j), xs[j])
                                     /\ (stat' = "ok" => /\ nev' = Row.calls /\ Row.ret = "ok"
                                                         /\ FEq(Row.val[1], FMul(integ, scale))))
                         /\ bad' => Drift(IF stat' = "ok" THEN "returns_the_estimate_of_the_first_qualifying_level"
                                          ELSE "level_evaluates_its_table_nodes_in_order")
                         /\ nok' = nok + (IF ~bad' /\ stat' = "ok" THEN 1 ELSE 0)
  /\ UNCHANGED <<scale, shift, r>>

TExhausted ==
  /\ Live /\ S!Exhausted
  /\ bad' = ~(Row.ret = "err" /\ nev = Row.calls)
  /\ bad' => Drift("err_only_when_the_levels_are_exhausted")
  /\ nok' = nok + (IF bad' THEN 0 ELSE 1)
  /\ UNCHANGED <<integral, delta, scale, shift, nev, r, nskip>>

Finish == /\ r = Len(Obs) /\ RowOver
          /\ TLCGet(1) = 0 /\ TLCSet(1, 1)
          /\ PrintT(<<"STAT", "tanhsinh_runs_explained", nok, "set_aside_as_borderline", nskip>>)
          /\ PrintT(<<"CHECKED", Len(Obs)>>)
          /\ UNCHANGED vars

Next == NextObs \/ TBegin \/ TLevel \/ TExhausted \/ Finish
=============================================================================
