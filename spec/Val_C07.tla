------------------------------ MODULE Val_C07 ------------------------------
(* C07: every recorded run of bisection / Brent / ITP is judged by TLC against the contract Bracket. *)
EXTENDS Integers, Sequences, FiniteSets, TLC, Json, IOUtils, F64, Bracket
Obs == ndJsonDeserialize(IOEnv.VH_OBS)
VARIABLE i
Init == i = 0
Next == /\ i < Len(Obs)
        /\ i' = i + 1
        /\ \E bad \in {Bad(Obs[i + 1])} : bad # {} => PrintT(<<"VIOL", i + 1, bad>>)
        /\ (i' = Len(Obs)) => PrintT(<<"CHECKED", Len(Obs)>>)
=============================================================================
