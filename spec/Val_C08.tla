------------------------------ MODULE Val_C08 ------------------------------
(* C08: every recorded run of newton / secant / newton_polynomial / muller_polynomial / steffensen is judged
   by TLC against the contract Iterative. *)
EXTENDS Integers, Sequences, FiniteSets, TLC, Json, IOUtils, F64, Iterative
Obs == ndJsonDeserialize(IOEnv.VH_OBS)
VARIABLE i
Init == i = 0
Next == /\ i < Len(Obs)
        /\ i' = i + 1
        /\ \E bad \in {Bad(Obs[i + 1])} : bad # {} => PrintT(<<"VIOL", i + 1, bad>>)
        /\ (i' = Len(Obs)) => PrintT(<<"CHECKED", Len(Obs)>>)
=============================================================================
