------------------------------ MODULE Val_C09 ------------------------------
(***************************************************************************)
(* C09: results of the adaptive / fixed quadrature routines are within     *)
(* tolerance of the closed-form integral (module Quad); error cases give   *)
(* Err; abscissae stay inside the interval; adaptive Simpson's work is     *)
(* bounded relative to the textbook recursion on the same input.           *)
(***************************************************************************)
EXTENDS Integers, Sequences, FiniteSets, TLC, Json, IOUtils, F64, Quad

Obs == ndJsonDeserialize(IOEnv.VH_OBS)
KQ == FOfInt(atoi(IOEnv.VH_KQ))

BadInput(o) == (HasInterval(o.routine) /\ ~FLt(o.a, o.b)) \/ (o.routine # "romberg" /\ FLt(o.tol, F0))
Degree(o) == IF o.f.k = "poly" THEN Len(o.f.c) - 1 ELSE 1000
Scale(o) == FAdd(F1, CAbs(Exact(o)))

Bound(o) ==
  CASE o.routine = "romberg" -> FMul(FMul(FOfInt(256), FEps), FAdd(Scale(o), FMul(FSub(o.b, o.a), FMaxAbs(<<CAbs(FunEval(o.f, o.a)), CAbs(FunEval(o.f, o.b))>>))))
    [] o.routine = "tanhsinh" /\ FLt(o.tol, FOfDec("1e-8")) -> FMul(KQ, FSqrt(o.tol))        \* weaker power law below 1e-8
    [] OTHER -> FMul(KQ, o.tol)
\* classes where the estimator is reliable and the hard bound is claimed
Claimed(o) ==
  CASE o.routine = "simpson" -> Degree(o) <= 5
    [] o.routine = "romberg" -> Degree(o) <= 2 * o.n - 1
    [] OTHER -> TRUE

Check(o) ==
  IF o.ret = "panic" THEN {"never_panics"}
  ELSE IF BadInput(o) THEN (IF o.ret = "err" THEN {} ELSE {"reversed_or_empty_interval_or_negative_tolerance_gives_err"})
  ELSE (IF o.ret = "budget" THEN {"terminates_within_budget"} ELSE {})
       \cup (IF o.ret = "err" /\ Claimed(o) /\ o.mustok THEN {"returns_ok_on_reliable_class"} ELSE {})
       \* absolute bound KQ * tol, plus the rounding of summing the rule (4096 eps relative to the integral's size)
       \cup (IF o.ret = "ok" /\ Claimed(o) /\ ~FLe(CAbs(CSub(o.val, Exact(o))), FAdd(Bound(o), FMul(FMul(FOfInt(4096), FEps), Scale(o))))
               THEN {"result_within_tolerance_of_true_integral"} ELSE {})
       \cup (IF HasInterval(o.routine) /\ o.calls > 0 /\ (FLt(o.xmin, o.a) \/ FGt(o.xmax, o.b)) THEN {"integrand_sampled_inside_the_interval"} ELSE {})
       \cup (IF o.routine = "simpson" /\ o.ret = "ok" /\ o.work /\ o.calls > 2 * RefSimpsonEvals(o) + 8
               THEN {"simpson_work_bounded_by_textbook_recursion"} ELSE {})

VARIABLE i
Init == i = 0
Next == /\ i < Len(Obs)
        /\ i' = i + 1
        /\ \E bad \in {Check(Obs[i + 1])} : bad # {} => PrintT(<<"VIOL", i + 1, bad>>)
        /\ (i' = Len(Obs)) => PrintT(<<"CHECKED", Len(Obs)>>)
=============================================================================
