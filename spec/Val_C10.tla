------------------------------ MODULE Val_C10 ------------------------------
(* C10: every row of every shipped table (dumped from the working tree's tables.rs) is judged by TLC. *)
EXTENDS Integers, Sequences, FiniteSets, TLC, Json, IOUtils, F64, QuadTables
Obs == ndJsonDeserialize(IOEnv.VH_OBS)
\* "exactly (up to rounding)": the families on [-1, 1] (Legendre, both Chebyshev kinds) have moments that no power of a
\* node amplifies - their shipped rows meet every moment to 1e-13 - and are held to RelB; in the families on unbounded
\* domains the high moments are carried by the outermost nodes raised to powers up to 2n - 1, and the shipped digits leave
\* residuals up to 4e-11 there (Hermite 27, Laguerre 12): those are held to RelG
RelU == FOfDec(IOEnv.VH_RELG)
RelB == FOfDec(IOEnv.VH_RELB)
RelOf(tb) == IF tb \in {"hermite", "laguerre"} THEN RelU ELSE RelB
RelDE == FOfDec(IOEnv.VH_RELDE)
Check(o) == IF o.table = "tanhsinh" THEN DEBad(o.row, o.pairs, RelDE) ELSE GaussBad(o.table, o.row, o.pairs, RelOf(o.table))
VARIABLE i
Init == i = 0
Next == /\ i < Len(Obs)
        /\ i' = i + 1
        /\ \E bad \in {Check(Obs[i + 1])} : bad # {} =>
              PrintT(<<"VIOL", i + 1, bad, IF Obs[i + 1].table = "tanhsinh" THEN -1
                                           ELSE FirstBadMoment(Obs[i + 1].table, Obs[i + 1].row, Obs[i + 1].pairs, RelOf(Obs[i + 1].table))>>)
        /\ (i' = Len(Obs)) => PrintT(<<"CHECKED", Len(Obs)>>)
=============================================================================
