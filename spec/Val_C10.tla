------------------------------ MODULE Val_C10 ------------------------------
(* C10: every row of every shipped table (dumped from the working tree's tables.rs) is judged by TLC. *)
EXTENDS Integers, Sequences, FiniteSets, TLC, Json, IOUtils, F64, QuadTables
Obs == ndJsonDeserialize(IOEnv.VH_OBS)
RelG == FOfDec(IOEnv.VH_RELG)
RelDE == FOfDec(IOEnv.VH_RELDE)
Check(o) == IF o.table = "tanhsinh" THEN DEBad(o.row, o.pairs, RelDE) ELSE GaussBad(o.table, o.row, o.pairs, RelG)
VARIABLE i
Init == i = 0
Next == /\ i < Len(Obs)
        /\ i' = i + 1
        /\ \E bad \in {Check(Obs[i + 1])} : bad # {} =>
              PrintT(<<"VIOL", i + 1, bad, IF Obs[i + 1].table = "tanhsinh" THEN -1
                                           ELSE FirstBadMoment(Obs[i + 1].table, Obs[i + 1].row, Obs[i + 1].pairs, RelG)>>)
        /\ (i' = Len(Obs)) => PrintT(<<"CHECKED", Len(Obs)>>)
=============================================================================
