------------------------------ MODULE Val_C11 ------------------------------
(***************************************************************************)
(* C11: results of every operator form (owned/borrowed/assigning, scalar,  *)
(* linear-factor and FFT paths) are compared by TLC with the coefficient   *)
(* algebra of module Poly.                                                 *)
(*  - non-FFT operations: |res - exact| <= 16 eps * scale                  *)
(*  - products: |res - exact| <= KM * eps * |a|_1 |b|_1 + zero tolerance   *)
(*  - degree of a product = deg a + deg b whenever the zero tolerance lies *)
(*    between that rounding bound and the leading coefficient of the       *)
(*    product, and both operands have non-zero leading coefficients        *)
(*  - values: (a*b)(x) = a(x) b(x) up to the corresponding bound           *)
(***************************************************************************)
EXTENDS Integers, Sequences, FiniteSets, TLC, Json, IOUtils, F64, Poly

Obs == ndJsonDeserialize(IOEnv.VH_OBS)
KM == FOfInt(64)
Eps16 == FMul(FOfInt(16), FEps)

Expected(o, op) ==
  CASE op \in {"add"} -> PAdd(o.a, o.b)
    [] op = "sub" -> PSub(o.a, o.b)
    [] op \in {"mul", "mulrev"} -> Conv(o.a, o.b)
    [] op = "neg" -> PNeg(o.a)
    [] op = "adds" -> PAddS(o.a, o.s)
    [] op = "subs" -> PAddS(o.a, CNeg(o.s))
    [] op = "muls" -> PScale(o.s, o.a)
    [] op = "divs" -> PDivS(o.a, o.s)

\* sum_k |p_k| |x|^k
RECURSIVE AbsHorner(_, _, _)
AbsHorner(p, ax, k) == IF k = Len(p) THEN CAbs(p[k]) ELSE FAdd(CAbs(p[k]), FMul(ax, AbsHorner(p, ax, k + 1)))

ResultBad(o, r, na, nb) ==
  Bind(Expected(o, r.op), LAMBDA ex :
    LET mulb == FAdd(FMul(FMul(KM, FEps), FMul(na, nb)), o.ta)
        bound == IF r.op \in {"mul", "mulrev"} THEN mulb ELSE FMul(Eps16, FAdd(F1, FAdd(na, IF r.op \in {"add", "sub"} THEN nb ELSE CAbs(o.s))))
        lead == CAbs(CMul(o.a[Len(o.a)], o.b[Len(o.b)]))
        degClause == r.op \in {"mul", "mulrev"} /\ ~CIsZero(o.a[Len(o.a)]) /\ ~CIsZero(o.b[Len(o.b)])
                     /\ FLt(o.ta, lead) /\ FLe(FMul(FMul(KM, FEps), FMul(na, nb)), o.ta)
    IN (IF ~FLe(PDist(r.res, ex), bound) THEN {"coefficients_match_exact_algebra"} ELSE {})
       \cup (IF degClause /\ r.order # Len(o.a) + Len(o.b) - 2 THEN {"product_degree_is_sum_of_degrees"} ELSE {})
       \cup (IF r.order # Len(r.res) - 1 THEN {"order_consistent_with_coefficients"} ELSE {}))

EvalBad(o, e, na, nb) ==
  LET ax == CAbs(e.x)
      sa == AbsHorner(o.a, ax, 1) sb == AbsHorner(o.b, ax, 1)
      n == FOfInt(Len(o.a) + Len(o.b))
      \* rounding of the three Horner evaluations + coefficient error of the product
      bound == FAdd(FMul(FMul(FMul(KM, FEps), n), FMul(sa, sb)),
                    FMul(FAdd(FMul(FMul(KM, FEps), FMul(na, nb)), o.ta), AbsHorner([k \in 1..(Len(o.a) + Len(o.b)) |-> C1], ax, 1)))
  IN IF FLe(CAbs(CSub(e.ab, CMul(e.a, e.b))), bound) THEN {} ELSE {"product_agrees_with_pointwise_values"}

Check(o) ==
  IF o.st # "ok" THEN {<<"panic", "never_panics">>}
  ELSE Bind(Norm1(o.a), LAMBDA na : Bind(Norm1(o.b), LAMBDA nb :
         UNION { {<<r.op \o "_" \o r.form, c>> : c \in ResultBad(o, r, na, nb)} : r \in {o.results[j] : j \in 1..Len(o.results)} }
         \cup UNION { {<<"eval", c>> : c \in EvalBad(o, o.evals[j], na, nb)} : j \in 1..Len(o.evals) }))

VARIABLE i
Init == i = 0
Next == /\ i < Len(Obs)
        /\ i' = i + 1
        /\ \E bad \in {Check(Obs[i + 1])} : bad # {} => PrintT(<<"VIOL", i + 1, bad>>)
        /\ (i' = Len(Obs)) => PrintT(<<"CHECKED", Len(Obs)>>)
=============================================================================
