----------------------------- MODULE Val_C11Dft -----------------------------
(* C11 (transform part): dft(p, size) equals the values of p at the N-th roots of unity, N the
   smallest power of two >= size, and idft recovers p. *)
EXTENDS Integers, Sequences, FiniteSets, TLC, Json, IOUtils, F64, Poly

Obs == ndJsonDeserialize(IOEnv.VH_OBS)
K == FOfInt(64)
RECURSIVE Pow2Ge(_, _)
Pow2Ge(n, p) == IF p >= n THEN p ELSE Pow2Ge(n, 2 * p)
Root(N, k) == LET ang == FDiv(FMul(FMul(F2, FPi), FOfInt(k)), FOfInt(N)) IN <<FCos(ang), FSin(ang)>>

\* all indices for N <= 64, 48 spread indices beyond (each index costs a full Horner evaluation)
Ks(N) == IF N <= 64 THEN 0..(N - 1) ELSE {(j * (N \div 48) + j) % N : j \in 0..47}
Check(o) ==
  IF o.st # "ok" THEN {"never_panics"}
  ELSE LET N == Pow2Ge(o.size, 1)
           na == Norm1(o.a)
           bound == FMul(FMul(FMul(K, FEps), FOfInt(Len(o.a) + 8)), na)
       IN (IF Len(o.pts) # N THEN {"transform_length_is_power_of_two_ge_size"} ELSE {})
          \cup (IF Len(o.pts) = N /\ \E k \in Ks(N) : ~FLe(CAbs(CSub(o.pts[k + 1], PEval(o.a, Root(N, k)))), bound)
                  THEN {"dft_equals_values_at_roots_of_unity"} ELSE {})
          \cup (IF ~FLe(PDist(o.back, o.a), FAdd(bound, o.ta)) THEN {"inverse_transform_recovers_polynomial"} ELSE {})

VARIABLE i
Init == i = 0
Next == /\ i < Len(Obs)
        /\ i' = i + 1
        /\ \E bad \in {Check(Obs[i + 1])} : bad # {} => PrintT(<<"VIOL", i + 1, bad>>)
        /\ (i' = Len(Obs)) => PrintT(<<"CHECKED", Len(Obs)>>)
=============================================================================
