------------------------------ MODULE Val_C12 ------------------------------
(***************************************************************************)
(* C12: Polynomial::divide returns quotient and remainder of a valid       *)
(* Euclidean step.                                                         *)
(*  - division by the zero polynomial is Err; every other division is Ok   *)
(*    (and comes back: a run that does not is recorded as "hang") - for     *)
(*    every tolerance set_tolerance accepts, zero included                  *)
(*  - dividend = q*d + r up to  KD*eps*(|q|_1 |d|_1 + |a|_1) + zero tol   *)
(*  - deg r < deg d (r = 0 for a constant divisor)                         *)
(*  - on exactly constructed cases (exact = TRUE) q and r equal the        *)
(*    generating pair up to that bound (so exact multiples leave r = 0)    *)
(***************************************************************************)
EXTENDS Integers, Sequences, FiniteSets, TLC, Json, IOUtils, F64, Poly

Obs == ndJsonDeserialize(IOEnv.VH_OBS)
KD == FOfInt(64)

Check(o) ==
  IF o.st = "panic" THEN {"never_panics"}
  ELSE IF o.st = "hang" THEN {"division_terminates"}        \* no answer within the harness's deadline
  ELSE IF o.st = "skipped" THEN {}                           \* not run: three earlier cases of the same process hung
  ELSE IF IsZeroPoly(o.d) THEN (IF o.st = "err" THEN {} ELSE {"division_by_zero_polynomial_is_err"})
  ELSE IF o.st # "ok" THEN {"division_by_nonzero_polynomial_is_ok"}
  ELSE
    LET bound == FAdd(FMul(FMul(KD, FEps), FAdd(FMul(Norm1(o.q), Norm1(o.d)), Norm1(o.a))),
                      FMul(o.ta, FOfInt(Len(o.a) + 1)))
        dd == Deg(o.d)
        rzero == FLe(MaxCoef(o.r), bound)
    IN (IF ~FLe(PDist(PAdd(Conv(o.q, o.d), o.r), o.a), bound) THEN {"dividend_is_quotient_times_divisor_plus_remainder"} ELSE {})
       \cup (IF ~(Len(o.r) - 1 < dd \/ (Len(o.r) = 1 /\ rzero)) THEN {"remainder_degree_below_divisor_degree"} ELSE {})
       \cup (IF dd = 0 /\ ~rzero THEN {"constant_divisor_leaves_no_remainder"} ELSE {})
       \cup (IF o.exact /\ ~(FLe(PDist(o.q, o.q0), bound) /\ FLe(PDist(o.r, o.r0), bound))
               THEN {"quotient_and_remainder_match_construction"} ELSE {})

VARIABLE i
Init == i = 0
Next == /\ i < Len(Obs)
        /\ i' = i + 1
        /\ \E bad \in {Check(Obs[i + 1])} : bad # {} => PrintT(<<"VIOL", i + 1, bad>>)
        /\ (i' = Len(Obs)) => PrintT(<<"CHECKED", Len(Obs)>>)
=============================================================================
