----------------------------- MODULE Val_C13Fn -----------------------------
(***************************************************************************)
(* C13 (functions): evaluation, derivative, antiderivative and definite    *)
(* integral are mutually consistent and agree with term-wise calculus on   *)
(* the coefficients (module Poly).                                         *)
(***************************************************************************)
EXTENDS Integers, Sequences, FiniteSets, TLC, Json, IOUtils, F64, Poly

Obs == ndJsonDeserialize(IOEnv.VH_OBS)
KH == FOfInt(8)
RECURSIVE AbsHorner(_, _, _)
AbsHorner(p, ax, k) == IF k = Len(p) THEN CAbs(p[k]) ELSE FAdd(CAbs(p[k]), FMul(ax, AbsHorner(p, ax, k + 1)))
\* Horner rounding bound: KH * n * eps * sum |a_k| |x|^k  (+ a tiny absolute floor)
HB(p, x) == FAdd(FMul(FMul(FMul(KH, FOfInt(Len(p) + 1)), FEps), AbsHorner(p, CAbs(x), 1)), FScale(1, -1000))
CNear(u, v, b) == FLe(CAbs(CSub(u, v)), b)
CoefNear(p, q) == FLe(PDist(p, q), FMul(FMul(FOfInt(4), FEps), FAdd(MaxCoef(q), FScale(1, -1000))))

PointBad(o, a, d, anti, pt) ==
  (IF ~CNear(pt.val, PEval(a, pt.x), HB(a, pt.x)) THEN {"evaluate_is_value_of_coefficient_expansion"} ELSE {})
  \cup (IF ~CNear(pt.val2, pt.val, HB(a, pt.x)) THEN {"evaluate_derivative_value_agrees_with_evaluate"} ELSE {})
  \cup (IF ~CNear(pt.der, PEval(d, pt.x), HB(d, pt.x)) THEN {"evaluate_derivative_is_termwise_derivative"} ELSE {})
  \cup (IF ~CNear(pt.der2, pt.der, HB(d, pt.x)) THEN {"derivative_polynomial_agrees_with_evaluate_derivative"} ELSE {})
  \cup (IF ~CNear(pt.anti, PEval(anti, pt.x), HB(anti, pt.x)) THEN {"antiderivative_is_termwise_antiderivative"} ELSE {})

(***************************************************************************)
(* API surface beyond the listed properties (the specification keeps       *)
(* growing): conversions keep the coefficients, zero tests, constructors   *)
(* of the zero polynomial, tolerance validation.                           *)
(***************************************************************************)
MiscBad(o, m) ==
  (IF m.make_complex # o.a THEN {"make_complex_keeps_every_coefficient"} ELSE {})
  \cup (IF m.mc_tol # o.ta \/ m.get_tol # o.ta THEN {"tolerance_is_kept"} ELSE {})
  \cup (IF m.is_zero # (\A k \in 1..Len(o.a) : CIsZero(o.a[k])) THEN {"is_zero_iff_all_coefficients_vanish"} ELSE {})
  \cup (IF m.from_scalar # <<o.a[Len(o.a)]>> THEN {"from_scalar_is_the_constant_polynomial"} ELSE {})
  \cup (IF ~(m.new_is_zero /\ m.cap_is_zero /\ m.default_is_zero) THEN {"constructors_give_the_zero_polynomial"} ELSE {})
  \cup (IF ~(m.with_tol_neg_err /\ m.set_tol_neg_err) THEN {"negative_zero_tolerance_is_rejected"} ELSE {})
  \cup (IF ~(m.with_tol_pos_ok /\ m.set_tol_pos_ok) THEN {"positive_zero_tolerance_is_stored"} ELSE {})
  \cup (IF ~m.macro_same THEN {"polynomial_macro_equals_from_slice"} ELSE {})

Check(o) ==
  IF o.st # "ok" THEN {"never_panics"}
  ELSE Bind(PDeriv(o.a), LAMBDA d : Bind(PAnti(o.a, o.cst), LAMBDA anti : Bind(PAnti(o.a, C0), LAMBDA anti0 :
    LET ob == o.obs
        ib == FAdd(HB(anti0, o.lo), FAdd(HB(anti0, o.hi), HB(anti0, o.mid)))
    IN UNION { PointBad(o, o.a, d, anti, ob.pts[j]) : j \in 1..Len(ob.pts) }
       \cup (IF ~CoefNear(ob.deriv, d) THEN {"derivative_coefficients_termwise"} ELSE {})
       \cup (IF ~CoefNear(ob.anti, anti) THEN {"antiderivative_coefficients_termwise"} ELSE {})
       \cup (IF ~CoefNear(ob.antideriv, o.a) THEN {"derivative_of_antiderivative_is_the_polynomial"} ELSE {})
       \cup (IF ~CNear(ob.int_lo_hi, CSub(ob.anti_hi, ob.anti_lo), ib) THEN {"integral_is_difference_of_antiderivative_values"} ELSE {})
       \cup (IF ~CNear(ob.int_lo_hi, CSub(PEval(anti0, o.hi), PEval(anti0, o.lo)), ib) THEN {"integral_matches_termwise_calculus"} ELSE {})
       \cup (IF ~CNear(CAdd(ob.int_lo_mid, ob.int_mid_hi), ob.int_lo_hi, FMul(F2, ib)) THEN {"integral_additive_over_adjacent_intervals"} ELSE {})
       \cup (IF ob.roundtrip # o.a THEN {"from_slice_round_trips"} ELSE {})
       \cup (IF ob.order # Len(o.a) - 1 THEN {"order_consistent_with_coefficients"} ELSE {})
       \cup MiscBad(o, ob.misc))))

VARIABLE i
Init == i = 0
Next == /\ i < Len(Obs)
        /\ i' = i + 1
        /\ \E bad \in {Check(Obs[i + 1])} : bad # {} => PrintT(<<"VIOL", i + 1, bad>>)
        /\ (i' = Len(Obs)) => PrintT(<<"CHECKED", Len(Obs)>>)
=============================================================================
