---------------------------- MODULE Val_C13Hist ----------------------------
(***************************************************************************)
(* C13 (histories): every editing history replayed on the real Polynomial  *)
(* is compared, after every operation, with the coefficient map of the     *)
(* reference state machine of module Poly.                                 *)
(***************************************************************************)
EXTENDS Integers, Sequences, FiniteSets, TLC, Json, IOUtils, F64, Poly

Obs == ndJsonDeserialize(IOEnv.VH_OBS)

ApplyOp(p, op, tol) ==
  CASE op.op = "set" -> SetCoef(p, op.k, op.c)
    [] op.op = "purge" -> PurgeCoef(p, op.k)
    [] op.op = "purge_leading" -> PurgeLeadingT(p, tol)
    [] op.op = "add" -> PAdd(p, op.p)
    [] op.op = "muls" -> PScale(op.c, p)

StepBad(st, model, probe) ==
  IF st.st = "panic" THEN {"never_panics"}
  ELSE (IF Len(st.coefs) = 0 THEN {"coefficient_vector_never_empty"} ELSE {})
       \cup (IF ~SameMap(st.coefs, model) THEN {"edit_changes_exactly_the_addressed_power"} ELSE {})
       \cup (IF st.order # Len(st.coefs) - 1 THEN {"order_consistent_with_coefficients"} ELSE {})
       \cup (IF \E j \in 1..Len(st.probes) : st.probes[j] # At(st.coefs, j) THEN {"get_coefficient_reads_the_coefficient_map"} ELSE {})

\* fold over the history; returns the set of <<step index, conjunct>>
RECURSIVE Walk(_, _, _, _)
Walk(o, model, j, acc) ==
  IF j > Len(o.ops) \/ j + 1 > Len(o.steps) THEN acc
  ELSE Bind(ApplyOp(model, o.ops[j], o.ta), LAMBDA m2 :
         LET prev == o.steps[j]
             now == o.steps[j + 1]
             \* "purging a power the polynomial does not have changes nothing": not the map only, the stored
             \* coefficient list and the order as well
             absent == o.ops[j].op = "purge" /\ o.ops[j].k >= Len(prev.coefs) /\ now.st # "panic"
                       /\ (now.coefs # prev.coefs \/ now.order # prev.order)
             bad == StepBad(now, m2, o.probe) \cup (IF absent THEN {"purging_an_absent_power_changes_nothing"} ELSE {})
         IN \* stop at the first diverging step: later steps would only repeat the same defect
            IF bad # {} THEN acc \cup {<<j, c>> : c \in bad}
            ELSE Walk(o, m2, j + 1, acc))

Check(o) ==
  LET first == IF SameMap(o.steps[1].coefs, o.init) THEN {} ELSE {<<0, "from_slice_round_trips">>}
  IN Walk(o, o.init, 1, first)
     \cup (IF Len(o.steps) # Len(o.ops) + 1 /\ o.steps[Len(o.steps)].st # "panic" THEN {<<0, "history_replayed_completely">>} ELSE {})

VARIABLE i
Init == i = 0
Next == /\ i < Len(Obs)
        /\ i' = i + 1
        /\ \E bad \in {Check(Obs[i + 1])} : bad # {} => PrintT(<<"VIOL", i + 1, bad>>)
        /\ (i' = Len(Obs)) => PrintT(<<"CHECKED", Len(Obs)>>)
=============================================================================
