------------------------------ MODULE Val_C14 ------------------------------
(* C14: every recorded call of Polynomial::roots / *_zeros is judged by TLC against the contract PolyRoots. *)
EXTENDS Integers, Sequences, FiniteSets, TLC, Json, IOUtils, F64, PolyRoots
Obs == ndJsonDeserialize(IOEnv.VH_OBS)
VARIABLE i
Init == i = 0
Next == /\ i < Len(Obs)
        /\ i' = i + 1
        /\ \E bad \in {Bad(Obs[i + 1])} : bad # {} => PrintT(<<"VIOL", i + 1, bad>>)
        /\ (i' = Len(Obs)) => PrintT(<<"CHECKED", Len(Obs)>>)
=============================================================================
