------------------------------ MODULE Val_C15 ------------------------------
(***************************************************************************)
(* C15: Lagrange and Hermite interpolants reproduce their data, respect    *)
(* the degree bound and are unique: data sampled from a polynomial within  *)
(* the degree bound give back that polynomial, in any node order, up to    *)
(* the conditioning of the nodes.  The conditioning is computed by TLC for *)
(* each case from the nodes:                                               *)
(*   c_i = prod_{j # i} (1 + |x_j|) / |x_i - x_j|     (1-norm of the       *)
(*   coefficients of the i-th Lagrange basis polynomial, an upper bound)   *)
(* Lagrange: KI * n * eps * sum_i |y_i| c_i + tol                          *)
(* Hermite:  KI * n * eps * sum_i (|y_i| + |d_i|) c_i^2 (1 + |x_i|) (1 + s_i) + tol,  s_i = sum_j 2/|x_i - x_j| *)
(***************************************************************************)
EXTENDS Integers, Sequences, FiniteSets, TLC, Json, IOUtils, F64, Poly

Obs == ndJsonDeserialize(IOEnv.VH_OBS)
KI == FOfInt(64)
RECURSIVE ProdF(_, _, _), AbsHorner(_, _, _)
AbsHorner(p, ax, k) == IF k = Len(p) THEN CAbs(p[k]) ELSE FAdd(CAbs(p[k]), FMul(ax, AbsHorner(p, ax, k + 1)))
\* prod over j # i of (1+|x_j|)/|x_i-x_j|
ProdF(xs, i, j) == IF j > Len(xs) THEN F1
                   ELSE IF j = i THEN ProdF(xs, i, j + 1)
                   ELSE FMul(FDiv(FAdd(F1, CAbs(xs[j])), CAbs(CSub(xs[i], xs[j]))), ProdF(xs, i, j + 1))
Cnd(xs, i) == ProdF(xs, i, 1)
SumInv(xs, i) == FSum([j \in 1..Len(xs) |-> IF j = i THEN F0 ELSE FDiv(F2, CAbs(CSub(xs[i], xs[j])))])

CoefBound(o) ==
  LET n == Len(o.xs) IN
  IF o.kind = "lagrange"
    THEN FAdd(FMul(FMul(FMul(KI, FOfInt(n)), FEps), FSum([i \in 1..n |-> FMul(CAbs(o.ys[i]), Cnd(o.xs, i))])), o.tol)
    ELSE FAdd(FMul(FMul(FMul(KI, FOfInt(2 * n)), FEps),
                   FSum([i \in 1..n |-> FMul(FMul(FAdd(CAbs(o.ys[i]), CAbs(o.ds[i])), FMul(Cnd(o.xs, i), Cnd(o.xs, i))),
                                            FMul(FAdd(F1, CAbs(o.xs[i])), FAdd(F1, SumInv(o.xs, i))))])), o.tol)

Check(o) ==
  LET r == o.obs
      n == Len(o.xs)
      maxdeg == IF o.kind = "lagrange" THEN n - 1 ELSE 2 * n - 1
  IN IF r.st = "panic" THEN {"never_panics"}
     ELSE IF o.mismatch THEN (IF r.st = "err" THEN {} ELSE {"mismatched_slice_lengths_give_err"})
     ELSE IF r.st # "ok" THEN {"valid_data_interpolated"}
     ELSE Bind(CoefBound(o), LAMBDA cb :
       LET ones == [k \in 1..(maxdeg + 1) |-> C1]
           vb(i) == FMul(cb, AbsHorner(ones, CAbs(o.xs[i]), 1))
           db(i) == FMul(FMul(cb, FOfInt(maxdeg + 1)), AbsHorner(ones, CAbs(o.xs[i]), 1))
       IN (IF r.order > maxdeg THEN {"degree_bound"} ELSE {})
          \cup (IF \E i \in 1..n : ~FLe(CAbs(CSub(r.at[i].v, o.ys[i])), vb(i)) THEN {"takes_the_given_value_at_every_abscissa"} ELSE {})
          \cup (IF o.kind = "hermite" /\ \E i \in 1..n : ~FLe(CAbs(CSub(r.at[i].d, o.ds[i])), db(i))
                  THEN {"matches_the_given_derivatives"} ELSE {})
          \cup (IF o.has_src /\ ~FLe(PDist(r.coefs, o.src), cb) THEN {"sampled_polynomial_is_recovered_in_any_node_order"} ELSE {}))

VARIABLE i
Init == i = 0
Next == /\ i < Len(Obs)
        /\ i' = i + 1
        /\ \E bad \in {Check(Obs[i + 1])} : bad # {} => PrintT(<<"VIOL", i + 1, bad>>)
        /\ (i' = Len(Obs)) => PrintT(<<"CHECKED", Len(Obs)>>)
=============================================================================
