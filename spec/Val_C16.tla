------------------------------ MODULE Val_C16 ------------------------------
(***************************************************************************)
(* C16: every recorded spline is judged against the characterisation of    *)
(* module Spline.  Probe layout per case (n knots, n-1 pieces):            *)
(*   pts[1..n]                 the knots                                   *)
(*   pts[n + 5(i-1) + 1..5]    piece i at  L+e, L+h/4, L+h/2, L+3h/4, R-e  *)
(*   pts[n + 5(n-1) + 1..2]    one point below and one above the range     *)
(* Tolerances are relative to  scale = (1 + max|y| + max|f0|,|fn| * hmax)  *)
(* times a conditioning factor (hmax/hmin)^2 * (1 + xmax)^3 (the cubics    *)
(* are stored expanded in powers of x, so evaluation cancels).             *)
(***************************************************************************)
EXTENDS Integers, Sequences, FiniteSets, TLC, Json, IOUtils, F64, Spline

Obs == ndJsonDeserialize(IOEnv.VH_OBS)
KS == FOfDec(IOEnv.VH_KS)

N(o) == Len(o.xs)
H(o, i) == FSub(o.xs[i + 1], o.xs[i])
HMax(o) == FMaxAbs([i \in 1..(N(o) - 1) |-> H(o, i)])
RECURSIVE MinH(_, _)
MinH(o, i) == IF i = N(o) - 1 THEN H(o, i) ELSE FMin(H(o, i), MinH(o, i + 1))
XMax(o) == FMaxAbs(o.xs)
YMax(o) == FMaxAbs([i \in 1..N(o) |-> CAbs(o.ys[i])])
Scale(o) == FAdd(F1, FAdd(YMax(o), FMul(FMax(CAbs(o.f0), CAbs(o.fn)), HMax(o))))
Cond(o) == LET r == FDiv(HMax(o), MinH(o, 1)) x == FAdd(F1, XMax(o)) IN FMul(FMul(r, r), FMul(x, FMul(x, x)))
\* the pieces are stored expanded in powers of x: the cubic coefficient of a piece is of size dy / h^3 and is
\* multiplied by x^3, so rounding is amplified by (|x| / h_min)^3 whatever the ratio of the spacings
\* (thorough tier: six knots 0.03-0.07 apart near x = -7.9 interpolate to 1e-7 only); worst observed ratio over
\* 12,000 seeded splines: 7.6 eps * Scale * CondX
CondX(o) == LET q == FAdd(F1, FDiv(XMax(o), MinH(o, 1))) IN FMul(q, FMul(q, q))
Tol0(o) == FMul(FEps, FMul(Scale(o), FMax(FMul(KS, Cond(o)), FMul(FOfInt(64), CondX(o)))))         \* values
Tol1(o) == FDiv(Tol0(o), MinH(o, 1))                              \* first derivatives
Tol2(o) == FDiv(Tol1(o), MinH(o, 1))                              \* second derivatives
P(o, i, j) == o.obs.pts[N(o) + 5 * (i - 1) + j]                   \* j-th probe of piece i
\* second derivative bound, to absorb the e = h/2^20 offset of the end samples
Off(o, i) == FScale(1, -20)

PieceData(o, i) == [yL |-> P(o, i, 1).v, mL |-> P(o, i, 1).d, yR |-> P(o, i, 5).v, mR |-> P(o, i, 5).d,
                    h |-> FMul(H(o, i), FSub(F1, FScale(1, -19)))]       \* distance between the two end samples
SecL(o, i) == LET q == PieceData(o, i) IN Sec(q.yL, q.mL, q.yR, q.mR, q.h, TRUE)
SecR(o, i) == LET q == PieceData(o, i) IN Sec(q.yL, q.mL, q.yR, q.mR, q.h, FALSE)
SecMax(o) == FMaxAbs([i \in 1..(2 * (N(o) - 1)) |-> IF i % 2 = 1 THEN CAbs(SecL(o, (i + 1) \div 2)) ELSE CAbs(SecR(o, i \div 2))])
\* allowances including the effect of sampling e inside the piece instead of at the knot
A0(o) == FAdd(Tol0(o), FMul(FMul(FScale(1, -18), HMax(o)), FAdd(FDiv(Scale(o), MinH(o, 1)), FMul(SecMax(o), HMax(o)))))
A1(o) == FAdd(Tol1(o), FMul(FMul(FScale(1, -18), HMax(o)), SecMax(o)))
A2(o) == FAdd(Tol2(o), FMul(FScale(1, -16), FAdd(SecMax(o), FDiv(Scale(o), FMul(MinH(o, 1), MinH(o, 1))))))

AllOk(o) == \A k \in 1..(N(o) + 5 * (N(o) - 1)) : o.obs.pts[k].ok
CubicOk(o, i) ==
  LET q == PieceData(o, i)
  IN \A j \in {2, 3, 4} :
       LET s == FSub(FMul(H(o, i), FOfRat(j - 1, 4)), FMul(H(o, i), FScale(1, -19)))
       IN FLe(CAbs(CSub(P(o, i, j).v, HermiteCubic(q.yL, q.mL, q.yR, q.mR, q.h, s))), A0(o))

\* exact reproduction: the generator states the polynomial the data were sampled from (degree <= 3 clamped, <= 1 free)
RECURSIVE HornerC(_, _, _)
HornerC(p, x, k) == IF k = Len(p) THEN p[k] ELSE CAdd(p[k], CScale(x, HornerC(p, x, k + 1)))
Repro(o) == \A k \in 1..(N(o) + 5 * (N(o) - 1)) : FLe(CAbs(CSub(o.obs.pts[k].v, HornerC(o.src, o.obs.pts[k].x, 1))), A0(o))

Check(o) ==
  IF o.obs.st = "panic" THEN {"never_panics"}
  ELSE IF o.err_case # "none" THEN (IF o.obs.st = "err" THEN {} ELSE {"invalid_input_gives_err"})
  ELSE IF o.obs.st # "ok" THEN {"valid_data_builds_a_spline"}
  ELSE IF ~AllOk(o) THEN {"evaluation_inside_the_knot_range_succeeds"}
  ELSE
    LET n == N(o) IN
    (IF \E i \in 1..n : ~FLe(CAbs(CSub(o.obs.pts[i].v, o.ys[i])), Tol0(o)) THEN {"passes_through_every_data_point"} ELSE {})
    \cup (IF \E i \in 1..(n - 1) : ~CubicOk(o, i) THEN {"each_piece_is_a_cubic"} ELSE {})
    \cup (IF \E i \in 1..(n - 2) : ~FLe(CAbs(CSub(P(o, i, 5).v, P(o, i + 1, 1).v)), A0(o)) THEN {"value_continuous_across_interior_knots"} ELSE {})
    \cup (IF \E i \in 1..(n - 2) : ~FLe(CAbs(CSub(P(o, i, 5).d, P(o, i + 1, 1).d)), A1(o)) THEN {"first_derivative_continuous_across_interior_knots"} ELSE {})
    \cup (IF \E i \in 1..(n - 2) : ~FLe(CAbs(CSub(SecR(o, i), SecL(o, i + 1))), A2(o)) THEN {"second_derivative_continuous_across_interior_knots"} ELSE {})
    \cup (IF o.kind = "free" /\ ~(FLe(CAbs(SecL(o, 1)), A2(o)) /\ FLe(CAbs(SecR(o, n - 1)), A2(o))) THEN {"free_spline_has_zero_second_derivative_at_both_ends"} ELSE {})
    \cup (IF o.kind = "clamped" /\ ~(FLe(CAbs(CSub(P(o, 1, 1).d, o.f0)), A1(o)) /\ FLe(CAbs(CSub(P(o, n - 1, 5).d, o.fn)), A1(o)))
            THEN {"clamped_spline_has_the_prescribed_end_slopes"} ELSE {})
    \cup (IF o.has_src /\ ~Repro(o) THEN {"reproduces_cubics_clamped_and_lines_free"} ELSE {})
    \cup (IF \E k \in 1..2 : o.obs.pts[n + 5 * (n - 1) + k].okv \/ o.obs.pts[n + 5 * (n - 1) + k].okd THEN {"evaluation_outside_the_knot_range_gives_err"} ELSE {})

VARIABLE i
Init == i = 0
Next == /\ i < Len(Obs)
        /\ i' = i + 1
        /\ \E bad \in {Check(Obs[i + 1])} : bad # {} => PrintT(<<"VIOL", i + 1, bad>>)
        /\ (i' = Len(Obs)) => PrintT(<<"CHECKED", Len(Obs)>>)
=============================================================================
