------------------------------ MODULE Val_C17 ------------------------------
(* C17: every recorded call of linear_fit / curve_fit / curve_fit_jac is judged by TLC against module Fit. *)
EXTENDS Integers, Sequences, FiniteSets, TLC, Json, IOUtils, F64, Fit

Obs == ndJsonDeserialize(IOEnv.VH_OBS)
KF == FOfDec(IOEnv.VH_KF)
KS == FOfDec(IOEnv.VH_KS)

LinearBad(o) ==
  IF o.st = "panic" THEN {"never_panics"}
  ELSE IF o.mismatch THEN (IF o.st = "err" THEN {} ELSE {"mismatched_lengths_give_err"})
  ELSE IF o.st # "ok" THEN {"linear_fit_returns_ok"}
  ELSE
    LET m == Len(o.xs)
        a == o.lin[1] b == o.lin[2]
        nr == LinNormalResiduals(o.xs, o.ys, a, b)
        sx == FSum([i \in 1..m |-> CAbs(o.xs[i])]) sy == FSum([i \in 1..m |-> CAbs(o.ys[i])])
        sxx == FSum([i \in 1..m |-> FMul(CAbs(o.xs[i]), CAbs(o.xs[i]))])
        \* rounding allowance: the fitted values amplify by the conditioning of the design, computed here
        den == FAbs(FSub(FMul(FOfInt(m), sxx), FMul(sx, sx)))
        amp == FDiv(FMul(FOfInt(m), FAdd(sxx, F1)), FMax(den, FScale(1, -60)))
        allow == FMul(FMul(FMul(FOfInt(256), FEps), FAdd(F1, FAdd(sy, FMul(sx, sy)))), FAdd(F1, amp))
    IN (IF ~(CFinite(a) /\ CFinite(b)) THEN {"linear_fit_result_is_finite"} ELSE {})
       \cup (IF CFinite(a) /\ CFinite(b) /\ ~(FLe(nr[1], allow) /\ FLe(nr[2], FMul(allow, FAdd(F1, sx))))
               THEN {"residuals_orthogonal_to_1_and_x"} ELSE {})
       \cup (IF o.exact /\ ~(FLe(CAbs(CSub(a, o.ea)), allow) /\ FLe(CAbs(CSub(b, o.eb)), allow)) THEN {"exactly_linear_data_reproduced"} ELSE {})

Invalid(o) == FLt(o.tol, F0) \/ FLt(o.damping, F0) \/ (o.variant = "fd" /\ FLt(o.h, F0)) \/ Len(o.xs) # Len(o.ys)
LmBadOf(o, st, params) ==
  IF st = "panic" THEN {"never_panics"}
  ELSE IF Invalid(o) THEN (IF st = "err" THEN {} ELSE {"invalid_settings_give_err"})
  ELSE IF st = "budget" THEN {"levenberg_marquardt_terminates"}
  ELSE IF st # "ok" THEN (IF o.mustok THEN {"well_posed_fit_returns_ok"} ELSE {})
  ELSE
    LET p == params
        target == IF IsLinearModel(o.model) THEN LinearLsq(o.model, o.xs, o.ys, o.v) ELSE o.truth
        scale == FAdd(F1, FMaxAbs(target))
        judged == IsLinearModel(o.model) \/ o.recover
        \* "accuracy governed by the tolerance", in the quantity the stopping rule controls: the routine stops when the
        \* residual sum of squares S changes by less than tol, so S at the result may exceed its minimum (S at the
        \* least-squares / generating parameters) by a small multiple of tol.  In a narrow valley (lambda_min 1e-6) the
        \* damped steps crawl and the change per pass drops below tol while S is still 20 tol above its minimum (found by
        \* the thorough tier), so this conjunct, too, is for the property's well-conditioned designs only
        smin == SumSq(o.model, o.xs, o.ys, target)
        excess == FSub(SumSq(o.model, o.xs, o.ys, p), smin)
        sbound == FAdd(FMul(KS, o.tol), FMul(FMul(FOfInt(64), FEps), FAdd(F1, smin)))
        \* and in the parameters: S - S_min ~ d^T (J^T J) d for a parameter error d, so parameters are accurate to about
        \* sqrt(tol / lambda_min(J^T J)); lam is half the inverse-iteration estimate of lambda_min at the target (never
        \* below the proven AM-GM lower bound); designs with lam < 1e-3 are not "well-conditioned": only termination,
        \* finiteness and the error cases are judged on them
        \* ... and against any better point that can be exhibited: if one full Gauss-Newton step from the result lowers S
        \* by more than the same bound, the result is not within the tolerance of the minimum - whatever the minimum is.
        \* This needs no knowledge of the minimiser, so it also judges noisy data fitted by non-linear models
        gn == GaussNewtonStep(o.model, o.xs, o.ys, p)
        gain == FSub(SumSq(o.model, o.xs, o.ys, p), SumSq(o.model, o.xs, o.ys, gn))
        lamp == LambdaMinWorking(NormalMatrix(o.model, o.xs, p))
        wellp == FLe(FOfDec("1e-3"), lamp)
        lam == LambdaMinWorking(NormalMatrix(o.model, o.xs, target))
        wellc == FLe(FOfDec("1e-3"), lam)
        bound == FMul(FMul(KF, scale), FAdd(FSqrt(FDiv(o.tol, lam)), FOfDec("1e-7")))
    IN (IF ~VFinite(p) THEN {"fit_result_is_finite"} ELSE {})
       \cup (IF VFinite(p) /\ judged /\ wellc /\ ~FLe(excess, sbound) THEN {"sum_of_squares_within_tolerance_of_its_minimum"} ELSE {})
       \cup (IF VFinite(p) /\ wellp /\ VFinite(gn) /\ FIsFinite(gain) /\ ~FLe(gain, sbound)
               THEN {"no_gauss_newton_step_from_the_result_lowers_the_sum_of_squares_by_more_than_the_tolerance"} ELSE {})
       \cup (IF VFinite(p) /\ wellc /\ IsLinearModel(o.model) /\ ~FLe(VDistInf(p, target), bound) THEN {"linear_model_gets_the_least_squares_parameters"} ELSE {})
       \cup (IF VFinite(p) /\ wellc /\ ~IsLinearModel(o.model) /\ o.recover /\ ~FLe(VDistInf(p, target), bound)
               THEN {"model_generated_data_recover_the_true_parameters"} ELSE {})

(* Attribution to the recorded known finding (known-findings.txt, C17): the harness also ran every curve_fit
   case through the "twin" -- optimize/mod.rs as it stands in the tree under test with the one statement of
   jac_finite_differences corrected (above + below -> above - below).  A conjunct the real code breaks on a
   case where the twin satisfies the whole contract is attributed to that statement and reported under the
   qualified name  <conjunct>@jac_finite_differences_sign ; a conjunct broken although the twin is broken too
   (or by curve_fit_jac / linear_fit, which do not use that statement) keeps its plain name and is never
   covered by the known finding. *)
LmBad(o) ==
  Bind(LmBadOf(o, o.st, o.params), LAMBDA bad :
    IF bad = {} \/ o.variant # "fd" THEN bad
    ELSE IF LmBadOf(o, o.twin_st, o.twin_params) = {} THEN {c \o "@jac_finite_differences_sign" : c \in bad}
    ELSE bad)

Check(o) == IF o.variant = "linear" THEN LinearBad(o) ELSE LmBad(o)
\* coverage counters: LM observations that returned Ok, and those of them whose design was well-conditioned
\* enough for the accuracy conjuncts to be judged (vacuity guard, reported in the evidence)
WellCond(o) ==
  LET target == IF IsLinearModel(o.model) THEN LinearLsq(o.model, o.xs, o.ys, o.v) ELSE o.truth
  IN FLe(FOfDec("1e-3"), LambdaMinWorking(NormalMatrix(o.model, o.xs, target)))
VARIABLES i, nok, nwc
Init == i = 0 /\ nok = 0 /\ nwc = 0
Next == /\ i < Len(Obs)
        /\ i' = i + 1
        /\ \E bad \in {Check(Obs[i + 1])} : bad # {} => PrintT(<<"VIOL", i + 1, bad>>)
        /\ LET o == Obs[i + 1]
               lm == o.variant # "linear" /\ o.st = "ok" /\ ~Invalid(o)
           IN /\ nok' = nok + (IF lm THEN 1 ELSE 0)
              /\ nwc' = nwc + (IF lm /\ WellCond(o) THEN 1 ELSE 0)
        /\ (i' = Len(Obs)) => PrintT(<<"STAT", "lm_ok_runs", nok', "accuracy_judged_well_conditioned", nwc'>>)
        /\ (i' = Len(Obs)) => PrintT(<<"CHECKED", Len(Obs)>>)
=============================================================================
