------------------------------ MODULE Val_C17 ------------------------------
(* C17: every recorded call of linear_fit / curve_fit / curve_fit_jac is judged by TLC against module Fit. *)
EXTENDS Integers, Sequences, FiniteSets, TLC, Json, IOUtils, F64, Fit

Obs == ndJsonDeserialize(IOEnv.VH_OBS)
KF == FOfDec(IOEnv.VH_KF)

LinearBad(o) ==
  IF o.st = "panic" THEN {"never_panics"}
  ELSE IF o.mismatch THEN (IF o.st = "err" THEN {} ELSE {"mismatched_lengths_give_err"})
  ELSE IF o.st # "ok" THEN {"linear_fit_returns_ok"}
  ELSE
    LET m == Len(o.xs)
        a == o.lin[1] b == o.lin[2]
        nr == LinNormalResiduals(o.xs, o.ys, a, b)
        sx == FSum([i \in 1..m |-> CAbs(o.xs[i])]) sy == FSum([i \in 1..m |-> CAbs(o.ys[i])])
        sxx == FSum([i \in 1..m |-> FMul(CAbs(o.xs[i]), CAbs(o.xs[i]))])
        \* rounding allowance: the fitted values amplify by the conditioning of the design, computed here
        den == FAbs(FSub(FMul(FOfInt(m), sxx), FMul(sx, sx)))
        amp == FDiv(FMul(FOfInt(m), FAdd(sxx, F1)), FMax(den, FScale(1, -60)))
        allow == FMul(FMul(FMul(FOfInt(256), FEps), FAdd(F1, FAdd(sy, FMul(sx, sy)))), FAdd(F1, amp))
    IN (IF ~(CFinite(a) /\ CFinite(b)) THEN {"linear_fit_result_is_finite"} ELSE {})
       \cup (IF CFinite(a) /\ CFinite(b) /\ ~(FLe(nr[1], allow) /\ FLe(nr[2], FMul(allow, FAdd(F1, sx))))
               THEN {"residuals_orthogonal_to_1_and_x"} ELSE {})
       \cup (IF o.exact /\ ~(FLe(CAbs(CSub(a, o.ea)), allow) /\ FLe(CAbs(CSub(b, o.eb)), allow)) THEN {"exactly_linear_data_reproduced"} ELSE {})

Invalid(o) == FLt(o.tol, F0) \/ FLt(o.damping, F0) \/ (o.variant = "fd" /\ FLt(o.h, F0)) \/ Len(o.xs) # Len(o.ys)
LmBad(o) ==
  IF o.st = "panic" THEN {"never_panics"}
  ELSE IF Invalid(o) THEN (IF o.st = "err" THEN {} ELSE {"invalid_settings_give_err"})
  ELSE IF o.st = "budget" THEN {"levenberg_marquardt_terminates"}
  ELSE IF o.st # "ok" THEN (IF o.mustok THEN {"well_posed_fit_returns_ok"} ELSE {})
  ELSE
    LET p == o.params
        target == IF IsLinearModel(o.model) THEN LinearLsq(o.model, o.xs, o.ys, o.v) ELSE o.truth
        scale == FAdd(F1, FMaxAbs(target))
        \* accuracy governed by the tolerance: the stopping rule is on the change of the sum of squares, so
        \* parameters are accurate to about sqrt(tol)
        bound == FMul(FMul(KF, scale), FAdd(FSqrt(o.tol), FOfDec("1e-7")))
    IN (IF ~VFinite(p) THEN {"fit_result_is_finite"} ELSE {})
       \cup (IF VFinite(p) /\ IsLinearModel(o.model) /\ ~FLe(VDistInf(p, target), bound) THEN {"linear_model_gets_the_least_squares_parameters"} ELSE {})
       \cup (IF VFinite(p) /\ ~IsLinearModel(o.model) /\ o.recover /\ ~FLe(VDistInf(p, target), bound)
               THEN {"model_generated_data_recover_the_true_parameters"} ELSE {})

Check(o) == IF o.variant = "linear" THEN LinearBad(o) ELSE LmBad(o)
VARIABLE i
Init == i = 0
Next == /\ i < Len(Obs)
        /\ i' = i + 1
        /\ \E bad \in {Check(Obs[i + 1])} : bad # {} => PrintT(<<"VIOL", i + 1, bad>>)
        /\ (i' = Len(Obs)) => PrintT(<<"CHECKED", Len(Obs)>>)
=============================================================================
