------------------------------ MODULE Val_C18 ------------------------------
(***************************************************************************)
(* C18: every recorded constructor result (family, n, zero tolerance,      *)
(* real/complex) is compared by TLC with the closed form of OrthoPoly.     *)
(***************************************************************************)
EXTENDS Integers, Sequences, FiniteSets, TLC, Json, IOUtils, F64, OrthoPoly

Obs == ndJsonDeserialize(IOEnv.VH_OBS)
NMax == 20
ASSUME RefSelfCheck(NMax)

\* rounding allowance: K * eps * (n+1) * max|ref coefficient|
K == 256
Allow(fam, n) == FMul(FMul(FOfInt(K * (n + 1)), FEps), FMaxAbs(RefPoly(fam, n)))

Check(o) ==
  IF o.st # "ok" THEN {"returns_ok"}
  ELSE
    LET ref == RefPoly(o.fam, o.n)
        tolc == Allow(o.fam, o.n)
    IN (IF o.order # o.n THEN {"degree_exactly_n"} ELSE {})
       \cup (IF Len(o.coef) # o.order + 1 THEN {"coefficient_count"} ELSE {})
       \cup (IF \E j \in 1..Len(o.coef) :
                  LET r == IF j <= Len(ref) THEN ref[j] ELSE F0
                  IN ~(FNear(o.coef[j][1], r, tolc) /\ FNear(o.coef[j][2], F0, tolc))
             THEN {"coefficients_closed_form"} ELSE {})
       \cup (IF o.ptol # o.tol THEN {"keeps_zero_tolerance"} ELSE {})

VARIABLE i
Init == i = 0
Next == /\ i < Len(Obs)
        /\ i' = i + 1
        /\ LET bad == Check(Obs[i + 1]) IN bad # {} => PrintT(<<"VIOL", i + 1, bad>>)
        /\ (i' = Len(Obs)) => PrintT(<<"CHECKED", Len(Obs)>>)
=============================================================================
