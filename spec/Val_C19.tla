------------------------------ MODULE Val_C19 ------------------------------
(***************************************************************************)
(* C19: the five-point first-derivative and three-point second-derivative  *)
(* formulas.  For a polynomial f of degree <= 6 the truncation error is    *)
(* known in closed form:                                                   *)
(*   D1 f(x) = f'(x) - h^4 f^(5)(x) / 30                                   *)
(*   D2 f(x) = f''(x) + h^2 f^(4)(x) / 12 + h^4 f^(6)(x) / 360             *)
(* so the formulas are exact for degree <= 4 (resp. <= 3) and the leading  *)
(* error term just above is predicted; rounding allowance KR*eps*F/h       *)
(* (resp. /h^2), F = sum |a_k| (|x|+2h)^k.  For the transcendental         *)
(* catalogue the classical remainder bounds h^4 M5/30 and h^2 M4/12 are    *)
(* checked with M from the closed forms below.                             *)
(***************************************************************************)
EXTENDS Integers, Sequences, FiniteSets, TLC, Json, IOUtils, F64, Poly

Obs == ndJsonDeserialize(IOEnv.VH_OBS)
KR == FOfInt(16)
RECURSIVE AbsHorner(_, _, _), DerivN(_, _)
AbsHorner(p, ax, k) == IF k = Len(p) THEN CAbs(p[k]) ELSE FAdd(CAbs(p[k]), FMul(ax, AbsHorner(p, ax, k + 1)))
DerivN(p, n) == IF n = 0 THEN p ELSE DerivN(PDeriv(p), n - 1)
X(o) == <<o.x, F0>>
H2(o) == FMul(o.h, o.h)
H4(o) == FMul(H2(o), H2(o))

PolyBad(o) ==
  LET p == o.f.c
      F == AbsHorner(p, FAdd(FAbs(o.x), FMul(F2, o.h)), 1)
      r1 == FAdd(FDiv(FMul(FMul(KR, FEps), F), o.h), FScale(1, -1000))
      r2 == FAdd(FDiv(FMul(FMul(KR, FEps), F), H2(o)), FScale(1, -1000))
      e1 == CSub(PEval(DerivN(p, 1), X(o)), CScale(FDiv(H4(o), FOfInt(30)), PEval(DerivN(p, 5), X(o))))
      e2 == CAdd(PEval(DerivN(p, 2), X(o)),
                 CAdd(CScale(FDiv(H2(o), FOfInt(12)), PEval(DerivN(p, 4), X(o))),
                      CScale(FDiv(H4(o), FOfInt(360)), PEval(DerivN(p, 6), X(o)))))
      lowdeg1 == Deg(p) <= 4
      lowdeg2 == Deg(p) <= 3
  IN (IF ~FLe(CAbs(CSub(o.d1, e1)), r1)
        THEN {IF lowdeg1 THEN "first_derivative_exact_up_to_degree_4" ELSE "first_derivative_leading_error_term"} ELSE {})
     \cup (IF ~FLe(CAbs(CSub(o.d2, e2)), r2)
        THEN {IF lowdeg2 THEN "second_derivative_exact_up_to_degree_3" ELSE "second_derivative_leading_error_term"} ELSE {})

\* transcendental catalogue: value of f', f'', and bounds M5, M4 over the stencil, F = max |f|
Smooth(o) ==
  LET p == o.f.p IN
  CASE o.f.k = "sin" -> [d1 |-> <<FMul(FMul(p[1], p[2]), FCos(FAdd(FMul(p[2], o.x), p[3]))), F0>>,
                         d2 |-> <<FNeg(FMul(FMul(p[1], FMul(p[2], p[2])), FSin(FAdd(FMul(p[2], o.x), p[3])))), F0>>,
                         m5 |-> FMul(FAbs(p[1]), FPowI(FAbs(p[2]), 5)), m4 |-> FMul(FAbs(p[1]), FPowI(FAbs(p[2]), 4)), F |-> FAbs(p[1])]
    [] o.f.k = "exp" -> LET top == FExp(FAdd(FMul(p[2], o.x), FMul(FMul(F2, FAbs(p[2])), o.h)))
                            v == FMul(p[1], FExp(FMul(p[2], o.x)))
                        IN [d1 |-> <<FMul(p[2], v), F0>>, d2 |-> <<FMul(FMul(p[2], p[2]), v), F0>>,
                            m5 |-> FMul(FMul(FAbs(p[1]), FPowI(FAbs(p[2]), 5)), top),
                            m4 |-> FMul(FMul(FAbs(p[1]), FPowI(FAbs(p[2]), 4)), top), F |-> FMul(FAbs(p[1]), top)]
    [] o.f.k = "cis" -> LET ang == FAdd(FMul(p[2], o.x), p[3])
                            v == <<FMul(p[1], FCos(ang)), FMul(p[1], FSin(ang))>>
                        IN [d1 |-> CMul(<<F0, p[2]>>, v), d2 |-> CScale(FNeg(FMul(p[2], p[2])), v),
                            m5 |-> FMul(FAbs(p[1]), FPowI(FAbs(p[2]), 5)), m4 |-> FMul(FAbs(p[1]), FPowI(FAbs(p[2]), 4)), F |-> FAbs(p[1])]
SmoothBad(o) ==
  LET s == Smooth(o)
      r1 == FAdd(FDiv(FMul(FMul(KR, FEps), s.F), o.h), FScale(1, -1000))
      r2 == FAdd(FDiv(FMul(FMul(KR, FEps), s.F), H2(o)), FScale(1, -1000))
  IN (IF ~FLe(CAbs(CSub(o.d1, s.d1)), FAdd(FDiv(FMul(H4(o), s.m5), FOfInt(30)), r1)) THEN {"first_derivative_remainder_bound"} ELSE {})
     \cup (IF ~FLe(CAbs(CSub(o.d2, s.d2)), FAdd(FDiv(FMul(H2(o), s.m4), FOfInt(12)), r2)) THEN {"second_derivative_remainder_bound"} ELSE {})

Check(o) == IF o.st # "ok" THEN {"never_panics"} ELSE IF o.f.k = "poly" THEN PolyBad(o) ELSE SmoothBad(o)

VARIABLE i
Init == i = 0
Next == /\ i < Len(Obs)
        /\ i' = i + 1
        /\ \E bad \in {Check(Obs[i + 1])} : bad # {} => PrintT(<<"VIOL", i + 1, bad>>)
        /\ (i' = Len(Obs)) => PrintT(<<"CHECKED", Len(Obs)>>)
=============================================================================
