------------------------------ MODULE Val_Ivp ------------------------------
(***************************************************************************)
(* E3 trace validation of IVP solution iterators against IvpContract over  *)
(* IEEE doubles.  The trace (VH_OBS) is the concatenation of many runs,    *)
(* each opened by a `reset` event carrying the run's configuration.  One   *)
(* TLC state per event; the contract state (stat, last, n) is carried in   *)
(* `s`; every violated conjunct is printed as <<"VIOL", line, {names}>>    *)
(* and validation continues, so that one defect does not hide the rest of  *)
(* the trace.                                                              *)
(*                                                                         *)
(* Conjuncts and the property sentence they encode:                        *)
(*   C01  times_strictly_increasing, inside_interval, gap_le_max_step,     *)
(*        ends_exactly_at_end_time, euler_* , state_has_problem_dimension, *)
(*        state_entries_finite, no_item_after_end_or_error                 *)
(*   C05  completes_without_error, terminates_within_budget,               *)
(*        work_within_order_bound                                          *)
(*   C06  at_most_one_error_then_nothing, err_item_carries_the_user_error, *)
(*        user_error_is_surfaced, valid_configuration_builds, no_panic     *)
(***************************************************************************)
EXTENDS Integers, Sequences, FiniteSets, TLC, Json, IOUtils, F64

Obs == ndJsonDeserialize(IOEnv.VH_OBS)

GapSlack(t) == FMul(FOfInt(4), FMul(FEps, FMax(F1, FAbs(t))))
C == INSTANCE IvpContract WITH
       Plus <- FAdd, Minus <- FSub, Lt <- FLt, Le <- FLe,
       GapOk <- LAMBDA t, last, dtmax : FLe(FSub(t, last), FAdd(dtmax, GapSlack(t)))

VARIABLES i, cc, s
vars == <<i, cc, s>>

NoCfg == [kind |-> "none"]
Init == i = 0 /\ cc = NoCfg /\ s = [stat |-> "idle", last |-> F0, n |-> 0, errs |-> 0]

CfgOf(e) == [kind |-> IF e.solver = "euler" THEN "euler" ELSE "adaptive",
             solver |-> e.solver, t0 |-> e.t0, t1 |-> e.t1, dtmax |-> e.dtmax, dt |-> e.dtmax,
             dim |-> e.dim, fail_at |-> e.fail_at, tol |-> e.tol, work |-> e.work]

\* order p of the error estimator, for the C05 work bound
EstOrder(solver) == CASE solver = "rk45" -> 4 [] solver = "rk23" -> 2 [] solver = "adams5" -> 4
                      [] solver = "adams3" -> 2 [] solver = "bdf6" -> 5 [] solver = "bdf2" -> 1 [] OTHER -> 1
\* evaluations allowed: KW * (L/dtmax + L * tol^(-1/p)) + 200     (KW is a wide constant: it has to
\* separate the 10^3-fold defects from honest variation, not resolve factors of two)
KW == 100
WorkBound(c) ==
  LET L == FSub(c.t1, c.t0)
      p == EstOrder(c.solver)
  IN FAdd(FMul(FOfInt(KW), FAdd(FDiv(L, c.dtmax), FMul(L, FPow(c.tol, FOfRat(-1, p))))), FOfInt(200))

ItemBad(e) ==
  C!YieldBad(cc, s, e.t)
  \cup (IF Len(e.y) # cc.dim THEN {"state_has_problem_dimension"} ELSE {})
  \cup (IF \E j \in 1..Len(e.y) : ~CFinite(e.y[j]) THEN {"state_entries_finite"} ELSE {})
  \cup (IF ~FIsFinite(e.t) THEN {"state_entries_finite"} ELSE {})

ErrBadAll(e) ==
  C!ErrBad(cc, s)
  \cup (IF e.kind = "Budget" THEN {"terminates_within_budget"}
        ELSE IF cc.fail_at > 0
          THEN (IF e.kind = "UserError" /\ e.inj = cc.fail_at THEN {} ELSE {"err_item_carries_the_user_error"})
          ELSE {"completes_without_error"})

EndBad(e) ==
  (IF cc.fail_at > 0 /\ e.calls >= cc.fail_at /\ s.errs = 0 /\ s.stat # "panic" THEN {"user_error_is_surfaced"} ELSE {})
  \cup (IF cc.work /\ s.stat = "done" /\ ~FLe(FOfInt(e.calls), WorkBound(cc)) THEN {"work_within_order_bound"} ELSE {})

Step(e) ==
  CASE e.ev = "reset" -> /\ cc' = CfgOf(e)
                         /\ s' = [C!CInit(CfgOf(e)) EXCEPT !.stat = "run"] @@ [errs |-> 0]
                         /\ TRUE
    [] e.ev = "item" -> /\ LET bad == ItemBad(e) IN bad # {} => PrintT(<<"VIOL", i + 1, bad>>)
                        /\ s' = C!YieldNext(s, e.t)
                        /\ UNCHANGED cc
    [] e.ev = "none" -> /\ LET bad == C!NoneBad(cc, s) IN bad # {} => PrintT(<<"VIOL", i + 1, bad>>)
                        /\ s' = C!NoneNext(s)
                        /\ UNCHANGED cc
    [] e.ev = "err" -> /\ LET bad == ErrBadAll(e) IN bad # {} => PrintT(<<"VIOL", i + 1, bad>>)
                       /\ s' = [C!ErrNext(s) EXCEPT !.errs = s.errs + 1]
                       /\ UNCHANGED cc
    [] e.ev = "builderr" -> /\ PrintT(<<"VIOL", i + 1, {"valid_configuration_builds"}>>)
                            /\ s' = [s EXCEPT !.stat = "nobuild"]
                            /\ UNCHANGED cc
    [] e.ev = "panic" -> /\ PrintT(<<"VIOL", i + 1, {"no_panic"}>>)
                         /\ s' = [s EXCEPT !.stat = "panic"]
                         /\ UNCHANGED cc
    [] e.ev = "trunc" -> s' = [s EXCEPT !.stat = "trunc"] /\ UNCHANGED cc
    [] e.ev = "end" -> /\ LET bad == EndBad(e) IN bad # {} => PrintT(<<"VIOL", i + 1, bad>>)
                       /\ UNCHANGED <<cc, s>>
    [] OTHER -> UNCHANGED <<cc, s>>

Next == /\ i < Len(Obs)
        /\ i' = i + 1
        /\ Step(Obs[i + 1])
        /\ (i' = Len(Obs)) => PrintT(<<"CHECKED", Len(Obs)>>)
=============================================================================
