--------------------------- MODULE Val_IvpAccuracy ---------------------------
(***************************************************************************)
(* C02 (local accuracy of every accepted step) and C04 (global error,      *)
(* complex problems, dynamic vs static dimension): TLC evaluates the       *)
(* closed-form flows of IvpMethods on every recorded item.                 *)
(*                                                                         *)
(*  local : |y_{n+1} - Flow(t_n, y_n, t_{n+1})| <= KL * tol * h   (RK, Adams) *)
(*                                              <= KLB * tol      (BDF)      *)
(*          plus a rounding floor 64 eps (1 + |y|): a final step may be one *)
(*          ulp long, where tol*h is far below the rounding of y itself     *)
(*  global: |y_n - Exact(t_n)| <= KG * tol * G,  G = max(L, (e^{lip L}-1)/lip) *)
(*          (times the number of steps so far for BDF)                     *)
(*  euler : |y_n - Exact(t_n)| <= KE * dt * (M/2) * G, M = max |d/dt f| along *)
(*          the exact solution, estimated by TLC on the step grid          *)
(*  pair  : run B (dynamic dimension) reproduces run A (static) item by    *)
(*          item up to rounding-level differences (1e-10 * max(1,G))       *)
(*  twin  : a complex run (CB) is as accurate as its real twin (RA)        *)
(* lip is a declared constant of the generated problem (part of the input).*)
(***************************************************************************)
EXTENDS Integers, Sequences, FiniteSets, TLC, Json, IOUtils, F64, IvpMethods

Obs == ndJsonDeserialize(IOEnv.VH_OBS)
KL == FOfInt(atoi(IOEnv.VH_KL))
KLB == FOfInt(atoi(IOEnv.VH_KLB))
KG == FOfInt(atoi(IOEnv.VH_KG))
KE == FOfInt(4)

VARIABLES i, cc, prev, n, ref, mx, ab
vars == <<i, cc, prev, n, ref, mx, ab>>
\* ab = <<largest absolute global error of the current run, that of the preceding real twin run (pair "RA")>>
Init == i = 0 /\ cc = [solver |-> "none"] /\ prev = <<>> /\ n = 0 /\ ref = <<>> /\ mx = <<F0, F0>> /\ ab = <<F0, F0, 0>>

IsBdf == cc.solver \in {"bdf6", "bdf2"}

\* complex linear blocks: y' = lam*y + c, state = sequence of complex pairs
CExp(z) == LET g == FExp(z[1]) IN <<FMul(g, FCos(z[2])), FMul(g, FSin(z[2]))>>
CBlockFlow(b, t0, y, t1) ==
  LET lam == <<b.p[1], b.p[2]>> c == <<b.p[3], b.p[4]>> q == CDiv(c, lam)
  IN CSub(CMul(CAdd(y, q), CExp(CScale(FSub(t1, t0), lam))), q)
CFlow(r, t0, y0, t1) == [j \in 1..Len(y0) |-> CBlockFlow(r.blocks[j], t0, y0[j], t1)]
CDistV(u, v) == FNorm2([j \in 1..(2 * Len(u)) |-> IF j % 2 = 1 THEN FSub(u[(j + 1) \div 2][1], v[(j + 1) \div 2][1])
                                                              ELSE FSub(u[j \div 2][2], v[j \div 2][2])])
\* unified: states kept as recorded (complex pairs); real problems use real parts
DistFlow(tA, yA, tB, yB) ==
  IF cc.cx THEN CDistV(yB, CFlow(cc.rhs, tA, yA, tB))
  ELSE VDist(Re(yB), Flow(cc.rhs, tA, Re(yA), tB))
MaxAbsY(y) == FMaxAbs([j \in 1..Len(y) |-> FMax(FAbs(y[j][1]), FAbs(y[j][2]))])

G == LET L == FSub(cc.t1, cc.t0)
     IN IF FLe(FMul(cc.lip, L), FOfDec("1e-6")) THEN L
        ELSE FMax(L, FDiv(FSub(FExp(FMul(cc.lip, L)), F1), cc.lip))

\* Euler: M ~ max |f(t+dt, Exact(t+dt)) - f(t, Exact(t))| / dt over the grid point just passed
EulerM(t) ==
  LET dt == cc.dtmax
      e0 == Flow(cc.rhs, cc.t0, Re(cc.y0), t)
      e1 == Flow(cc.rhs, cc.t0, Re(cc.y0), FAdd(t, dt))
  IN FDiv(VDist(Rhs(cc.rhs, FAdd(t, dt), e1), Rhs(cc.rhs, t, e0)), dt)

\* static / dynamic pairs: the adaptive paths may differ in the last bits (nalgebra sums a static and a dynamic
\* vector's norm in different orders, which moves the controller's next step by an ulp), so items are compared up
\* to rounding-level differences amplified over the interval, and only when both paths have the same length
PairTol(e) == FMul(FMul(FOfDec("1e-10"), FMax(F1, G)), FAdd(F1, MaxAbsY(e.y)))
PairMismatch(e) ==
  cc.pair = "B" /\ n + 1 <= Len(ref) /\
  ~(FLe(FAbs(FSub(ref[n + 1].t, e.t)), FMul(FOfDec("1e-10"), FAdd(F1, FAbs(e.t)))) /\ FLe(CDistV(e.y, ref[n + 1].y), PairTol(e)))
ItemStep(e) ==
  \E local \in {DistFlow(prev.t, prev.y, e.t, e.y)}, global \in {DistFlow(cc.t0, cc.y0, e.t, e.y)} :
  LET h == FSub(e.t, prev.t)
      floor == FMul(FMul(FOfInt(64), FEps), FAdd(F1, MaxAbsY(e.y)))      \* rounding level
      lbound == FAdd(IF IsBdf THEN FMul(KLB, cc.tol) ELSE FMul(KL, FMul(cc.tol, h)), floor)
      gbound == FMul(FMul(KG, cc.tol), FMul(G, IF IsBdf THEN FOfInt(n + 1) ELSE F1))
      lr == FDiv(local, lbound)
      gr == FDiv(global, gbound)
      bad == (IF cc.acc \in {"local", "both"} /\ ~FLe(local, lbound) THEN {"accepted_step_locally_accurate_to_tolerance"} ELSE {})
             \cup (IF cc.acc \in {"global", "both"} /\ ~FLe(global, gbound) THEN {"global_error_within_constant_times_tolerance"} ELSE {})
  IN /\ bad # {} => PrintT(<<"VIOL", i + 1, bad>>)
     /\ mx' = <<FMax(mx[1], IF FIsFinite(lr) THEN lr ELSE F0), FMax(mx[2], gr)>>
     /\ ab' = <<FMax(ab[1], global), ab[2], ab[3] + (IF PairMismatch(e) THEN 1 ELSE 0)>>

EulerItem(e) ==
  \* the first item is the initial state itself
  IF n = 0 THEN UNCHANGED <<mx, ab>>
  ELSE LET global == VDist(Re(e.y), Flow(cc.rhs, cc.t0, Re(cc.y0), e.t))
           m == FMax(mx[1], EulerM(prev.t))
           bound == FAdd(FMul(FMul(KE, cc.dtmax), FMul(FMul(m, FHalf), G)), FOfDec("1e-12"))
       IN /\ ~FLe(global, bound) => PrintT(<<"VIOL", i + 1, {"euler_error_within_first_order_bound"}>>)
          /\ mx' = <<m, FMax(mx[2], FDiv(global, bound))>>
          /\ ab' = <<ab[1], ab[2], ab[3] + (IF PairMismatch(e) THEN 1 ELSE 0)>>

Milli(x) == IF FLe(x, FOfInt(2000000)) THEN FToInt(FMul(x, FOfInt(1000))) ELSE 2000000000

Step(e) ==
  CASE e.ev = "reset" ->
         /\ cc' = e /\ prev' = [t |-> e.t0, y |-> e.y0] /\ n' = 0 /\ mx' = <<F0, F0>>
         /\ ref' = IF e.pair = "B" THEN ref ELSE <<>>
         /\ ab' = <<F0, IF e.pair = "CB" THEN ab[2] ELSE F0, 0>>
    [] e.ev = "item" ->
         /\ n' = n + 1 /\ prev' = [t |-> e.t, y |-> e.y] /\ UNCHANGED cc
         /\ ref' = IF cc.pair = "A" THEN Append(ref, [t |-> e.t, y |-> e.y]) ELSE ref
         /\ IF cc.solver = "euler" THEN EulerItem(e) ELSE ItemStep(e)
    [] e.ev = "end" ->
         /\ PrintT(<<"STAT", e.c, Milli(mx[1]), Milli(mx[2]), n>>)
         /\ (cc.pair = "B" /\ n = Len(ref) /\ ab[3] > 0) => PrintT(<<"VIOL", i + 1, {"dynamic_dimension_reproduces_static_solution"}>>)
         /\ (cc.pair = "B" /\ n # Len(ref)) => PrintT(<<"DRIFT", i + 1, "static and dynamic paths have different lengths">>)
         \* a complex problem is solved as accurately as its equivalent real system (same settings, run just before)
         /\ (cc.pair = "CB" /\ ~FLe(ab[1], FAdd(FMul(FOfInt(10), ab[2]), FMul(FOfInt(10), cc.tol))))
               => PrintT(<<"VIOL", i + 1, {"complex_solved_as_accurately_as_equivalent_real_system"}>>)
         /\ ab' = IF cc.pair = "RA" THEN <<ab[1], ab[1], 0>> ELSE ab
         /\ UNCHANGED <<cc, prev, n, ref, mx>>
    [] OTHER -> UNCHANGED <<cc, prev, n, ref, mx, ab>>

Next == /\ i < Len(Obs)
        /\ i' = i + 1
        /\ Step(Obs[i + 1])
        /\ (i' = Len(Obs)) => PrintT(<<"CHECKED", Len(Obs)>>)
=============================================================================
