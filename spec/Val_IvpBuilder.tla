---------------------------- MODULE Val_IvpBuilder ----------------------------
(***************************************************************************)
(* C06 (builder part): every recorded builder call of every replayed       *)
(* sequence is compared with the contract IvpBuilder.  The expected        *)
(* outcome list of a run is computed by TLC from the run's own call list.  *)
(***************************************************************************)
EXTENDS Integers, Sequences, FiniteSets, TLC, Json, IOUtils, F64, IvpBuilder

Obs == ndJsonDeserialize(IOEnv.VH_OBS)
VARIABLES i, cc, exp, k
Init == i = 0 /\ cc = [solver |-> "none"] /\ exp = <<>> /\ k = 0

IsEuler(e) == e.solver = "euler"
Expected(e) ==
  LET r0 == New(e.static, e.ctor)
  IN IF r0.ok THEN <<r0>> \o RunFrom(IsEuler(e), r0.b, e.calls, 1) ELSE <<r0>>

\* actual stored parameters: <<tol, min, max, t0, t1>> each [set, v]
ValEq(p, m) == (p.set = m.set) /\ (m.set => FEq(p.v, FOfInt(m.v)))
EulerEq(p, m) == (p.set = m.set) /\ (m.set => FEq(p.v, FOfRat(m.v.num, m.v.den)))
StoredMatches(e, m) ==
  IF cc.solver = "euler"
    THEN EulerEq(e.params[2], m.max) /\ ValEq(e.params[4], m.t0) /\ ValEq(e.params[5], m.t1)
    ELSE ValEq(e.params[1], m.tol) /\ ValEq(e.params[2], m.min) /\ ValEq(e.params[3], m.max)
         /\ ValEq(e.params[4], m.t0) /\ ValEq(e.params[5], m.t1)
ActualMinLeMax(e) == (e.params[2].set /\ e.params[3].set) => FLe(e.params[2].v, e.params[3].v)

CallBad(e) ==
  IF k > Len(exp) THEN {"more_calls_than_the_contract_allows"}
  ELSE LET x == exp[k] IN
    (IF x.ok /\ ~e.ok THEN (IF e.call = "solve" THEN {"complete_valid_configuration_builds"} ELSE {"valid_call_accepted"}) ELSE {})
    \cup (IF ~x.ok /\ e.ok THEN (IF e.call = "solve" THEN {"missing_parameter_rejected"} ELSE {"invalid_value_rejected"}) ELSE {})
    \cup (IF ~x.ok /\ ~e.ok /\ e.kind # x.err THEN {"rejected_with_its_dedicated_error"} ELSE {})
    \cup (IF e.ok /\ e.call # "solve" /\ ~ActualMinLeMax(e) THEN {"minimum_le_maximum_in_either_order"} ELSE {})

Step(e) ==
  CASE e.ev = "reset" -> cc' = e /\ exp' = Expected(e) /\ k' = 1
    [] e.ev = "bcall" ->
         /\ \E bad \in {CallBad(e)} : bad # {} => PrintT(<<"VIOL", i + 1, bad>>)
         /\ (k <= Len(exp) /\ e.ok /\ exp[k].ok /\ e.call # "solve" /\ ~StoredMatches(e, exp[k].b))
               => PrintT(<<"DRIFT", i + 1, "stored parameters differ from the model">>)
         /\ k' = k + 1 /\ UNCHANGED <<cc, exp>>
    [] e.ev = "panic" -> PrintT(<<"VIOL", i + 1, {"never_panics"}>>) /\ k' = Len(exp) + 1 /\ UNCHANGED <<cc, exp>>
    [] e.ev = "end" -> /\ (k # Len(exp) + 1) => PrintT(<<"VIOL", i + 1, {"call_sequence_runs_to_the_expected_end"}>>)
                       /\ UNCHANGED <<cc, exp, k>>
    [] OTHER -> UNCHANGED <<cc, exp, k>>

Next == /\ i < Len(Obs)
        /\ i' = i + 1
        /\ Step(Obs[i + 1])
        /\ (i' = Len(Obs)) => PrintT(<<"CHECKED", Len(Obs)>>)
=============================================================================
