--------------------------- MODULE Val_IvpMethods ---------------------------
(***************************************************************************)
(* C03: every yielded point of every recorded path must be explained by    *)
(* the advertised method (IvpMethods), taken from the previous yielded     *)
(* point with the observed step length.  The validator is a state machine: *)
(* it carries the window of previous points and, for the Adams solvers,    *)
(* the derivative history in PEC mode, and for each new point chooses the  *)
(* explaining action -- Rk4Start (a classical RK4 starting/closing step) or *)
(* the multistep step -- exactly as a trace specification with unlogged    *)
(* variables would; a point that no action explains is reported.           *)
(*                                                                         *)
(* "equals" is  max-norm distance <= 1e-10 * (1 + |y|): rounding only,     *)
(* independent of the step-size policy.                                    *)
(***************************************************************************)
EXTENDS Integers, Sequences, FiniteSets, TLC, Json, IOUtils, F64, IvpMethods

Obs == ndJsonDeserialize(IOEnv.VH_OBS)
ASSUME MethodsSelfCheck

RelEq == FOfDec("1e-10")
Approx(u, v) == FLe(VDistInf(u, v), FMul(RelEq, FAdd(F1, FMaxAbs(v))))
TolUp(tol) == FMul(tol, FOfDec("1.000001"))
TolDn(tol) == FMul(tol, FOfDec("0.999999"))
SameStep(h1, h2) == FLe(FAbs(FSub(h1, h2)), FMul(FOfDec("1e-9"), FAbs(h2)))
KBdf == FOfInt(20)

VARIABLES i, cc, win, cands, n
vars == <<i, cc, win, cands, n>>
(* win : previous points [t, y], oldest first (at most 8), starting with the initial condition
   cands : candidate Adams derivative histories [dh (PEC, oldest first), ch (spacing of the chain)]
   n   : number of items seen in this run *)

Init == i = 0 /\ cc = [solver |-> "none"] /\ win = <<>> /\ cands = {} /\ n = 0

Push(w, p) == IF Len(w) >= 8 THEN Tail(w) \o <<p>> ELSE Append(w, p)
Tab(solver) == IF solver = "rk45" THEN Fehlberg45 ELSE BogackiShampine32

\* ---- Runge-Kutta ------------------------------------------------------------------------------
Dt0(c) == LET d == FMul(FAdd(c.dtmax, c.dtmin), FHalf)
          IN IF FGe(FAdd(c.t0, d), c.t1) THEN FSub(c.t1, c.t0) ELSE d
RkFirst(e, prev) ==
  IF n # 0 THEN {}
  ELSE LET d0 == Dt0(cc) IN
       Bind(RkStep(Tab(cc.solver), cc.rhs, cc.t0, prev.y, d0), LAMBDA ref :
         (IF FLe(ref.est, TolDn(cc.tol)) /\ e.t # FAdd(cc.t0, d0)
            THEN {"first_trial_accepted_when_estimate_within_tolerance"} ELSE {})
         \cup (IF FGt(ref.est, TolUp(cc.tol)) /\ e.t = FAdd(cc.t0, d0)
            THEN {"first_trial_rejected_when_estimate_exceeds_tolerance"} ELSE {}))
RkBad(e, prev, y) ==
  Bind(RkStep(Tab(cc.solver), cc.rhs, prev.t, prev.y, FSub(e.t, prev.t)), LAMBDA st :
     (IF ~Approx(y, st.y) THEN {"point_is_a_step_of_the_advertised_method"} ELSE {})
     \cup (IF ~FLe(st.est, TolUp(cc.tol)) THEN {"accepted_step_estimate_within_tolerance"} ELSE {}))
  \cup RkFirst(e, prev)

\* ---- Adams ------------------------------------------------------------------------------------
\* The derivative history is not observable from the yielded points, and a point can be explained both
\* ways at once (an RK4 restarting step lands within rounding of the predictor-corrector value of a chain
\* that happens to continue with the same spacing).  The validator therefore carries the SET of
\* candidate histories  [dh, ch]  that explain the path so far; a point is reported only when no candidate
\* explains it, and the estimate conjunct only when every explanation is a predictor-corrector step whose
\* estimate exceeds the tolerance.
\* returns [bad, cands, act]
AdamsStep(e, prev, y) ==
  LET h == FSub(e.t, prev.t)
      m == AdamsSteps(cc.solver)
  IN Bind(Rhs(cc.rhs, e.t, y), LAMBDA f :
     Bind(Approx(y, Rk4(cc.rhs, prev.t, prev.y, h)), LAMBDA isRk :
       \* an RK4 step extends a start-up in progress (same spacing, history not yet full); otherwise it
       \* begins a new chain (the solvers clear their history whenever they restart)
       LET rkOf(c) == [dh |-> IF Len(c.dh) > 0 /\ Len(c.dh) < m /\ SameStep(h, c.ch) THEN Append(c.dh, f) ELSE <<f>>,
                       ch |-> h]
           rkC == IF isRk THEN {rkOf(c) : c \in cands} ELSE {}
           pcOf(c) == IF Len(c.dh) = m /\ SameStep(h, c.ch)
                        THEN Bind(AdamsPc(cc.solver, cc.rhs, prev.t, prev.y, h, c.dh), LAMBDA pc :
                               IF Approx(y, pc.corr)
                                 THEN {[dh |-> Tail(c.dh) \o <<pc.fpred>>, ch |-> c.ch, ok |-> FLe(pc.est, TolUp(cc.tol))]}
                                 ELSE {})
                        ELSE {}
       IN Bind(UNION {pcOf(c) : c \in cands}, LAMBDA pcAll :
            LET pcC == {[dh |-> x.dh, ch |-> x.ch] : x \in pcAll} IN
            IF rkC = {} /\ pcC = {}
              THEN [bad |-> {"point_is_rk4_start_or_adams_predictor_corrector_step"},
                    cands |-> {[dh |-> <<f>>, ch |-> h]}, act |-> "none"]
              ELSE [bad |-> IF rkC = {} /\ \A x \in pcAll : ~x.ok
                              THEN {"predictor_corrector_estimate_within_tolerance"} ELSE {},
                    cands |-> rkC \cup pcC,
                    act |-> IF pcC = {} THEN "Rk4Start" ELSE IF rkC = {} THEN "Pc" ELSE "Pc|Rk4Start"])))

\* ---- BDF --------------------------------------------------------------------------------------
EquallySpaced(w, m, tnew, h) ==
  /\ Len(w) >= m
  /\ \A j \in 0..(m - 2) : SameStep(FSub(w[Len(w) - j].t, w[Len(w) - j - 1].t), h)
BdfStep(e, prev, y) ==
  LET h == FSub(e.t, prev.t)
      f == BdfOf(cc.solver)
      m == Len(f.alpha)
      ys == [j \in 1..m |-> win[Len(win) + 1 - j].y]
      canBdf == EquallySpaced(win, m, e.t, h)
  IN IF canBdf /\ FLe(BdfResidual(f, cc.rhs, e.t, y, h, ys), FMul(KBdf, cc.tol))
       THEN [bad |-> {}, act |-> "Bdf"]
       ELSE IF Approx(y, Rk4(cc.rhs, prev.t, prev.y, h))
         THEN [bad |-> {}, act |-> "Rk4Start"]
         ELSE [bad |-> {"point_is_rk4_start_or_satisfies_bdf_formula_at_new_time"}, act |-> "none"]

\* ---- Euler ------------------------------------------------------------------------------------
EulerBad(e, prev, y) ==
  IF n = 0 THEN (IF y # prev.y THEN {"euler_first_point_is_initial_state"} ELSE {})
  ELSE IF Approx(y, EulerStep(cc.rhs, prev.t, prev.y, cc.dtmax)) THEN {} ELSE {"euler_y_next_is_y_plus_dt_f"}

Step(e) ==
  CASE e.ev = "reset" ->
         /\ cc' = e /\ win' = <<[t |-> e.t0, y |-> Re(e.y0)]>> /\ cands' = {[dh |-> <<>>, ch |-> F0]} /\ n' = 0
    [] e.ev = "item" ->
         LET prev == win[Len(win)]
             y == Re(e.y)
         IN /\ n' = n + 1
            /\ win' = IF cc.solver = "euler" /\ n = 0 THEN win ELSE Push(win, [t |-> e.t, y |-> y])
            /\ UNCHANGED cc
            /\ IF cc.solver \in {"rk45", "rk23"}
                 THEN /\ \E bad \in {RkBad(e, prev, y)} : bad # {} => PrintT(<<"VIOL", i + 1, bad>>)
                      /\ UNCHANGED cands
               ELSE IF cc.solver \in {"adams5", "adams3"}
                 THEN \E r \in {AdamsStep(e, prev, y)} :
                         /\ r.bad # {} => PrintT(<<"VIOL", i + 1, r.bad>>)
                         /\ cands' = r.cands
                         /\ PrintT(<<"ACT", r.act>>)
               ELSE IF cc.solver \in {"bdf6", "bdf2"}
                 THEN \E r \in {BdfStep(e, prev, y)} :
                         /\ r.bad # {} => PrintT(<<"VIOL", i + 1, r.bad>>)
                         /\ PrintT(<<"ACT", r.act>>)
                         /\ UNCHANGED cands
               ELSE /\ \E bad \in {EulerBad(e, prev, y)} : bad # {} => PrintT(<<"VIOL", i + 1, bad>>)
                    /\ UNCHANGED cands
    [] OTHER -> UNCHANGED <<cc, win, cands, n>>

Next == /\ i < Len(Obs)
        /\ i' = i + 1
        /\ Step(Obs[i + 1])
        /\ (i' = Len(Obs)) => PrintT(<<"CHECKED", Len(Obs)>>)
=============================================================================
