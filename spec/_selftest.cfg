SPECIFICATION Spec
CONSTANTS AnyS = TRUE
          W = 12
          Tols = {2, 3, 5}
          Defects = {"ReturnSAlways"}
INVARIANTS InsideInitialInterval SignChangeKept BetterEndIsRight ValuesAreFunctionValues InverseQuadraticNeverTaken
           EvaluationsBounded ErrExactlyWhenNoBracketOrBadTolerance NoNumberWithoutBracket ResultIsRootOrSignChange

CHECK_DEADLOCK FALSE
