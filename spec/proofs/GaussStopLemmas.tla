--------------------------- MODULE GaussStopLemmas ---------------------------
(***************************************************************************)
(* Unbounded (TLAPS) proof, for every table length N and every verdict     *)
(* sequence, of an invariant that TLC checks for N = 8 (MC_GaussStop): the *)
(* Gaussian integrators never return before their second rule - an         *)
(* agreement counts only after a previous one, and the "previous error"    *)
(* starts above the tolerance.  (The seeded change r2-C09-A, which starts  *)
(* it at zero, is exactly a violation of this invariant.)                  *)
(* Checked by `tlapm` in the self-test; this directory is not parsed by    *)
(* SANY at set-up because module TLAPS is tlapm's own.                     *)
(***************************************************************************)
EXTENDS GaussStop, TLAPS

Inv == /\ k \in Nat
       /\ (prevSmall => k >= 1)
       /\ (stat = "ok" => result >= 2)

THEOREM NeverBeforeSecondRuleAlways == Init /\ [][Next]_vars => []NeverBeforeSecondRule
<1>1. Init => Inv
  BY DEF Init, Inv
<1>2. Inv /\ [Next]_vars => Inv'
  <2> SUFFICES ASSUME Inv, [Next]_vars PROVE Inv'
    OBVIOUS
  <2>1. CASE Rule
    BY <2>1 DEF Rule, RuleV, Inv
  <2>2. CASE Exhausted
    BY <2>2 DEF Exhausted, Inv
  <2>3. CASE UNCHANGED vars
    BY <2>3 DEF vars, Inv
  <2> QED BY <2>1, <2>2, <2>3 DEF Next
<1>3. Inv => NeverBeforeSecondRule
  BY DEF Inv, NeverBeforeSecondRule
<1> QED BY <1>1, <1>2, <1>3, PTL
=============================================================================
