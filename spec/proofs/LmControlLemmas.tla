--------------------------- MODULE LmControlLemmas ---------------------------
(***************************************************************************)
(* Unbounded (TLAPS) proof, for every search cap and any number of main    *)
(* passes, of two invariants that TLC checks for SearchCap = 3 and at most *)
(* 6 main passes (MC_LmControl): the block accounting of the Levenberg-    *)
(* Marquardt control skeleton (how many sweeps of the model and of the     *)
(* Jacobian have been made is determined by the numbers of search and main *)
(* passes) and the bound on the damping search.                            *)
(* Checked by `tlapm` in the self-test; this directory is not parsed by    *)
(* SANY at set-up because module TLAPS is tlapm's own.                     *)
(***************************************************************************)
EXTENDS LmControl, TLAPS

ASSUME CapIsNat == SearchCap \in Nat

Inv == /\ ks \in Nat /\ km \in Nat /\ fblocks \in Nat /\ jblocks \in Nat
       /\ phase \in {"idle", "search", "test", "main", "ok", "err"}
       /\ ks <= SearchCap
       /\ (phase = "idle" => ks = 0 /\ km = 0)
       /\ (phase # "idle" => fblocks = 2 + ks + 2 * km /\ jblocks = 1 + ks + km)

THEOREM AccountingAlways == Init /\ [][Next]_vars => [](BlockAccounting /\ SearchBounded)
<1>1. Init => Inv
  BY CapIsNat DEF Init, Inv
<1>2. Inv /\ [Next]_vars => Inv'
  <2> SUFFICES ASSUME Inv, [Next]_vars PROVE Inv'
    OBVIOUS
  <2>1. CASE Start
    BY <2>1, CapIsNat DEF Start, Inv
  <2>2. ASSUME NEW b \in BOOLEAN, SearchPass(b) PROVE Inv'
    BY <2>2, CapIsNat DEF SearchPass, Inv
  <2>3. ASSUME NEW b \in BOOLEAN, MainTest(b) PROVE Inv'
    BY <2>3, CapIsNat DEF MainTest, Inv
  <2>4. ASSUME NEW b \in BOOLEAN, MainPass(b) PROVE Inv'
    BY <2>4, CapIsNat DEF MainPass, Inv
  <2>5. CASE SolveFail
    BY <2>5, CapIsNat DEF SolveFail, Inv
  <2>6. CASE Done
    BY <2>6 DEF Done, vars, Inv
  <2>7. CASE UNCHANGED vars
    BY <2>7 DEF vars, Inv
  <2> QED BY <2>1, <2>2, <2>3, <2>4, <2>5, <2>6, <2>7 DEF Next
<1>3. Inv => BlockAccounting /\ SearchBounded
  BY DEF Inv, BlockAccounting, SearchBounded
<1> QED BY <1>1, <1>2, <1>3, PTL
=============================================================================
