--------------------------- MODULE TanhSinhLemmas ---------------------------
(***************************************************************************)
(* Unbounded (TLAPS) proof, for every number of levels N and every verdict *)
(* sequence, of the invariant that TanhSinhStop.cfg checks for N = 7:      *)
(* the tanh-sinh stopping logic never returns before the third level.      *)
(* Checked by `tlapm` in the self-test; this directory is not parsed by    *)
(* SANY at set-up because module TLAPS is tlapm's own.                     *)
(***************************************************************************)
EXTENDS TanhSinhStop, TLAPS

Inv == /\ k \in Nat
       /\ (stat = "ok" => result >= 3)

THEOREM NeverBeforeThirdLevelAlways == Init /\ [][Next]_vars => []NeverBeforeThirdLevel
<1>1. Init => Inv
  BY DEF Init, Inv
<1>2. Inv /\ [Next]_vars => Inv'
  <2> SUFFICES ASSUME Inv, [Next]_vars PROVE Inv'
    OBVIOUS
  <2>1. CASE Level
    BY <2>1 DEF Level, LevelV, Inv
  <2>2. CASE Exhausted
    BY <2>2 DEF Exhausted, Inv
  <2>3. CASE UNCHANGED vars
    BY <2>3 DEF vars, Inv
  <2> QED BY <2>1, <2>2, <2>3 DEF Next
<1>3. Inv => NeverBeforeThirdLevel
  BY DEF Inv, NeverBeforeThirdLevel
<1> QED BY <1>1, <1>2, <1>3, PTL
=============================================================================
